// mpi_algebra: replays TLC-generated cases of the MPI "algebra" (groups/communicators C32, Cartesian topologies C33,
// reduction operators C31, derived datatypes C30) into SMPI and prints what every rank obtained (ndjson on stdout).
// Usage (under smpirun, every rank runs the same file):  mpi_algebra <cases.txt>
// Token file: one case per line:  <id> <kind> <integers...>   (lists are length-prefixed; see the readers below).
// Output: lines {"c":<id>,"r":<rank>,...}; a case is complete for a rank once its {"c":id,"r":rank,"end":1} line is out.
// A barrier separates the cases, so when the process dies the first incomplete case is the one that killed it; the
// signal handler also names it.  No judgement is made here: Python compares these lines with TLC's expected values.
#include <mpi.h>
#include <signal.h>
#include <setjmp.h>
#include <unistd.h>
#include <cstdio>
#include <cstdlib>
#include <cstring>
#include <string>
#include <vector>
#include <sstream>
#include <fstream>

// What belongs to one rank lives in a W on that rank's stack (the driver runs without privatization of the globals, and an
// MPI call may yield to the other ranks, so nothing rank-specific may sit in a global).  g_w[rank] lets the signal handler find
// the W of the rank that is running.
struct W {
  int rank, size;
  MPI_Group group; // group of MPI_COMM_WORLD
  volatile long cur_case;
  const char* volatile stage;
  sigjmp_buf jb;
  volatile int armed, fault;
};
static W* g_w[1024];

#define STAGE(s)                                                                                                       \
  do {                                                                                                                 \
    w->cur_case = id;                                                                                                  \
    w->stage    = (s);                                                                                                 \
  } while (0)

// A synchronous fault inside one guarded MPI call (SIGFPE of a division by zero, SIGABRT of an xbt_die) is turned into a
// result of that call: the handler jumps back to the guard of the rank that is running.
#define GUARDED(stmt)                                                                                                  \
  do {                                                                                                                 \
    w->fault = 0;                                                                                                      \
    if (sigsetjmp(w->jb, 1) == 0) {                                                                                    \
      w->armed = 1;                                                                                                    \
      stmt;                                                                                                            \
    }                                                                                                                  \
    w->armed = 0;                                                                                                      \
  } while (0)
#define g_fault (w->fault)

static void on_signal(int sig)
{
  int r = -1;
  PMPI_Comm_rank(MPI_COMM_WORLD, &r);
  W* w = (r >= 0 && r < 1024) ? g_w[r] : nullptr;
  if (w && w->armed && (sig == SIGFPE || sig == SIGABRT)) {
    w->armed = 0;
    w->fault = sig;
    signal(sig, on_signal);
    siglongjmp(w->jb, 1);
  }
  char buf[256];
  int n = snprintf(buf, sizeof buf, "\n{\"crash\":%d,\"c\":%ld,\"r\":%d,\"stage\":\"%s\"}\n", sig, w ? (long)w->cur_case : -1L, r,
                   w ? (const char*)w->stage : "?");
  if (write(1, buf, n) < 0) {
  }
  _exit(70 + (sig % 50));
}

static const int U_ = -901; // MPI_UNDEFINED in cases / results
static const int P_ = -902; // MPI_PROC_NULL
static int enc(int v)
{
  return v == MPI_UNDEFINED ? U_ : v == MPI_PROC_NULL ? P_ : v;
}
static int dec(int v)
{
  return v == U_ ? MPI_UNDEFINED : v == P_ ? MPI_PROC_NULL : v;
}

struct Toks {
  std::vector<long> v;
  size_t p = 0;
  long next()
  {
    if (p >= v.size()) {
      fprintf(stderr, "mpi_algebra: truncated case line\n");
      exit(9);
    }
    return v[p++];
  }
  std::vector<int> list()
  {
    long n = next();
    std::vector<int> r(n);
    for (long i = 0; i < n; i++)
      r[i] = (int)next();
    return r;
  }
  std::vector<long> llist()
  {
    long n = next();
    std::vector<long> r(n);
    for (long i = 0; i < n; i++)
      r[i] = next();
    return r;
  }
};

struct Out {
  std::string s;
  bool first = true;
  Out(long c, int r)
  {
    char b[64];
    snprintf(b, sizeof b, "{\"c\":%ld,\"r\":%d", c, r);
    s = b;
  }
  void key(const char* k)
  {
    s += ",\"";
    s += k;
    s += "\":";
  }
  void num(const char* k, long long v)
  {
    key(k);
    s += std::to_string(v);
  }
  void str(const char* k, const char* v)
  {
    key(k);
    s += "\"";
    s += v;
    s += "\"";
  }
  template <class T> static std::string arr(const std::vector<T>& a)
  {
    std::string r = "[";
    for (size_t i = 0; i < a.size(); i++) {
      if (i)
        r += ",";
      r += std::to_string((long long)a[i]);
    }
    return r + "]";
  }
  template <class T> void list(const char* k, const std::vector<T>& a)
  {
    key(k);
    s += arr(a);
  }
  void raw(const char* k, const std::string& json)
  {
    key(k);
    s += json;
  }
  void emit()
  {
    s += "}\n";
    fputs(s.c_str(), stdout);
    fflush(stdout);
  }
};

// ---------------------------------------------------------------------------------------------- groups (C32)
static MPI_Group mkgroup(W* w, const std::vector<int>& g, int* err)
{
  MPI_Group r = MPI_GROUP_NULL;
  static int dummy = 0;
  int e = MPI_Group_incl(w->group, (int)g.size(), g.empty() ? &dummy : g.data(), &r);
  if (e != MPI_SUCCESS)
    *err = e;
  return r;
}

// members of a group as world ranks, its size and the rank of the caller in it
static std::string describe_group(W* w, MPI_Group g)
{
  if (g == MPI_GROUP_NULL)
    return "{\"null\":1}";
  int sz = -1, rk = -1;
  int e1 = MPI_Group_size(g, &sz);
  int e2 = MPI_Group_rank(g, &rk);
  std::vector<int> ranks(sz > 0 ? sz : 0), out(sz > 0 ? sz : 0);
  for (int i = 0; i < sz; i++)
    ranks[i] = i;
  int e3 = MPI_SUCCESS;
  static int dummy = 0;
  if (sz > 0)
    e3 = MPI_Group_translate_ranks(g, sz, ranks.data(), w->group, out.data());
  else {
    e3 = MPI_Group_translate_ranks(g, 0, &dummy, w->group, &dummy);
  }
  for (auto& x : out)
    x = enc(x);
  std::string s = "{\"sz\":" + std::to_string(sz) + ",\"rk\":" + std::to_string(enc(rk)) + ",\"mem\":" + Out::arr(out);
  if (e1 || e2 || e3)
    s += ",\"err\":" + std::to_string(e1 ? e1 : e2 ? e2 : e3);
  return s + "}";
}

static std::string describe_comm(W* w, MPI_Comm c)
{
  if (c == MPI_COMM_NULL)
    return "{\"null\":1}";
  int sz = -1, rk = -1;
  MPI_Comm_size(c, &sz);
  MPI_Comm_rank(c, &rk);
  MPI_Group g;
  MPI_Comm_group(c, &g);
  std::string s = "{\"csz\":" + std::to_string(sz) + ",\"crk\":" + std::to_string(enc(rk)) + ",\"g\":" + describe_group(w, g) + "}";
  MPI_Group_free(&g);
  return s;
}

static const char* cmpname(int r)
{
  return r == MPI_IDENT ? "ident" : r == MPI_SIMILAR ? "similar" : r == MPI_UNEQUAL ? "unequal" : r == MPI_CONGRUENT ? "congruent" : "?";
}

static void free_group(MPI_Group* g)
{
  if (*g != MPI_GROUP_NULL && *g != MPI_GROUP_EMPTY)
    MPI_Group_free(g);
}

// communicator over the world processes g (in that order); MPI_COMM_NULL on the others
static MPI_Comm base_comm(W* w, const std::vector<int>& g, int* err)
{
  MPI_Group G = mkgroup(w, g, err);
  MPI_Comm c  = MPI_COMM_NULL;
  int e       = MPI_Comm_create(MPI_COMM_WORLD, G, &c);
  if (e != MPI_SUCCESS)
    *err = e;
  if (c != MPI_COMM_NULL)
    MPI_Comm_set_errhandler(c, MPI_ERRORS_RETURN);
  free_group(&G);
  return c;
}

static void do_setop(W* w, long id, Toks& t)
{
  std::vector<int> g1 = t.list(), g2 = t.list();
  Out o(id, w->rank);
  int err = 0;
  MPI_Group G1 = mkgroup(w, g1, &err), G2 = mkgroup(w, g2, &err);
  MPI_Group U = MPI_GROUP_NULL, I = MPI_GROUP_NULL, D = MPI_GROUP_NULL;
  STAGE("union");
  int e = MPI_Group_union(G1, G2, &U);
  if (e)
    o.num("un_err", e);
  STAGE("intersection");
  e = MPI_Group_intersection(G1, G2, &I);
  if (e)
    o.num("in_err", e);
  STAGE("difference");
  e = MPI_Group_difference(G1, G2, &D);
  if (e)
    o.num("di_err", e);
  o.raw("un", describe_group(w, U));
  o.raw("in", describe_group(w, I));
  o.raw("di", describe_group(w, D));
  STAGE("compare");
  int res = -1;
  e = MPI_Group_compare(G1, G2, &res);
  o.str("cmp", e ? "err" : cmpname(res));
  STAGE("translate");
  std::vector<int> r1(g1.size() + 1), r2(g1.size() + 1, -12345);
  for (size_t i = 0; i < g1.size(); i++)
    r1[i] = (int)i;
  r1[g1.size()] = MPI_PROC_NULL;
  e = MPI_Group_translate_ranks(G1, (int)r1.size(), r1.data(), G2, r2.data());
  for (auto& x : r2)
    x = enc(x);
  if (e)
    o.num("tr_err", e);
  o.list("tr", r2);
  if (err)
    o.num("err", err);
  free_group(&U);
  free_group(&I);
  free_group(&D);
  free_group(&G1);
  free_group(&G2);
  o.emit();
}

static void do_inclexcl(W* w, long id, Toks& t, int kind) // 0 incl, 1 excl, 2 range_incl, 3 range_excl
{
  std::vector<int> g = t.list();
  Out o(id, w->rank);
  int err     = 0;
  MPI_Group G = mkgroup(w, g, &err), R = MPI_GROUP_NULL;
  static int dummy = 0;
  int e;
  if (kind < 2) {
    std::vector<int> r = t.list();
    STAGE(kind == 0 ? "incl" : "excl");
    e = kind == 0 ? MPI_Group_incl(G, (int)r.size(), r.empty() ? &dummy : r.data(), &R)
                  : MPI_Group_excl(G, (int)r.size(), r.empty() ? &dummy : r.data(), &R);
  } else {
    long n = t.next();
    std::vector<int> flat(3 * n + 3);
    for (long i = 0; i < 3 * n; i++)
      flat[i] = (int)t.next();
    STAGE(kind == 2 ? "range_incl" : "range_excl");
    e       = kind == 2 ? MPI_Group_range_incl(G, (int)n, (int(*)[3])flat.data(), &R)
                        : MPI_Group_range_excl(G, (int)n, (int(*)[3])flat.data(), &R);
  }
  if (e)
    o.num("op_err", e);
  o.raw("res", describe_group(w, R));
  if (err)
    o.num("err", err);
  if (R != G)
    free_group(&R);
  free_group(&G);
  o.emit();
}

static void do_split(W* w, long id, Toks& t)
{
  std::vector<int> g = t.list(), col = t.list(), key = t.list();
  Out o(id, w->rank);
  int err    = 0;
  STAGE("base_comm");
  MPI_Comm c = base_comm(w, g, &err);
  if (c == MPI_COMM_NULL) {
    o.num("outside", 1);
  } else {
    int me;
    MPI_Comm_rank(c, &me);
    MPI_Comm nc = MPI_COMM_NULL;
    STAGE("split");
    int e       = MPI_Comm_split(c, dec(col[me]), key[me], &nc);
    if (e)
      o.num("op_err", e);
    o.num("me", me);
    o.raw("res", describe_comm(w, nc));
    if (nc != MPI_COMM_NULL)
      MPI_Comm_free(&nc);
    MPI_Comm_free(&c);
  }
  if (err)
    o.num("err", err);
  o.emit();
}

static void do_create(W* w, long id, Toks& t)
{
  std::vector<int> g = t.list(), h = t.list();
  Out o(id, w->rank);
  int err    = 0;
  STAGE("base_comm");
  MPI_Comm c = base_comm(w, g, &err);
  if (c == MPI_COMM_NULL) {
    o.num("outside", 1);
  } else {
    int me;
    MPI_Comm_rank(c, &me);
    MPI_Group cg, hg = MPI_GROUP_NULL;
    MPI_Comm_group(c, &cg);
    static int dummy = 0;
    int e            = MPI_Group_incl(cg, (int)h.size(), h.empty() ? &dummy : h.data(), &hg);
    MPI_Comm nc      = MPI_COMM_NULL;
    STAGE("comm_create");
    if (!e)
      e = MPI_Comm_create(c, hg, &nc);
    if (e)
      o.num("op_err", e);
    o.num("me", me);
    o.raw("res", describe_comm(w, nc));
    if (nc != MPI_COMM_NULL)
      MPI_Comm_free(&nc);
    free_group(&hg);
    free_group(&cg);
    MPI_Comm_free(&c);
  }
  if (err)
    o.num("err", err);
  o.emit();
}

static void do_dup(W* w, long id, Toks& t)
{
  std::vector<int> g = t.list();
  Out o(id, w->rank);
  int err    = 0;
  STAGE("base_comm");
  MPI_Comm c = base_comm(w, g, &err);
  if (c == MPI_COMM_NULL) {
    o.num("outside", 1);
  } else {
    int me, n;
    MPI_Comm_rank(c, &me);
    MPI_Comm_size(c, &n);
    MPI_Comm d = MPI_COMM_NULL;
    STAGE("dup");
    int e      = MPI_Comm_dup(c, &d);
    if (e)
      o.num("op_err", e);
    o.num("me", me);
    o.raw("res", describe_comm(w, d));
    if (d != MPI_COMM_NULL) {
      MPI_Comm_set_errhandler(d, MPI_ERRORS_RETURN);
      int res = -1;
      e       = MPI_Comm_compare(c, d, &res);
      o.str("cmp", e ? "err" : cmpname(res));
      // same destination, same tag, two communicators: first on the duplicate, then on the original; received in the other order
      STAGE("xcomm");
      int right = (me + 1) % n, left = (me + n - 1) % n;
      int sd = 2000 + me, sc = 1000 + me, rc = -1, rd = -1;
      MPI_Request rq[2];
      MPI_Isend(&sd, 1, MPI_INT, right, 5, d, &rq[0]);
      MPI_Isend(&sc, 1, MPI_INT, right, 5, c, &rq[1]);
      MPI_Status st;
      MPI_Recv(&rc, 1, MPI_INT, left, 5, c, &st);
      MPI_Recv(&rd, 1, MPI_INT, MPI_ANY_SOURCE, 5, d, &st);
      MPI_Waitall(2, rq, MPI_STATUSES_IGNORE);
      std::vector<int> xc = {rc, rd};
      o.list("xc", xc);
      MPI_Comm_free(&d);
    }
    MPI_Comm_free(&c);
  }
  if (err)
    o.num("err", err);
  o.emit();
}

// ---------------------------------------------------------------------------------------------- Cartesian topologies (C33)
static std::string mat(const std::vector<std::vector<int>>& m)
{
  std::string s = "[";
  for (size_t i = 0; i < m.size(); i++) {
    if (i)
      s += ",";
    s += Out::arr(m[i]);
  }
  return s + "]";
}

static void do_cart(W* w, long id, Toks& t)
{
  std::vector<int> d = t.list(), p = t.list();
  long nprobe = t.next();
  int nd      = (int)d.size();
  std::vector<std::vector<int>> probes(nprobe, std::vector<int>(nd));
  for (auto& pr : probes)
    for (int k = 0; k < nd; k++)
      pr[k] = (int)t.next();
  Out o(id, w->rank);
  MPI_Comm cart = MPI_COMM_NULL;
  STAGE("cart_create");
  int e         = MPI_Cart_create(MPI_COMM_WORLD, nd, d.data(), p.data(), 0, &cart);
  if (e)
    o.num("op_err", e);
  if (cart == MPI_COMM_NULL) {
    o.num("null", 1);
    o.emit();
    return;
  }
  MPI_Comm_set_errhandler(cart, MPI_ERRORS_RETURN);
  int n, me, gnd = -1;
  MPI_Comm_size(cart, &n);
  MPI_Comm_rank(cart, &me);
  o.num("n", n);
  o.num("me", me);
  STAGE("cartdim_get");
  GUARDED(MPI_Cartdim_get(cart, &gnd));
  o.num("nd", gnd);
  std::vector<int> gd(nd, -7), gp(nd, -7), gc(nd, -7);
  STAGE("cart_get");
  GUARDED(e = MPI_Cart_get(cart, nd, gd.data(), gp.data(), gc.data()));
  if (g_fault)
    o.num("get_sig", g_fault);
  else if (e)
    o.num("get_err", e);
  o.list("gd", gd);
  o.list("gp", gp);
  o.list("gc", gc);
  // coordinates: of every rank when the grid is small or on rank 0, else of a few ranks around the caller
  std::vector<int> who;
  if (n <= 12 || me == 0)
    for (int r = 0; r < n; r++)
      who.push_back(r);
  else
    who = {me, (me + 1) % n, n - 1 - me, 0, n - 1};
  std::vector<std::vector<int>> co;
  STAGE("cart_coords");
  for (int r : who) {
    std::vector<int> c(nd, -7);
    GUARDED(e = MPI_Cart_coords(cart, r, nd, c.data()));
    if (g_fault)
      c.assign(nd, -1000 - g_fault);
    else if (e)
      c.assign(nd, -100 - e);
    co.push_back(c);
  }
  o.list("who", who);
  o.raw("co", mat(co));
  STAGE("cart_rank");
  std::vector<int> pr(nprobe);
  for (long j = 0; j < nprobe; j++) {
    int r = -7;
    GUARDED(e = MPI_Cart_rank(cart, probes[j].data(), &r));
    pr[j] = g_fault ? -1000 - g_fault : e ? -100 - e : r;
  }
  o.list("prank", pr);
  STAGE("cart_shift");
  std::string sh = "[";
  for (int dir = 0; dir < nd; dir++) {
    if (dir)
      sh += ",";
    std::vector<int> row;
    for (int k = -2 * d[dir]; k <= 2 * d[dir]; k++) {
      int s = -7, ds = -7;
      GUARDED(e = MPI_Cart_shift(cart, dir, k, &s, &ds));
      if (g_fault)
        s = ds = -1000 - g_fault;
      else if (e)
        s = ds = -100 - e;
      row.push_back(enc(s));
      row.push_back(enc(ds));
    }
    sh += Out::arr(row);
  }
  o.raw("shift", sh + "]");
  MPI_Comm_free(&cart);
  o.emit();
}

static void do_dims(W* w, long id, Toks& t)
{
  int nn             = (int)t.next();
  std::vector<int> g = t.list();
  Out o(id, w->rank);
  STAGE("dims_create");
  int e   = MPI_Dims_create(nn, (int)g.size(), g.data());
  o.num("e", e == MPI_SUCCESS ? 0 : 1);
  o.list("res", g);
  o.emit();
}

static void do_sub(W* w, long id, Toks& t)
{
  std::vector<int> d = t.list(), p = t.list(), rem = t.list();
  int nd = (int)d.size();
  MPI_Comm cart = MPI_COMM_NULL, sub = MPI_COMM_NULL;
  STAGE("cart_create");
  int e   = MPI_Cart_create(MPI_COMM_WORLD, nd, d.data(), p.data(), 0, &cart);
  if (cart == MPI_COMM_NULL) {
    Out o(id, w->rank);
    o.num("st", 0);
    o.num("null", 1);
    o.emit();
    return;
  }
  MPI_Comm_set_errhandler(cart, MPI_ERRORS_RETURN);
  STAGE("cart_sub");
  e       = MPI_Cart_sub(cart, rem.data(), &sub);
  int snd = 0;
  for (int x : rem)
    snd += x ? 1 : 0;
  { // stage 1: the communicator itself
    Out o(id, w->rank);
    o.num("st", 1);
    if (e)
      o.num("op_err", e);
    o.raw("res", describe_comm(w, sub));
    o.emit();
  }
  if (sub != MPI_COMM_NULL) {
    MPI_Comm_set_errhandler(sub, MPI_ERRORS_RETURN);
    int n, me;
    MPI_Comm_size(sub, &n);
    MPI_Comm_rank(sub, &me);
    { // stage 2: what the topology says about itself
      Out o(id, w->rank);
      o.num("st", 2);
      int gnd = -7;
      STAGE("sub:cartdim_get");
      GUARDED(e = MPI_Cartdim_get(sub, &gnd));
      if (g_fault)
        o.num("nd_sig", g_fault);
      else if (e)
        o.num("nd_err", e);
      o.num("nd", gnd);
      std::vector<int> gd(snd, -7), gp(snd, -7), gc(snd, -7);
      STAGE("sub:cart_get");
      e = MPI_SUCCESS;
      if (snd > 0)
        GUARDED(e = MPI_Cart_get(sub, snd, gd.data(), gp.data(), gc.data()));
      if (snd > 0 && g_fault)
        o.num("get_sig", g_fault);
      else if (e)
        o.num("get_err", e);
      o.list("gd", gd);
      o.list("gp", gp);
      o.list("gc", gc);
      o.emit();
    }
    if (snd > 0) { // stage 3: coordinates of every member (divides by the stored dimensions)
      Out o(id, w->rank);
      o.num("st", 3);
      std::vector<std::vector<int>> co;
      int sig = 0;
      STAGE("sub:cart_coords");
      for (int r = 0; r < n; r++) {
        std::vector<int> c(snd, -7);
        GUARDED(e = MPI_Cart_coords(sub, r, snd, c.data()));
        if (g_fault) {
          sig = g_fault;
          c.assign(snd, -1000 - g_fault);
        } else if (e)
          c.assign(snd, -100 - e);
        co.push_back(c);
      }
      if (sig)
        o.num("sig", sig);
      o.raw("co", mat(co));
      o.emit();
    }
    if (snd > 0) { // stage 4: neighbours inside the sub-grid
      Out o(id, w->rank);
      o.num("st", 4);
      STAGE("sub:cart_shift");
      int sig        = 0;
      std::string sh = "[";
      const int ks[3] = {-1, 1, 2};
      for (int dir = 0; dir < snd; dir++) {
        if (dir)
          sh += ",";
        std::vector<int> row;
        for (int k : ks) {
          int s = -7, ds = -7;
          GUARDED(e = MPI_Cart_shift(sub, dir, k, &s, &ds));
          if (g_fault) {
            sig = g_fault;
            s = ds = -1000 - g_fault;
          } else if (e)
            s = ds = -100 - e;
          row.push_back(enc(s));
          row.push_back(enc(ds));
        }
        sh += Out::arr(row);
      }
      if (sig)
        o.num("sig", sig);
      o.raw("shift", sh + "]");
      o.emit();
    }
    MPI_Comm_free(&sub);
  }
  MPI_Comm_free(&cart);
}

#include "mpi_algebra_op.inc"
#include "mpi_algebra_type.inc"

int main(int argc, char** argv)
{
  MPI_Init(&argc, &argv);
  W ww;
  W* w = &ww;
  w->armed = w->fault = 0;
  w->cur_case = -1;
  w->stage = "init";
  MPI_Comm_rank(MPI_COMM_WORLD, &w->rank);
  if (w->rank < 1024)
    g_w[w->rank] = w;
  MPI_Comm_size(MPI_COMM_WORLD, &w->size);
  MPI_Comm_set_errhandler(MPI_COMM_WORLD, MPI_ERRORS_RETURN);
  MPI_Comm_group(MPI_COMM_WORLD, &w->group);
  signal(SIGFPE, on_signal);
  signal(SIGSEGV, on_signal);
  signal(SIGABRT, on_signal);
  signal(SIGBUS, on_signal);
  signal(SIGILL, on_signal);
  if (argc < 2) {
    fprintf(stderr, "usage: mpi_algebra cases.txt\n");
    return 2;
  }
  std::ifstream in(argv[1]);
  if (!in) {
    fprintf(stderr, "mpi_algebra: cannot read %s\n", argv[1]);
    return 2;
  }
  std::string line;
  while (std::getline(in, line)) {
    if (line.empty() || line[0] == '#')
      continue;
    std::istringstream is(line);
    long id;
    std::string kind;
    is >> id >> kind;
    Toks t;
    long x;
    while (is >> x)
      t.v.push_back(x);
    STAGE("start");
    if (kind == "setop")
      do_setop(w, id, t);
    else if (kind == "incl")
      do_inclexcl(w, id, t, 0);
    else if (kind == "excl")
      do_inclexcl(w, id, t, 1);
    else if (kind == "rincl")
      do_inclexcl(w, id, t, 2);
    else if (kind == "rexcl")
      do_inclexcl(w, id, t, 3);
    else if (kind == "split")
      do_split(w, id, t);
    else if (kind == "create")
      do_create(w, id, t);
    else if (kind == "dup")
      do_dup(w, id, t);
    else if (kind == "cart")
      do_cart(w, id, t);
    else if (kind == "dims")
      do_dims(w, id, t);
    else if (kind == "sub")
      do_sub(w, id, t);
    else if (kind == "rl" || kind == "ar" || kind == "rma")
      do_op(w, id, kind, t);
    else if (kind == "type")
      do_type(w, id, t);
    else {
      fprintf(stderr, "mpi_algebra: unknown case kind %s\n", kind.c_str());
      return 2;
    }
    STAGE("barrier");
    printf("{\"c\":%ld,\"r\":%d,\"end\":1}\n", id, w->rank);
    fflush(stdout);
    MPI_Barrier(MPI_COMM_WORLD);
  }
  MPI_Group_free(&w->group);
  MPI_Finalize();
  return 0;
}
