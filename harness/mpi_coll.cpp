/* mpi_coll: runs collectives on generated inputs and writes every rank's result buffer (SMPI).
 * The algorithm under test is selected on the command line of smpirun (--cfg=smpi/<coll>:<algo>).
 *
 * case file (the same on every rank):
 *   case <id> <coll> <root> <op> <count> <fill> <sleep_us>
 *   send <rank> <len> v...        send buffer of <rank> (bcast: the in/out buffer)
 *   rlen <rank> <len>             length of its receive buffer
 *   sc|sd|rc|rd <rank> <n> v...   counts / displacements of <rank> (v-variants, reduce_scatter)
 *   end
 * output (file named by VERIF_COLLOUT, one write() per line, O_APPEND):
 *   R <id> <rank> <rc> <len> v...     receive buffer of <rank> after case <id> (rc = return code of the collective)
 *   B <id> <rank> <enter_us> <leave_us>   barrier: simulated dates of entry and exit, microseconds
 *   D <rank>                      rank executed every case
 */
#include <mpi.h>

#include <cstdarg>
#include <cstdio>
#include <cstdlib>
#include <cstring>
#include <fcntl.h>
#include <fstream>
#include <map>
#include <sstream>
#include <string>
#include <unistd.h>
#include <vector>

static int out_fd = -1;

static void olog(const std::string& s)
{
  if (out_fd >= 0 && write(out_fd, s.data(), s.size()) < 0)
    out_fd = -1;
}

struct Case {
  int id = 0, root = 0, count = 0, fill = 0, sleep_us = 0;
  std::string coll, op;
  std::map<int, std::vector<int>> send, sc, sd, rc, rd;
  std::map<int, int> rlen;
};

static MPI_Op op_of(const std::string& o)
{
  if (o == "SUM")
    return MPI_SUM;
  if (o == "PROD")
    return MPI_PROD;
  if (o == "MAX")
    return MPI_MAX;
  if (o == "MIN")
    return MPI_MIN;
  if (o == "BXOR")
    return MPI_BXOR;
  fprintf(stderr, "mpi_coll: unknown op %s\n", o.c_str());
  _exit(4);
}

int main(int argc, char** argv)
{
  MPI_Init(&argc, &argv);
  int rank, np;
  MPI_Comm_rank(MPI_COMM_WORLD, &rank);
  MPI_Comm_size(MPI_COMM_WORLD, &np);
  if (argc < 2) {
    fprintf(stderr, "usage: mpi_coll cases.txt\n");
    return 4;
  }
  if (const char* of = getenv("VERIF_COLLOUT"))
    out_fd = open(of, O_WRONLY | O_APPEND | O_CREAT, 0644);

  std::vector<Case> cases;
  {
    std::ifstream in(argv[1]);
    if (!in) {
      fprintf(stderr, "mpi_coll: cannot read %s\n", argv[1]);
      return 4;
    }
    std::string line;
    while (std::getline(in, line)) {
      std::istringstream ls(line);
      std::string w;
      if (!(ls >> w) || w[0] == '#')
        continue;
      if (w == "case") {
        Case c;
        ls >> c.id >> c.coll >> c.root >> c.op >> c.count >> c.fill >> c.sleep_us;
        cases.push_back(c);
      } else if (w == "end") {
        continue;
      } else if (w == "rlen") {
        int r, n;
        ls >> r >> n;
        cases.back().rlen[r] = n;
      } else {
        int r, n;
        ls >> r >> n;
        std::vector<int> v(n);
        for (int i = 0; i < n; i++)
          ls >> v[i];
        Case& c = cases.back();
        if (r != rank && w != "send")
          continue; // only this rank's counts are needed
        if (w == "send") {
          if (r == rank)
            c.send[r] = v;
        } else if (w == "sc")
          c.sc[r] = v;
        else if (w == "sd")
          c.sd[r] = v;
        else if (w == "rc")
          c.rc[r] = v;
        else if (w == "rd")
          c.rd[r] = v;
      }
    }
  }

  MPI_Comm comm = MPI_COMM_WORLD;
  MPI_Comm_set_errhandler(comm, MPI_ERRORS_RETURN);
  for (Case& c : cases) {
    std::vector<int> sbuf = c.send[rank];
    int rl                = c.rlen[rank];
    std::vector<int> rbuf(rl + 4, c.fill); // 4 guard elements
    std::vector<int>& sc = c.sc[rank];
    std::vector<int>& sd = c.sd[rank];
    std::vector<int>& rc = c.rc[rank];
    std::vector<int>& rd = c.rd[rank];
    // never hand a null pointer for an empty buffer
    sbuf.push_back(0);
    int rcode        = MPI_SUCCESS;
    const int k      = c.count;
    const std::string& n = c.coll;
    if (n == "barrier") {
      // ranks arrive at different simulated dates; nobody may leave before the last one has entered
      if (c.sleep_us > 0)
        usleep(static_cast<useconds_t>(c.sleep_us) * (rank + 1)); // SMPI turns it into simulated time
      double t0 = MPI_Wtime();
      rcode     = MPI_Barrier(comm);
      double t1 = MPI_Wtime();
      std::ostringstream o;
      // whole microseconds (the same monotone rounding for both dates; arrivals are >= 100 us apart)
      o << "B " << c.id << " " << rank << " " << static_cast<long long>(t0 * 1e6) << " " << static_cast<long long>(t1 * 1e6)
        << "\n";
      olog(o.str());
    } else if (n == "bcast") {
      rbuf = sbuf; // in/out buffer
      rbuf.resize(rl + 4, c.fill);
      for (int i = rl; i < rl + 4; i++)
        rbuf[i] = c.fill;
      rcode = MPI_Bcast(rbuf.data(), k, MPI_INT, c.root, comm);
    } else if (n == "reduce")
      rcode = MPI_Reduce(sbuf.data(), rbuf.data(), k, MPI_INT, op_of(c.op), c.root, comm);
    else if (n == "allreduce")
      rcode = MPI_Allreduce(sbuf.data(), rbuf.data(), k, MPI_INT, op_of(c.op), comm);
    else if (n == "scan")
      rcode = MPI_Scan(sbuf.data(), rbuf.data(), k, MPI_INT, op_of(c.op), comm);
    else if (n == "exscan")
      rcode = MPI_Exscan(sbuf.data(), rbuf.data(), k, MPI_INT, op_of(c.op), comm);
    else if (n == "gather")
      rcode = MPI_Gather(sbuf.data(), k, MPI_INT, rbuf.data(), k, MPI_INT, c.root, comm);
    else if (n == "allgather")
      rcode = MPI_Allgather(sbuf.data(), k, MPI_INT, rbuf.data(), k, MPI_INT, comm);
    else if (n == "gatherv")
      rcode = MPI_Gatherv(sbuf.data(), static_cast<int>(c.send[rank].size()), MPI_INT, rbuf.data(), rc.data(), rd.data(),
                          MPI_INT, c.root, comm);
    else if (n == "allgatherv")
      rcode = MPI_Allgatherv(sbuf.data(), static_cast<int>(c.send[rank].size()), MPI_INT, rbuf.data(), rc.data(),
                             rd.data(), MPI_INT, comm);
    else if (n == "scatter")
      rcode = MPI_Scatter(sbuf.data(), k, MPI_INT, rbuf.data(), k, MPI_INT, c.root, comm);
    else if (n == "scatterv")
      rcode = MPI_Scatterv(sbuf.data(), sc.data(), sd.data(), MPI_INT, rbuf.data(), rl, MPI_INT, c.root, comm);
    else if (n == "alltoall")
      rcode = MPI_Alltoall(sbuf.data(), k, MPI_INT, rbuf.data(), k, MPI_INT, comm);
    else if (n == "alltoallv")
      rcode = MPI_Alltoallv(sbuf.data(), sc.data(), sd.data(), MPI_INT, rbuf.data(), rc.data(), rd.data(), MPI_INT, comm);
    else if (n == "reduce_scatter")
      rcode = MPI_Reduce_scatter(sbuf.data(), rbuf.data(), rc.data(), MPI_INT, op_of(c.op), comm);
    else {
      fprintf(stderr, "mpi_coll: unknown collective %s\n", n.c_str());
      _exit(4);
    }
    if (n != "barrier") {
      std::ostringstream o;
      o << "R " << c.id << " " << rank << " " << rcode << " " << rl;
      for (int i = 0; i < rl; i++)
        o << " " << rbuf[i];
      int guard = 1;
      for (int i = rl; i < rl + 4; i++)
        if (rbuf[i] != c.fill)
          guard = 0;
      o << " G" << guard << "\n";
      olog(o.str());
    }
  }
  {
    std::ostringstream o;
    o << "D " << rank << "\n";
    olog(o.str());
  }
  MPI_Finalize();
  return 0;
}
