/* mpi_p2p: MPI point-to-point interpreter (SMPI). Every rank reads the same program (token file), builds the
 * communicators, executes its own operation list and appends ndjson lines to the file named by VERIF_MPITRACE.
 * SMPI runs all ranks inside one process under a sequential scheduler, and every line is one write() on an O_APPEND
 * descriptor, so the file order is the real execution order.  Vocabulary (consumed by spec/mpi/MpiP2P_trace.tla):
 *   comm a c rank size        the communicator c as rank a sees it (rank -1: not a member)
 *   call a k op               rank a (1-based world rank) enters operation k (1-based)
 *   ret  a k res              it returned; res = list of statuses {flag,src,tag,cnt,err,mid,ok}
 *   fin  a                    rank a executed its whole list      end how   (deadlock report / fatal signal)
 * Payload of the message sent by operation k of rank a: 32-bit words, word 0 = a*256+k, word i = id*2654435761+i.
 *
 * token file:   @np N | @slots S | @comm dup | @comm split color_0..color_{N-1} key_0..key_{N-1} | @rank r (0-based)
 *               <op> c peer tag n r peer2 tag2 n2 nrs rs...            | @end
 * usage: smpirun ... ./mpi_p2p program.txt
 */
#include <mpi.h>
#include <simgrid/s4u.hpp>

#include <csignal>
#include <cstdarg>
#include <cstdint>
#include <cstdio>
#include <cstdlib>
#include <cstring>
#include <fcntl.h>
#include <fstream>
#include <sstream>
#include <string>
#include <unistd.h>
#include <vector>

static int trace_fd = -1;

static void tlog(const char* fmt, ...)
{
  if (trace_fd < 0)
    return;
  char buf[4096];
  va_list ap;
  va_start(ap, fmt);
  int n = vsnprintf(buf, sizeof buf, fmt, ap);
  va_end(ap);
  if (n >= static_cast<int>(sizeof buf))
    n = sizeof buf - 1;
  if (n > 0 && write(trace_fd, buf, n) < 0)
    trace_fd = -1;
}

static void on_fatal_signal(int sig)
{
  tlog("{\"e\":\"end\",\"how\":\"%s\",\"sig\":%d}\n", sig == SIGABRT ? "abort" : "signal", sig);
  _exit(0);
}

struct Op {
  std::string name;
  int c = 1, peer = 0, tag = 0, n = 0, r = 0, peer2 = 0, tag2 = 0, n2 = 0;
  std::vector<int> rs;
};
struct CommSpec {
  bool dup = true;
  std::vector<int> color, key;
};
struct Slot {
  int kind = 0; // 0 none, 1 send, 2 recv
  MPI_Request req = MPI_REQUEST_NULL;
  unsigned char* buf = nullptr;
  int n = 0;
};

static const unsigned char FILL = 0xEE;

static uint32_t word_of(uint32_t id, int i)
{
  return i == 0 ? id : id * 2654435761u + static_cast<uint32_t>(i);
}

static unsigned char* make_payload(int a, int k, int n)
{
  auto* b = static_cast<unsigned char*>(malloc(n + 8));
  uint32_t id = static_cast<uint32_t>(a * 256 + k);
  for (int i = 0; i * 4 < n; i++) {
    uint32_t w = word_of(id, i);
    memcpy(b + 4 * i, &w, (n - 4 * i) >= 4 ? 4 : (n - 4 * i));
  }
  return b;
}

static unsigned char* make_recvbuf(int n)
{
  auto* b = static_cast<unsigned char*>(malloc(n + 16));
  memset(b, FILL, n + 16);
  return b;
}

struct Res {
  int flag = 1, src = -2, tag = -2, cnt = 0, err = 0, mid = -1, ok = 1;
};

static int map_src(int s)
{
  return s == MPI_ANY_SOURCE ? -1 : s;
}
static int map_tag(int t)
{
  return t == MPI_ANY_TAG ? -1 : t;
}

/* decode what a completed receive left in buf (capacity n) */
static Res recv_result(int rc, const MPI_Status& st, bool in_status, const unsigned char* buf, int n)
{
  Res r;
  int cnt = 0;
  MPI_Get_count(&st, MPI_BYTE, &cnt);
  r.src = map_src(st.MPI_SOURCE);
  r.tag = map_tag(st.MPI_TAG);
  r.cnt = cnt;
  bool trunc = in_status ? (rc == MPI_ERR_IN_STATUS && st.MPI_ERROR == MPI_ERR_TRUNCATE)
                         : (rc == MPI_ERR_TRUNCATE || st.MPI_ERROR == MPI_ERR_TRUNCATE);
  r.err = trunc ? 1 : ((rc != MPI_SUCCESS && !(in_status && rc == MPI_ERR_IN_STATUS)) ? 2 : 0);
  if (in_status && rc == MPI_ERR_IN_STATUS && st.MPI_ERROR != MPI_SUCCESS && st.MPI_ERROR != MPI_ERR_TRUNCATE &&
      st.MPI_ERROR != MPI_ERR_PENDING)
    r.err = 2;
  if (buf != nullptr && cnt >= 0 && cnt <= n) {
    uint32_t id = 0;
    if (cnt >= 4) {
      memcpy(&id, buf, 4);
      r.mid = static_cast<int>(id);
      for (int i = 1; i * 4 < cnt; i++) {
        uint32_t w = word_of(id, i), g = 0;
        int len = (cnt - 4 * i) >= 4 ? 4 : (cnt - 4 * i);
        memcpy(&g, buf + 4 * i, len);
        uint32_t e = 0;
        memcpy(&e, &w, len);
        if (g != e)
          r.ok = 0;
      }
    }
    for (int i = cnt; i < n + 16; i++) // nothing written beyond count (and beyond the buffer)
      if (buf[i] != FILL)
        r.ok = 0;
  } else if (buf != nullptr)
    r.ok = 0;
  return r;
}

static Res send_result(int rc)
{
  Res r;
  r.err = rc == MPI_SUCCESS ? 0 : 2;
  return r;
}

static std::string res_json(const std::vector<Res>& v)
{
  std::ostringstream o;
  o << "[";
  for (size_t i = 0; i < v.size(); i++)
    o << (i ? "," : "") << "{\"flag\":" << v[i].flag << ",\"src\":" << v[i].src << ",\"tag\":" << v[i].tag
      << ",\"cnt\":" << v[i].cnt << ",\"err\":" << v[i].err << ",\"mid\":" << v[i].mid << ",\"ok\":" << v[i].ok << "}";
  o << "]";
  return o.str();
}

int main(int argc, char** argv)
{
  MPI_Init(&argc, &argv);
  int wrank, wsize;
  MPI_Comm_rank(MPI_COMM_WORLD, &wrank);
  MPI_Comm_size(MPI_COMM_WORLD, &wsize);
  if (argc < 2) {
    fprintf(stderr, "usage: mpi_p2p program.txt\n");
    return 4;
  }
  const char* tf = getenv("VERIF_MPITRACE");
  if (tf != nullptr)
    trace_fd = open(tf, O_WRONLY | O_APPEND | O_CREAT, 0644);

  // ---- parse
  int np = 0, nslots = 1;
  std::vector<CommSpec> cspecs;
  std::vector<std::vector<Op>> lists;
  {
    std::ifstream in(argv[1]);
    if (!in) {
      fprintf(stderr, "mpi_p2p: cannot read %s\n", argv[1]);
      return 4;
    }
    std::string line;
    while (std::getline(in, line)) {
      std::istringstream ls(line);
      std::string w;
      if (!(ls >> w) || w[0] == '#')
        continue;
      if (w == "@np") {
        ls >> np;
        lists.resize(np);
      } else if (w == "@slots")
        ls >> nslots;
      else if (w == "@comm") {
        CommSpec cs;
        std::string kind;
        ls >> kind;
        cs.dup = kind == "dup";
        if (!cs.dup) {
          cs.color.resize(np);
          cs.key.resize(np);
          for (int i = 0; i < np; i++)
            ls >> cs.color[i];
          for (int i = 0; i < np; i++)
            ls >> cs.key[i];
        }
        cspecs.push_back(cs);
      } else if (w == "@rank") {
        int r;
        ls >> r;
        lists.resize(np);
        // following ops go to rank r: remember through a marker op
        Op m;
        m.name = "@";
        m.c    = r;
        lists[0].push_back(m); // placeholder, resolved below
      } else if (w == "@end")
        break;
      else {
        Op o;
        o.name  = w;
        int nrs = 0;
        ls >> o.c >> o.peer >> o.tag >> o.n >> o.r >> o.peer2 >> o.tag2 >> o.n2 >> nrs;
        for (int i = 0; i < nrs; i++) {
          int x;
          ls >> x;
          o.rs.push_back(x);
        }
        lists[0].push_back(o);
      }
    }
  }
  if (np != wsize) {
    fprintf(stderr, "mpi_p2p: program wants %d ranks, run has %d\n", np, wsize);
    return 4;
  }
  // resolve the marker encoding: lists[0] holds the whole file; split it per rank
  std::vector<Op> mine;
  {
    int cur = -1;
    for (const Op& o : lists[0]) {
      if (o.name == "@")
        cur = o.c;
      else if (cur == wrank)
        mine.push_back(o);
    }
  }

  const int me = wrank + 1;
  if (wrank == 0) {
    signal(SIGABRT, on_fatal_signal);
    signal(SIGSEGV, on_fatal_signal);
    signal(SIGFPE, on_fatal_signal);
    simgrid::s4u::Engine::on_deadlock_cb([]() { tlog("{\"e\":\"end\",\"how\":\"deadlock\"}\n"); });
  }

  // ---- communicators (index 1 = world)
  std::vector<MPI_Comm> comms{MPI_COMM_NULL, MPI_COMM_WORLD};
  for (const CommSpec& cs : cspecs) {
    MPI_Comm nc = MPI_COMM_NULL;
    if (cs.dup)
      MPI_Comm_dup(MPI_COMM_WORLD, &nc);
    else
      MPI_Comm_split(MPI_COMM_WORLD, cs.color[wrank] < 0 ? MPI_UNDEFINED : cs.color[wrank], cs.key[wrank], &nc);
    comms.push_back(nc);
  }
  for (size_t c = 1; c < comms.size(); c++) {
    int r = -1, s = 0;
    if (comms[c] != MPI_COMM_NULL) {
      MPI_Comm_set_errhandler(comms[c], MPI_ERRORS_RETURN);
      MPI_Comm_rank(comms[c], &r);
      MPI_Comm_size(comms[c], &s);
    }
    tlog("{\"e\":\"comm\",\"a\":%d,\"c\":%zu,\"rank\":%d,\"size\":%d}\n", me, c, r, s);
  }
  static const int BSEND_BYTES = 1 << 20; // room for every MPI_Bsend of a program (<= 8 messages of <= 70000 bytes)
  void* bsend_space            = malloc(BSEND_BYTES);
  MPI_Buffer_attach(bsend_space, BSEND_BYTES);
  MPI_Barrier(MPI_COMM_WORLD);

  // ---- run
  std::vector<Slot> slots(nslots + 1);
  std::vector<unsigned char*> garbage;
  for (size_t ki = 0; ki < mine.size(); ki++) {
    const Op& o = mine[ki];
    const int k = static_cast<int>(ki) + 1;
    tlog("{\"e\":\"call\",\"a\":%d,\"k\":%d,\"op\":\"%s\"}\n", me, k, o.name.c_str());
    std::vector<Res> res;
    MPI_Comm cm = comms[o.c];
    int peer    = o.peer == -1 ? MPI_ANY_SOURCE : o.peer;
    int tag     = o.tag == -1 ? MPI_ANY_TAG : o.tag;
    MPI_Status st;
    memset(&st, 0, sizeof st);
    st.MPI_ERROR = MPI_SUCCESS;
    const std::string& n = o.name;
    if (n == "send" || n == "ssend" || n == "bsend") {
      unsigned char* b = make_payload(me, k, o.n);
      garbage.push_back(b);
      int rc = n == "send"    ? MPI_Send(b, o.n, MPI_BYTE, o.peer, o.tag, cm)
               : n == "ssend" ? MPI_Ssend(b, o.n, MPI_BYTE, o.peer, o.tag, cm)
                              : MPI_Bsend(b, o.n, MPI_BYTE, o.peer, o.tag, cm);
      res.push_back(send_result(rc));
    } else if (n == "isend" || n == "issend") {
      Slot& s = slots[o.r];
      s.kind  = 1;
      s.n     = o.n;
      s.buf   = make_payload(me, k, o.n);
      garbage.push_back(s.buf);
      int rc = n == "isend" ? MPI_Isend(s.buf, o.n, MPI_BYTE, o.peer, o.tag, cm, &s.req)
                            : MPI_Issend(s.buf, o.n, MPI_BYTE, o.peer, o.tag, cm, &s.req);
      if (rc != MPI_SUCCESS)
        tlog("{\"e\":\"error\",\"a\":%d,\"k\":%d,\"rc\":%d}\n", me, k, rc);
    } else if (n == "recv") {
      unsigned char* b = make_recvbuf(o.n);
      garbage.push_back(b);
      int rc = MPI_Recv(b, o.n, MPI_BYTE, peer, tag, cm, &st);
      res.push_back(recv_result(rc, st, false, b, o.n));
    } else if (n == "irecv") {
      Slot& s = slots[o.r];
      s.kind  = 2;
      s.n     = o.n;
      s.buf   = make_recvbuf(o.n);
      garbage.push_back(s.buf);
      int rc = MPI_Irecv(s.buf, o.n, MPI_BYTE, peer, tag, cm, &s.req);
      if (rc != MPI_SUCCESS)
        tlog("{\"e\":\"error\",\"a\":%d,\"k\":%d,\"rc\":%d}\n", me, k, rc);
    } else if (n == "sendrecv") {
      unsigned char* sb = make_payload(me, k, o.n);
      unsigned char* rb = make_recvbuf(o.n2);
      garbage.push_back(sb);
      garbage.push_back(rb);
      int rc = MPI_Sendrecv(sb, o.n, MPI_BYTE, o.peer, o.tag, rb, o.n2, MPI_BYTE,
                            o.peer2 == -1 ? MPI_ANY_SOURCE : o.peer2, o.tag2 == -1 ? MPI_ANY_TAG : o.tag2, cm, &st);
      res.push_back(recv_result(rc, st, false, rb, o.n2));
    } else if (n == "probe" || n == "iprobe") {
      int flag = 1;
      int rc   = n == "probe" ? MPI_Probe(peer, tag, cm, &st) : MPI_Iprobe(peer, tag, cm, &flag, &st);
      Res r;
      r.flag = flag ? 1 : 0;
      if (flag) {
        r     = recv_result(rc, st, false, nullptr, 0);
        r.mid = -1;
      }
      res.push_back(r);
    } else if (n == "wait" || n == "test") {
      Slot& s  = slots[o.r];
      int flag = 1;
      int kind = s.kind;
      int rc   = n == "wait" ? MPI_Wait(&s.req, &st) : MPI_Test(&s.req, &flag, &st);
      Res r;
      r.flag = flag ? 1 : 0;
      if (flag) {
        if (kind == 2)
          r = recv_result(rc, st, false, s.buf, s.n);
        else if (kind == 1)
          r = send_result(rc);
        else { // inactive request: empty status
          r     = recv_result(rc, st, false, nullptr, 0);
          r.mid = -1;
        }
        s.kind = 0;
      }
      res.push_back(r);
    } else if (n == "waitall") {
      size_t m = o.rs.size();
      std::vector<MPI_Request> reqs(m);
      std::vector<MPI_Status> sts(m);
      for (size_t i = 0; i < m; i++) {
        reqs[i] = slots[o.rs[i]].req;
        memset(&sts[i], 0, sizeof(MPI_Status));
        sts[i].MPI_ERROR = MPI_SUCCESS;
      }
      int rc = MPI_Waitall(static_cast<int>(m), reqs.data(), sts.data());
      for (size_t i = 0; i < m; i++) {
        Slot& s = slots[o.rs[i]];
        Res r;
        if (s.kind == 2)
          r = recv_result(rc, sts[i], true, s.buf, s.n);
        else if (s.kind == 1)
          r = send_result(rc == MPI_ERR_IN_STATUS ? sts[i].MPI_ERROR : rc);
        else {
          r     = recv_result(rc, sts[i], true, nullptr, 0);
          r.mid = -1;
        }
        s.kind = 0;
        s.req  = reqs[i];
        res.push_back(r);
      }
    } else {
      fprintf(stderr, "mpi_p2p: unknown op %s\n", n.c_str());
      _exit(4);
    }
    tlog("{\"e\":\"ret\",\"a\":%d,\"k\":%d,\"res\":%s}\n", me, k, res_json(res).c_str());
  }
  tlog("{\"e\":\"fin\",\"a\":%d}\n", me);
  // no rank leaves before all are done: SMPI aborts when a message is sent to a rank that has already finalized
  // (a send that nobody receives is an erroneous program for MPI_Finalize, not a matter of matching)
  MPI_Barrier(MPI_COMM_WORLD);
  MPI_Finalize();
  // The buffers are deliberately not freed: when a detached zero-byte send was never received, SMPI hands the *user*
  // buffer to its clean-up function (Request::start copies the payload only when size != 0) and frees it at exit.
  return 0;
}
