/* mpi_priv: driver of property C36 (privatisation of global variables).  Run with smpirun -np <n> and
 * --cfg=smpi/privatization:mmap|dlopen.
 *
 * usage: mpi_priv <program.txt> <trace.ndjson>
 * program.txt:  @n <ranks>   then per rank   @rank <r>   followed by statements, one per line:
 *   w <v> <x>                  write x into variable v           r <v>                read variable v
 *   send <v> <dest> <mode>     mode 0 MPI_Send 1 MPI_Ssend 2 MPI_Isend+MPI_Wait       (buffer = the variable itself)
 *   recv <v> <src> <mode>      mode 0 MPI_Recv 1 MPI_Irecv+MPI_Wait
 *   xchg <vs> <dest> <vr> <src> <mode>   mode 0 Irecv+Isend+Waitall, 1 MPI_Sendrecv
 *   coll <kind> <vin> <vout> <root>      kind 0 allreduce(sum) vin->vout, 1 bcast of vin (vout = vin), 2 barrier
 *   sleep <us>                 simulated sleep (a rank switch without MPI)
 *   @end
 * Variables (1-based v): globals and statics of several storage kinds, see var_addr().  Every access and MPI call is
 * logged as one ndjson line appended to <trace.ndjson> (all ranks share the OS process, so the file order is the real
 * execution order).  The driver's own state lives on the stack / heap, never in globals.  Nothing is judged here:
 * spec/mpi/SmpiPrivTrace.tla validates the trace. */
#include <fcntl.h>
#include <mpi.h>
#include <stdarg.h>
#include <stdio.h>
#include <stdlib.h>
#include <string.h>
#include <unistd.h>

/* ---- the variables under test ---- */
int g_init = 7;              /* 1: .data, external linkage */
int g_bss;                   /* 2: .bss */
static int s_init = 11;      /* 3: file static, .data */
static int s_bss;            /* 4: file static, .bss */
int g_arr[64];               /* 6: element 5 of a global array */
static int s_big[40000];     /* 9: last element of a large static array (many pages) */
static int s_big_init[3000] = {1, 2, 3}; /* 10: element 2999 of a large initialised array */
extern int g2_init;          /* 7: other translation unit, .data */
extern int g2_bss;           /* 8: other translation unit, .bss */
int* priv2_hidden(void);     /* 11: static of the other translation unit */

static int* local_static(void)
{
  static int l_static = 13;  /* 5: function-local static */
  return &l_static;
}

#define NVARS 11
static int* var_addr(int v)
{
  switch (v) {
    case 1: return &g_init;
    case 2: return &g_bss;
    case 3: return &s_init;
    case 4: return &s_bss;
    case 5: return local_static();
    case 6: return &g_arr[5];
    case 7: return &g2_init;
    case 8: return &g2_bss;
    case 9: return &s_big[39999];
    case 10: return &s_big_init[2999];
    case 11: return priv2_hidden();
    default: return NULL;
  }
}

typedef struct {
  char op[8];
  int a[5];
} stmt_t;

static void logline(int fd, const char* fmt, ...)
{
  char buf[256];
  va_list ap;
  va_start(ap, fmt);
  int n = vsnprintf(buf, sizeof buf, fmt, ap);
  va_end(ap);
  if (n > 0 && write(fd, buf, (size_t)n) != n)
    _exit(5);
}

int main(int argc, char** argv)
{
  MPI_Init(&argc, &argv);
  int rank, size;
  MPI_Comm_rank(MPI_COMM_WORLD, &rank);
  MPI_Comm_size(MPI_COMM_WORLD, &size);
  if (argc < 3) {
    fprintf(stderr, "usage: mpi_priv program.txt trace.ndjson\n");
    MPI_Abort(MPI_COMM_WORLD, 4);
  }
  FILE* in = fopen(argv[1], "r");
  int fd   = open(argv[2], O_WRONLY | O_APPEND | O_CREAT, 0644);
  if (!in || fd < 0) {
    fprintf(stderr, "mpi_priv: cannot open files\n");
    MPI_Abort(MPI_COMM_WORLD, 4);
  }
  int cap = 256, nst = 0, cur = 0, n = 0;
  stmt_t* prog = (stmt_t*)calloc(cap, sizeof(stmt_t));
  char tok[32];
  while (fscanf(in, "%31s", tok) == 1) {
    if (!strcmp(tok, "@n"))
      fscanf(in, "%d", &n);
    else if (!strcmp(tok, "@rank"))
      fscanf(in, "%d", &cur);
    else if (!strcmp(tok, "@end"))
      break;
    else {
      stmt_t s;
      memset(&s, 0, sizeof s);
      strncpy(s.op, tok, sizeof s.op - 1);
      int na = !strcmp(tok, "w") ? 2 : !strcmp(tok, "r") ? 1 : !strcmp(tok, "send") ? 3 : !strcmp(tok, "recv") ? 3
               : !strcmp(tok, "xchg") ? 5 : !strcmp(tok, "coll") ? 4 : !strcmp(tok, "sleep") ? 1 : -1;
      if (na < 0) {
        fprintf(stderr, "mpi_priv: unknown statement %s\n", tok);
        MPI_Abort(MPI_COMM_WORLD, 4);
      }
      for (int i = 0; i < na; i++)
        fscanf(in, "%d", &s.a[i]);
      if (cur == rank + 1) {
        if (nst == cap) {
          cap *= 2;
          prog = (stmt_t*)realloc(prog, cap * sizeof(stmt_t));
        }
        prog[nst++] = s;
      }
    }
  }
  fclose(in);
  if (n != size)
    MPI_Abort(MPI_COMM_WORLD, 4);
  int me = rank + 1;
  MPI_Barrier(MPI_COMM_WORLD);

  for (int k = 0; k < nst; k++) {
    stmt_t* s = &prog[k];
    if (!strcmp(s->op, "w")) {
      *var_addr(s->a[0]) = s->a[1];
      logline(fd, "{\"e\":\"w\",\"r\":%d,\"v\":%d,\"x\":%d}\n", me, s->a[0], s->a[1]);
    } else if (!strcmp(s->op, "r")) {
      logline(fd, "{\"e\":\"r\",\"r\":%d,\"v\":%d,\"x\":%d}\n", me, s->a[0], *var_addr(s->a[0]));
    } else if (!strcmp(s->op, "send")) {
      int* p = var_addr(s->a[0]);
      logline(fd, "{\"e\":\"send\",\"r\":%d,\"v\":%d,\"p\":%d,\"x\":%d}\n", me, s->a[0], s->a[1], *p);
      if (s->a[2] == 0)
        MPI_Send(p, 1, MPI_INT, s->a[1] - 1, 0, MPI_COMM_WORLD);
      else if (s->a[2] == 1)
        MPI_Ssend(p, 1, MPI_INT, s->a[1] - 1, 0, MPI_COMM_WORLD);
      else {
        MPI_Request rq;
        MPI_Isend(p, 1, MPI_INT, s->a[1] - 1, 0, MPI_COMM_WORLD, &rq);
        MPI_Wait(&rq, MPI_STATUS_IGNORE);
      }
    } else if (!strcmp(s->op, "recv")) {
      int* p = var_addr(s->a[0]);
      if (s->a[2] == 0)
        MPI_Recv(p, 1, MPI_INT, s->a[1] - 1, 0, MPI_COMM_WORLD, MPI_STATUS_IGNORE);
      else {
        MPI_Request rq;
        MPI_Irecv(p, 1, MPI_INT, s->a[1] - 1, 0, MPI_COMM_WORLD, &rq);
        MPI_Wait(&rq, MPI_STATUS_IGNORE);
      }
      logline(fd, "{\"e\":\"recv\",\"r\":%d,\"v\":%d,\"p\":%d,\"x\":%d}\n", me, s->a[0], s->a[1], *var_addr(s->a[0]));
    } else if (!strcmp(s->op, "xchg")) {
      int* ps = var_addr(s->a[0]);
      int* pr = var_addr(s->a[2]);
      logline(fd, "{\"e\":\"send\",\"r\":%d,\"v\":%d,\"p\":%d,\"x\":%d}\n", me, s->a[0], s->a[1], *ps);
      if (s->a[4] == 0) {
        MPI_Request rq[2];
        MPI_Irecv(pr, 1, MPI_INT, s->a[3] - 1, 0, MPI_COMM_WORLD, &rq[0]);
        MPI_Isend(ps, 1, MPI_INT, s->a[1] - 1, 0, MPI_COMM_WORLD, &rq[1]);
        MPI_Waitall(2, rq, MPI_STATUSES_IGNORE);
      } else
        MPI_Sendrecv(ps, 1, MPI_INT, s->a[1] - 1, 0, pr, 1, MPI_INT, s->a[3] - 1, 0, MPI_COMM_WORLD, MPI_STATUS_IGNORE);
      logline(fd, "{\"e\":\"recv\",\"r\":%d,\"v\":%d,\"p\":%d,\"x\":%d}\n", me, s->a[2], s->a[3], *var_addr(s->a[2]));
    } else if (!strcmp(s->op, "coll")) {
      static const char* kinds[] = {"allreduce", "bcast", "barrier"};
      int kind = s->a[0];
      int* pi  = kind == 2 ? NULL : var_addr(s->a[1]);
      int* po  = kind == 2 ? NULL : var_addr(s->a[2]);
      logline(fd, "{\"e\":\"cin\",\"r\":%d,\"k\":\"%s\",\"v\":%d,\"x\":%d}\n", me, kinds[kind], s->a[1], pi ? *pi : 0);
      if (kind == 0)
        MPI_Allreduce(pi, po, 1, MPI_INT, MPI_SUM, MPI_COMM_WORLD);
      else if (kind == 1)
        MPI_Bcast(pi, 1, MPI_INT, s->a[3] - 1, MPI_COMM_WORLD);
      else
        MPI_Barrier(MPI_COMM_WORLD);
      logline(fd, "{\"e\":\"cout\",\"r\":%d,\"k\":\"%s\",\"v\":%d,\"x\":%d}\n", me, kinds[kind], s->a[1],
              po ? *var_addr(s->a[2]) : 0);
    } else if (!strcmp(s->op, "sleep")) {
      usleep(s->a[0]);
      logline(fd, "{\"e\":\"nop\",\"r\":%d}\n", me);
    }
  }
  logline(fd, "{\"e\":\"fin\",\"r\":%d}\n", me);
  MPI_Barrier(MPI_COMM_WORLD);
  if (rank == 0)
    logline(fd, "{\"e\":\"end\"}\n");
  MPI_Finalize();
  close(fd);
  free(prog);
  return 0;
}
