/* second translation unit of the C36 driver: globals that live in another object file */
int g2_init      = 21;
int g2_bss;
static int s2_hidden = 23;
int* priv2_hidden(void)
{
  return &s2_hidden;
}
