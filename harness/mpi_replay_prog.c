/* mpi_replay_prog: interpreter of MPI programs restricted to the calls the SMPI trace replayer knows (property C37).
 * Run online with   smpirun -trace-ti -trace-file <f> --cfg=smpi/simulate-computation:no ... mpi_replay_prog prog.txt
 * After every MPI call the rank prints   D <rank> <TI action name> <simulated date %.12f>   (simgrid_get_clock(): MPI_Wtime
 * would inject smpi/wtime into the simulation).  The TI trace written by that run is then replayed by the stock
 * replayer (smpirun -replay), whose per-action log gives the same lines for the replay; spec/mpi/MpiReplay.tla compares.
 *
 * prog.txt:  @n <ranks>  then per rank  @rank <r>  and one statement per line (ranks and roots are 0-based):
 *   send d tag count dt | isend d tag count dt | recv s tag count dt | irecv s tag count dt
 *   wait idx | test idx        idx = index of the request among those this rank created (isend/irecv), in order
 *   waitall                    all pending requests
 *   sendrecv d scount s rcount dt
 *   barrier | bcast count root dt | reduce count root dt | allreduce count dt | scan count dt | exscan count dt
 *   alltoall count dt | gather count root dt | scatter count root dt | allgather count dt
 *   alltoallv n sc.. rc.. dt | gatherv root n rc.. dt | scatterv root n sc.. dt | allgatherv n rc.. dt
 *   reducescatter n rc.. dt
 *   @end
 * dt: 0 MPI_CHAR 1 MPI_INT 2 MPI_DOUBLE */
#include <mpi.h>
#include <simgrid/engine.h>
#include <stdio.h>
#include <stdlib.h>
#include <string.h>

#define MAXR 16
typedef struct {
  char op[16];
  int a[4 + 2 * MAXR];
  int na;
} stmt_t;

static MPI_Datatype dt_of(int d)
{
  return d == 1 ? MPI_INT : d == 2 ? MPI_DOUBLE : MPI_CHAR;
}

static void stamp(int rank, const char* name)
{
  printf("D %d %s %.12f\n", rank, name, simgrid_get_clock());
}

int main(int argc, char** argv)
{
  MPI_Init(&argc, &argv);
  int rank, size;
  MPI_Comm_rank(MPI_COMM_WORLD, &rank);
  MPI_Comm_size(MPI_COMM_WORLD, &size);
  if (argc < 2) {
    fprintf(stderr, "usage: mpi_replay_prog prog.txt\n");
    MPI_Abort(MPI_COMM_WORLD, 4);
  }
  FILE* in = fopen(argv[1], "r");
  if (!in)
    MPI_Abort(MPI_COMM_WORLD, 4);
  int cap = 256, nst = 0, cur = -1, n = 0;
  stmt_t* prog = (stmt_t*)calloc(cap, sizeof(stmt_t));
  char line[1024];
  while (fgets(line, sizeof line, in)) {
    char* tok = strtok(line, " \t\n");
    if (!tok)
      continue;
    if (!strcmp(tok, "@n"))
      n = atoi(strtok(NULL, " \t\n"));
    else if (!strcmp(tok, "@rank"))
      cur = atoi(strtok(NULL, " \t\n"));
    else if (!strcmp(tok, "@end"))
      break;
    else if (cur == rank) {
      if (nst == cap) {
        cap *= 2;
        prog = (stmt_t*)realloc(prog, cap * sizeof(stmt_t));
      }
      stmt_t* s = &prog[nst++];
      memset(s, 0, sizeof *s);
      strncpy(s->op, tok, sizeof s->op - 1);
      char* t;
      while ((t = strtok(NULL, " \t\n")) && s->na < 4 + 2 * MAXR)
        s->a[s->na++] = atoi(t);
    }
  }
  fclose(in);
  if (n != size || size > MAXR)
    MPI_Abort(MPI_COMM_WORLD, 4);

  size_t bufsz = 32u << 20;
  char* sbuf   = (char*)calloc(bufsz, 1);
  char* rbuf   = (char*)calloc(bufsz, 1);
  MPI_Request* reqs = (MPI_Request*)calloc(nst + 1, sizeof(MPI_Request));
  int nreq = 0;
  int disp_s[MAXR], disp_r[MAXR];

  for (int k = 0; k < nst; k++) {
    stmt_t* s   = &prog[k];
    const int* a = s->a;
    const char* o = s->op;
    if (!strcmp(o, "send")) {
      MPI_Send(sbuf, a[2], dt_of(a[3]), a[0], a[1], MPI_COMM_WORLD);
      stamp(rank, "send");
    } else if (!strcmp(o, "isend")) {
      MPI_Isend(sbuf, a[2], dt_of(a[3]), a[0], a[1], MPI_COMM_WORLD, &reqs[nreq++]);
      stamp(rank, "isend");
    } else if (!strcmp(o, "recv")) {
      MPI_Recv(rbuf, a[2], dt_of(a[3]), a[0], a[1], MPI_COMM_WORLD, MPI_STATUS_IGNORE);
      stamp(rank, "recv");
    } else if (!strcmp(o, "irecv")) {
      MPI_Irecv(rbuf, a[2], dt_of(a[3]), a[0], a[1], MPI_COMM_WORLD, &reqs[nreq++]);
      stamp(rank, "irecv");
    } else if (!strcmp(o, "wait")) {
      if (a[0] < nreq && reqs[a[0]] != MPI_REQUEST_NULL) {
        MPI_Wait(&reqs[a[0]], MPI_STATUS_IGNORE);
        stamp(rank, "wait");
      }
    } else if (!strcmp(o, "test")) {
      if (a[0] < nreq && reqs[a[0]] != MPI_REQUEST_NULL) {
        int flag;
        MPI_Test(&reqs[a[0]], &flag, MPI_STATUS_IGNORE);
        stamp(rank, "test");
      }
    } else if (!strcmp(o, "waitall")) {
      MPI_Request* pend = (MPI_Request*)calloc(nreq + 1, sizeof(MPI_Request));
      int np = 0;
      for (int i = 0; i < nreq; i++)
        if (reqs[i] != MPI_REQUEST_NULL) {
          pend[np++] = reqs[i];
          reqs[i]    = MPI_REQUEST_NULL;
        }
      if (np > 0) {
        MPI_Waitall(np, pend, MPI_STATUSES_IGNORE);
        stamp(rank, "waitall");
      }
      free(pend);
    } else if (!strcmp(o, "sendrecv")) {
      MPI_Sendrecv(sbuf, a[1], dt_of(a[4]), a[0], 0, rbuf, a[3], dt_of(a[4]), a[2], 0, MPI_COMM_WORLD, MPI_STATUS_IGNORE);
      stamp(rank, "sendrecv");
    } else if (!strcmp(o, "barrier")) {
      MPI_Barrier(MPI_COMM_WORLD);
      stamp(rank, "barrier");
    } else if (!strcmp(o, "bcast")) {
      MPI_Bcast(sbuf, a[0], dt_of(a[2]), a[1], MPI_COMM_WORLD);
      stamp(rank, "bcast");
    } else if (!strcmp(o, "reduce")) {
      MPI_Reduce(sbuf, rbuf, a[0], dt_of(a[2]), MPI_SUM, a[1], MPI_COMM_WORLD);
      stamp(rank, "reduce");
    } else if (!strcmp(o, "allreduce")) {
      MPI_Allreduce(sbuf, rbuf, a[0], dt_of(a[1]), MPI_SUM, MPI_COMM_WORLD);
      stamp(rank, "allreduce");
    } else if (!strcmp(o, "scan")) {
      MPI_Scan(sbuf, rbuf, a[0], dt_of(a[1]), MPI_SUM, MPI_COMM_WORLD);
      stamp(rank, "scan");
    } else if (!strcmp(o, "exscan")) {
      MPI_Exscan(sbuf, rbuf, a[0], dt_of(a[1]), MPI_SUM, MPI_COMM_WORLD);
      stamp(rank, "exscan");
    } else if (!strcmp(o, "alltoall")) {
      MPI_Alltoall(sbuf, a[0], dt_of(a[1]), rbuf, a[0], dt_of(a[1]), MPI_COMM_WORLD);
      stamp(rank, "alltoall");
    } else if (!strcmp(o, "gather")) {
      MPI_Gather(sbuf, a[0], dt_of(a[2]), rbuf, a[0], dt_of(a[2]), a[1], MPI_COMM_WORLD);
      stamp(rank, "gather");
    } else if (!strcmp(o, "scatter")) {
      MPI_Scatter(sbuf, a[0], dt_of(a[2]), rbuf, a[0], dt_of(a[2]), a[1], MPI_COMM_WORLD);
      stamp(rank, "scatter");
    } else if (!strcmp(o, "allgather")) {
      MPI_Allgather(sbuf, a[0], dt_of(a[1]), rbuf, a[0], dt_of(a[1]), MPI_COMM_WORLD);
      stamp(rank, "allgather");
    } else if (!strcmp(o, "alltoallv")) {
      int m          = a[0];
      const int* sc  = a + 1;
      const int* rc  = a + 1 + m;
      int dt         = a[1 + 2 * m];
      disp_s[0] = disp_r[0] = 0;
      for (int i = 1; i < m; i++) {
        disp_s[i] = disp_s[i - 1] + sc[i - 1];
        disp_r[i] = disp_r[i - 1] + rc[i - 1];
      }
      MPI_Alltoallv(sbuf, sc, disp_s, dt_of(dt), rbuf, rc, disp_r, dt_of(dt), MPI_COMM_WORLD);
      stamp(rank, "alltoallv");
    } else if (!strcmp(o, "gatherv")) {
      int root = a[0], m = a[1];
      const int* rc = a + 2;
      int dt        = a[2 + m];
      disp_r[0]     = 0;
      for (int i = 1; i < m; i++)
        disp_r[i] = disp_r[i - 1] + rc[i - 1];
      MPI_Gatherv(sbuf, rc[rank], dt_of(dt), rbuf, rc, disp_r, dt_of(dt), root, MPI_COMM_WORLD);
      stamp(rank, "gatherv");
    } else if (!strcmp(o, "scatterv")) {
      int root = a[0], m = a[1];
      const int* sc = a + 2;
      int dt        = a[2 + m];
      disp_s[0]     = 0;
      for (int i = 1; i < m; i++)
        disp_s[i] = disp_s[i - 1] + sc[i - 1];
      MPI_Scatterv(sbuf, sc, disp_s, dt_of(dt), rbuf, sc[rank], dt_of(dt), root, MPI_COMM_WORLD);
      stamp(rank, "scatterv");
    } else if (!strcmp(o, "allgatherv")) {
      int m         = a[0];
      const int* rc = a + 1;
      int dt        = a[1 + m];
      disp_r[0]     = 0;
      for (int i = 1; i < m; i++)
        disp_r[i] = disp_r[i - 1] + rc[i - 1];
      MPI_Allgatherv(sbuf, rc[rank], dt_of(dt), rbuf, rc, disp_r, dt_of(dt), MPI_COMM_WORLD);
      stamp(rank, "allgatherv");
    } else if (!strcmp(o, "reducescatter")) {
      int m         = a[0];
      const int* rc = a + 1;
      int dt        = a[1 + m];
      MPI_Reduce_scatter(sbuf, rbuf, rc, dt_of(dt), MPI_SUM, MPI_COMM_WORLD);
      stamp(rank, "reducescatter");
    } else {
      fprintf(stderr, "mpi_replay_prog: unknown statement %s\n", o);
      MPI_Abort(MPI_COMM_WORLD, 4);
    }
  }
  printf("E %d\n", rank);
  fflush(stdout);
  MPI_Finalize();
  free(sbuf);
  free(rbuf);
  free(reqs);
  free(prog);
  return 0;
}
