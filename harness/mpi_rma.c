/* mpi_rma: interpreter of RMA programs (property C34).  Run with smpirun -np <n>.
 *
 * usage: mpi_rma <program.txt>
 * program.txt (written by checks/C34.py from the same JSON program that TLC explores with spec/mpi/MpiRma.tla):
 *   @n <ranks> @w <cells>
 *   @init <rank> v1 .. vw                 initial window memory of a rank (1-based rank)
 *   @rank <rank>                          the statements of that rank follow, one per line:
 *   <op> <t> <d> <n> <f> <delay_us> <nv> v.. <nc> c..
 *        op: fence barrier lock unlock lockall unlockall flush flushall put get acc gacc fop cas
 *        t: target rank (1-based, 0 if none)   d: displacement   n: cells   f: operator code (see OPS)
 *        delay_us: simulated sleep before the statement (perturbs the schedule, no meaning in the specification)
 *   @end
 * Output (stdout), after all epochs are closed and a barrier:
 *   FET <rank> <k> v..      values fetched by statement k (get, gacc, fop, cas) of that rank
 *   MEM <rank> v1 .. vw     final window memory
 *   END <rank>
 * Nothing is judged here. */
#include <mpi.h>
#include <stdio.h>
#include <stdlib.h>
#include <string.h>
#include <unistd.h>

#define MAXST 64
#define MAXN 8

typedef struct {
  char op[12];
  int t, d, n, f, delay, nv, nc;
  int v[MAXN], c[MAXN];
  int res[MAXN];
  int fetched;
} stmt_t;

static MPI_Op op_of(int f)
{
  switch (f) {
    case 1: return MPI_SUM;
    case 2: return MPI_PROD;
    case 3: return MPI_MAX;
    case 4: return MPI_MIN;
    case 5: return MPI_BAND;
    case 6: return MPI_BOR;
    case 7: return MPI_BXOR;
    case 8: return MPI_REPLACE;
    case 9: return MPI_NO_OP;
    default: return MPI_OP_NULL;
  }
}

int main(int argc, char** argv)
{
  MPI_Init(&argc, &argv);
  int rank, size;
  MPI_Comm_rank(MPI_COMM_WORLD, &rank);
  MPI_Comm_size(MPI_COMM_WORLD, &size);
  if (argc < 2) {
    fprintf(stderr, "usage: mpi_rma program.txt\n");
    MPI_Abort(MPI_COMM_WORLD, 4);
  }
  FILE* in = fopen(argv[1], "r");
  if (!in) {
    fprintf(stderr, "mpi_rma: cannot read %s\n", argv[1]);
    MPI_Abort(MPI_COMM_WORLD, 4);
  }
  int n = 0, w = 0, cur = 0, nst = 0;
  int* mem      = NULL;
  stmt_t* prog  = (stmt_t*)calloc(MAXST, sizeof(stmt_t));
  char tok[64];
  while (fscanf(in, "%63s", tok) == 1) {
    if (!strcmp(tok, "@n"))
      fscanf(in, "%d", &n);
    else if (!strcmp(tok, "@w")) {
      fscanf(in, "%d", &w);
      mem = (int*)calloc(w > 0 ? w : 1, sizeof(int));
    } else if (!strcmp(tok, "@init")) {
      int r;
      fscanf(in, "%d", &r);
      for (int i = 0; i < w; i++) {
        int x;
        fscanf(in, "%d", &x);
        if (r == rank + 1)
          mem[i] = x;
      }
    } else if (!strcmp(tok, "@rank"))
      fscanf(in, "%d", &cur);
    else if (!strcmp(tok, "@end"))
      break;
    else {
      stmt_t s;
      memset(&s, 0, sizeof s);
      strncpy(s.op, tok, sizeof s.op - 1);
      fscanf(in, "%d %d %d %d %d %d", &s.t, &s.d, &s.n, &s.f, &s.delay, &s.nv);
      for (int i = 0; i < s.nv && i < MAXN; i++)
        fscanf(in, "%d", &s.v[i]);
      fscanf(in, "%d", &s.nc);
      for (int i = 0; i < s.nc && i < MAXN; i++)
        fscanf(in, "%d", &s.c[i]);
      if (cur == rank + 1 && nst < MAXST)
        prog[nst++] = s;
    }
  }
  fclose(in);
  if (n != size) {
    fprintf(stderr, "mpi_rma: program for %d ranks run with %d\n", n, size);
    MPI_Abort(MPI_COMM_WORLD, 4);
  }

  MPI_Win win;
  MPI_Win_create(mem, (MPI_Aint)(w * sizeof(int)), sizeof(int), MPI_INFO_NULL, MPI_COMM_WORLD, &win);
  MPI_Barrier(MPI_COMM_WORLD);

  for (int k = 0; k < nst; k++) {
    stmt_t* s = &prog[k];
    int t     = s->t - 1;
    if (s->delay > 0)
      usleep(s->delay);
    int rc = MPI_SUCCESS;
    if (!strcmp(s->op, "fence"))
      rc = MPI_Win_fence(0, win);
    else if (!strcmp(s->op, "barrier"))
      rc = MPI_Barrier(MPI_COMM_WORLD);
    else if (!strcmp(s->op, "lock"))
      rc = MPI_Win_lock(MPI_LOCK_EXCLUSIVE, t, 0, win);
    else if (!strcmp(s->op, "unlock"))
      rc = MPI_Win_unlock(t, win);
    else if (!strcmp(s->op, "lockall"))
      rc = MPI_Win_lock_all(0, win);
    else if (!strcmp(s->op, "unlockall"))
      rc = MPI_Win_unlock_all(win);
    else if (!strcmp(s->op, "flush"))
      rc = MPI_Win_flush(t, win);
    else if (!strcmp(s->op, "flushall"))
      rc = MPI_Win_flush_all(win);
    else if (!strcmp(s->op, "put"))
      rc = MPI_Put(s->v, s->n, MPI_INT, t, s->d, s->n, MPI_INT, win);
    else if (!strcmp(s->op, "get")) {
      rc         = MPI_Get(s->res, s->n, MPI_INT, t, s->d, s->n, MPI_INT, win);
      s->fetched = 1;
    } else if (!strcmp(s->op, "acc"))
      rc = MPI_Accumulate(s->v, s->n, MPI_INT, t, s->d, s->n, MPI_INT, op_of(s->f), win);
    else if (!strcmp(s->op, "gacc")) {
      rc         = MPI_Get_accumulate(s->v, s->n, MPI_INT, s->res, s->n, MPI_INT, t, s->d, s->n, MPI_INT, op_of(s->f), win);
      s->fetched = 1;
    } else if (!strcmp(s->op, "fop")) {
      rc         = MPI_Fetch_and_op(s->v, s->res, MPI_INT, t, s->d, op_of(s->f), win);
      s->fetched = 1;
    } else if (!strcmp(s->op, "cas")) {
      rc         = MPI_Compare_and_swap(s->v, s->c, s->res, MPI_INT, t, s->d, win);
      s->fetched = 1;
    } else {
      fprintf(stderr, "mpi_rma: unknown op %s\n", s->op);
      MPI_Abort(MPI_COMM_WORLD, 4);
    }
    if (rc != MPI_SUCCESS)
      printf("ERR %d %d %s %d\n", rank + 1, k + 1, s->op, rc);
  }
  MPI_Barrier(MPI_COMM_WORLD);
  for (int k = 0; k < nst; k++)
    if (prog[k].fetched) {
      printf("FET %d %d", rank + 1, k + 1);
      for (int i = 0; i < prog[k].n; i++)
        printf(" %d", prog[k].res[i]);
      printf("\n");
    }
  printf("MEM %d", rank + 1);
  for (int i = 0; i < w; i++)
    printf(" %d", mem[i]);
  printf("\nEND %d\n", rank + 1);
  fflush(stdout);
  MPI_Win_free(&win);
  MPI_Finalize();
  free(mem);
  free(prog);
  return 0;
}
