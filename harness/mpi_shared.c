/* mpi_shared: driver of property C35 (partially shared buffers).  Run with smpirun -np 2.
 *
 * usage: mpi_shared <cases.txt>
 * cases.txt: one case per line:   id  ssize snb (b e)*snb   rsize rnb (b e)*rnb   so ro n mode
 *   the sender (rank 0) allocates ssize bytes with SMPI_PARTIAL_SHARED_MALLOC and the snb shared blocks [b,e)
 *   (snb = 0: plain malloc), the receiver (rank 1) likewise; a message of n bytes goes from sender+so to receiver+ro.
 *   mode % 3: 0 MPI_Send/MPI_Recv, 1 MPI_Isend+MPI_Wait / MPI_Irecv+MPI_Wait, 2 MPI_Ssend/MPI_Recv
 *   (mode / 3) % 3: 0 nobody waits, 1 the receiver posts late (simulated sleep), 2 the sender posts late
 * Sender bytes are 0x80 | f(id, position) (all >= 128), receiver bytes start as g(id, position) (all < 128), so "this
 * message byte arrived" is unambiguous.  The receiver prints, per case:   RES id  b e  b e ...   = the maximal
 * intervals [b,e) of message-relative positions whose byte arrived.  Nothing is judged here: the expected set comes
 * from TLC (spec/mpi/SmpiShared.tla), the comparison is made by checks/C35.py. */
#include <mpi.h>
#include <stdint.h>
#include <stdio.h>
#include <stdlib.h>
#include <string.h>
#include <unistd.h>

#define MAXB 64

static uint8_t sval(long id, size_t p)
{
  return (uint8_t)(0x80 | ((p * 37 + (size_t)id * 11 + (p >> 7)) & 0x7f));
}
static uint8_t rval(long id, size_t p)
{
  return (uint8_t)((p * 13 + (size_t)id * 7 + 5) & 0x7f);
}

static uint8_t* alloc_layout(size_t size, int nb, const size_t* blocks)
{
  if (nb == 0)
    return (uint8_t*)malloc(size);
  return (uint8_t*)SMPI_PARTIAL_SHARED_MALLOC(size, blocks, nb);
}
static void free_layout(uint8_t* p, int nb)
{
  if (nb == 0)
    free(p);
  else
    SMPI_SHARED_FREE(p);
}

int main(int argc, char** argv)
{
  MPI_Init(&argc, &argv);
  int rank;
  MPI_Comm_rank(MPI_COMM_WORLD, &rank);
  if (argc < 2) {
    fprintf(stderr, "usage: mpi_shared cases.txt\n");
    MPI_Abort(MPI_COMM_WORLD, 4);
  }
  FILE* in = fopen(argv[1], "r");
  if (!in) {
    fprintf(stderr, "mpi_shared: cannot read %s\n", argv[1]);
    MPI_Abort(MPI_COMM_WORLD, 4);
  }
  long id;
  long ncases = 0;
  while (fscanf(in, "%ld", &id) == 1) {
    size_t ssize, rsize, so, ro, n;
    int snb, rnb, mode;
    size_t sb[2 * MAXB], rb[2 * MAXB];
    if (fscanf(in, "%zu %d", &ssize, &snb) != 2 || snb > MAXB)
      break;
    for (int i = 0; i < 2 * snb; i++)
      if (fscanf(in, "%zu", &sb[i]) != 1)
        MPI_Abort(MPI_COMM_WORLD, 4);
    if (fscanf(in, "%zu %d", &rsize, &rnb) != 2 || rnb > MAXB)
      break;
    for (int i = 0; i < 2 * rnb; i++)
      if (fscanf(in, "%zu", &rb[i]) != 1)
        MPI_Abort(MPI_COMM_WORLD, 4);
    if (fscanf(in, "%zu %zu %zu %d", &so, &ro, &n, &mode) != 4)
      break;
    int kind  = mode % 3;
    int delay = (mode / 3) % 3;
    int tag   = (int)(id % 30000);
    if (rank == 0) {
      uint8_t* buf = alloc_layout(ssize, snb, sb);
      for (size_t p = 0; p < ssize; p++)
        buf[p] = sval(id, p);
      if (delay == 2)
        usleep(2000);
      if (kind == 0)
        MPI_Send(buf + so, (int)n, MPI_BYTE, 1, tag, MPI_COMM_WORLD);
      else if (kind == 1) {
        MPI_Request rq;
        MPI_Isend(buf + so, (int)n, MPI_BYTE, 1, tag, MPI_COMM_WORLD, &rq);
        MPI_Wait(&rq, MPI_STATUS_IGNORE);
      } else
        MPI_Ssend(buf + so, (int)n, MPI_BYTE, 1, tag, MPI_COMM_WORLD);
      free_layout(buf, snb);
    } else if (rank == 1) {
      uint8_t* buf = alloc_layout(rsize, rnb, rb);
      for (size_t p = 0; p < rsize; p++)
        buf[p] = rval(id, p);
      if (delay == 1)
        usleep(2000);
      if (kind == 1) {
        MPI_Request rq;
        MPI_Irecv(buf + ro, (int)n, MPI_BYTE, 0, tag, MPI_COMM_WORLD, &rq);
        MPI_Wait(&rq, MPI_STATUS_IGNORE);
      } else
        MPI_Recv(buf + ro, (int)n, MPI_BYTE, 0, tag, MPI_COMM_WORLD, MPI_STATUS_IGNORE);
      printf("RES %ld", id);
      size_t i = 0;
      while (i < n) {
        if (buf[ro + i] == sval(id, so + i)) {
          size_t j = i;
          while (j < n && buf[ro + j] == sval(id, so + j))
            j++;
          printf(" %zu %zu", i, j);
          i = j;
        } else
          i++;
      }
      printf("\n");
      free_layout(buf, rnb);
    }
    ncases++;
    if (ncases % 64 == 0) {
      MPI_Barrier(MPI_COMM_WORLD);
      if (rank == 1)
        fflush(stdout);
    }
  }
  fclose(in);
  MPI_Barrier(MPI_COMM_WORLD);
  if (rank == 1) {
    printf("END %ld\n", ncases);
    fflush(stdout);
  }
  MPI_Finalize();
  return 0;
}
