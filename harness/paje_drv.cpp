/* paje_drv: S4U scenario interpreter whose only purpose is to make the tracing subsystem (src/instr) write Paje traces
 * covering its event kinds: platform containers, actors created at start and dynamically, sleeps, (categorized)
 * executions and communications, detached sends, timeouts, suspend / resume, migration, kills, VMs, user variables on
 * hosts and links, marks, user host states.  The trace file is selected with --cfg=tracing/filename:...
 *
 * usage: paje_drv <scenario.txt> [--cfg=tracing:yes ...]
 * scenario:
 *   PLATFORM file.xml | CAT name | HVAR name | LVAR name | MARK type value | HSTATE state value
 *   ACTOR name hostidx start_date   followed by one op per line, closed by END
 *   ops: sleep d | exec flops cat | pexec flops bytes | send mbox bytes cat | dsend mbox bytes | recv mbox |
 *        sendt mbox bytes timeout | recvt mbox timeout | migrate hostidx | rmigrate actor hostidx | suspend actor | resume actor | fresume actor | kill actor |
 *        hvar set|add|sub var value | lvar set|add|sub linkidx var value | mark type value |
 *        hstate push|pop|set state value | vm create|start|suspend|resume|destroy name hostidx | yield
 */
#include <simgrid/Exception.hpp>
#include <simgrid/instr.h>
#include <simgrid/s4u.hpp>
#include <simgrid/s4u/VirtualMachine.hpp>

#include <cstdio>
#include <fstream>
#include <map>
#include <set>
#include <sstream>
#include <string>
#include <vector>

namespace sg4 = simgrid::s4u;

struct Op {
  std::vector<std::string> w;
};
struct ActorSpec {
  std::string name;
  int host;
  double start;
  std::vector<Op> ops;
};

static std::vector<ActorSpec> actors;
static std::map<std::string, sg4::ActorPtr> by_name;
static std::map<std::string, sg4::VirtualMachine*> vms;
static std::vector<sg4::Host*> hosts;
static std::vector<sg4::Link*> links;

static sg4::Host* host_of(const std::string& s)
{
  return hosts[std::stoul(s) % hosts.size()];
}

static void run_ops(const ActorSpec& spec)
{
  static char payload[8];
  std::set<std::string> suspended_by_me;
  for (auto const& op : spec.ops) {
    auto const& w = op.w;
    try {
      if (w[0] == "sleep")
        sg4::this_actor::sleep_for(std::stod(w[1]));
      else if (w[0] == "exec") {
        auto ex = sg4::this_actor::exec_init(std::stod(w[1]));
        if (w.size() > 2 && w[2] != "-")
          ex->set_tracing_category(w[2]);
        ex->wait();
      } else if (w[0] == "pexec") {
        std::vector<sg4::Host*> hs = {hosts[0], hosts[hosts.size() - 1]};
        sg4::this_actor::parallel_execute(hs, {std::stod(w[1]), std::stod(w[1])},
                                          {0, std::stod(w[2]), std::stod(w[2]), 0});
      } else if (w[0] == "send") {
        auto c = sg4::Mailbox::by_name(w[1])->put_init(payload, std::stoull(w[2]));
        if (w.size() > 3 && w[3] != "-")
          c->set_tracing_category(w[3]);
        c->wait();
      } else if (w[0] == "dsend")
        sg4::Mailbox::by_name(w[1])->put_init(payload, std::stoull(w[2]))->detach();
      else if (w[0] == "recv")
        sg4::Mailbox::by_name(w[1])->get<char>();
      else if (w[0] == "sendt")
        sg4::Mailbox::by_name(w[1])->put(payload, std::stoull(w[2]), std::stod(w[3]));
      else if (w[0] == "recvt")
        sg4::Mailbox::by_name(w[1])->get<char>(std::stod(w[2]));
      else if (w[0] == "migrate")
        sg4::this_actor::set_host(host_of(w[1]));
      else if (w[0] == "rmigrate") { // migrate another actor, whatever it is doing
        auto it = by_name.find(w[1]);
        if (it != by_name.end())
          it->second->set_host(host_of(w[2]));
      } else if (w[0] == "suspend" || w[0] == "resume" || w[0] == "fresume" || w[0] == "kill") {
        // "resume" only undoes a "suspend" of this actor that found its target; "fresume" resumes unconditionally
        auto it = by_name.find(w[1]);
        if (w[0] == "suspend")
          suspended_by_me.erase(w[1]);
        if (it != by_name.end()) {
          if (w[0] == "suspend") {
            it->second->suspend();
            suspended_by_me.insert(w[1]);
          } else if (w[0] == "fresume" || (w[0] == "resume" && suspended_by_me.count(w[1]))) {
            suspended_by_me.erase(w[1]);
            it->second->resume();
          } else if (w[0] == "kill")
            it->second->kill();
        }
      } else if (w[0] == "hvar") {
        auto h = sg4::this_actor::get_host()->get_name();
        if (w[1] == "set")
          simgrid::instr::set_host_variable(h, w[2], std::stod(w[3]));
        else if (w[1] == "add")
          simgrid::instr::add_host_variable(h, w[2], std::stod(w[3]));
        else
          simgrid::instr::sub_host_variable(h, w[2], std::stod(w[3]));
      } else if (w[0] == "lvar") {
        auto l = links[std::stoul(w[2]) % links.size()]->get_name();
        if (w[1] == "set")
          simgrid::instr::set_link_variable(l, w[3], std::stod(w[4]));
        else if (w[1] == "add")
          simgrid::instr::add_link_variable(l, w[3], std::stod(w[4]));
        else
          simgrid::instr::sub_link_variable(l, w[3], std::stod(w[4]));
      } else if (w[0] == "mark")
        simgrid::instr::mark(w[1], w[2]);
      else if (w[0] == "hstate") {
        // on the host where the actor was created (not where it may have migrated to): a push and its pop must
        // address the same container
        auto h = hosts[spec.host % hosts.size()]->get_name();
        if (w[1] == "push")
          TRACE_host_push_state(h.c_str(), w[2].c_str(), w[3].c_str());
        else if (w[1] == "pop")
          TRACE_host_pop_state(h.c_str(), w[2].c_str());
        else
          TRACE_host_set_state(h.c_str(), w[2].c_str(), w[3].c_str());
      } else if (w[0] == "vm") {
        if (w[1] == "create")
          vms[w[2]] = host_of(w[3])->create_vm(w[2], 1);
        else if (vms.count(w[2])) {
          auto* vm = vms[w[2]];
          if (w[1] == "start")
            vm->start();
          else if (w[1] == "suspend")
            vm->suspend();
          else if (w[1] == "resume")
            vm->resume();
          else if (w[1] == "destroy") {
            vm->destroy();
            vms.erase(w[2]);
          }
        }
      } else if (w[0] == "yield")
        sg4::this_actor::yield();
    } catch (const simgrid::ForcefulKillException&) {
      throw;
    } catch (const simgrid::Exception&) {
      // timeouts, failures: go on with the next operation
    } catch (const std::exception&) {
    }
  }
}

int main(int argc, char** argv)
{
  sg4::Engine e(&argc, argv);
  if (argc < 2) {
    fprintf(stderr, "usage: paje_drv scenario.txt\n");
    return 4;
  }
  std::ifstream in(argv[1]);
  std::string line;
  std::vector<std::vector<std::string>> decls;
  ActorSpec* cur = nullptr;
  std::string platform;
  while (std::getline(in, line)) {
    std::istringstream ls(line);
    std::vector<std::string> w;
    std::string x;
    while (ls >> x)
      w.push_back(x);
    if (w.empty() || w[0][0] == '#')
      continue;
    if (w[0] == "PLATFORM")
      platform = w[1];
    else if (w[0] == "ACTOR") {
      actors.push_back({w[1], std::stoi(w[2]), std::stod(w[3]), {}});
      cur = &actors.back();
    } else if (w[0] == "END")
      cur = nullptr;
    else if (cur != nullptr)
      cur->ops.push_back({w});
    else
      decls.push_back(w);
  }
  e.load_platform(platform);
  hosts = e.get_all_hosts();
  for (auto* l : e.get_all_links())
    if (l->get_name().find("__loopback__") == std::string::npos) // loopback links have no container in the traces
      links.push_back(l);
  for (auto const& w : decls) {
    if (w[0] == "CAT")
      simgrid::instr::declare_tracing_category(w[1]);
    else if (w[0] == "HVAR")
      simgrid::instr::declare_host_variable(w[1]);
    else if (w[0] == "LVAR")
      simgrid::instr::declare_link_variable(w[1]);
    else if (w[0] == "MARK") {
      simgrid::instr::declare_mark(w[1]);
      simgrid::instr::declare_mark_value(w[1], w[2]);
    } else if (w[0] == "HSTATE") {
      TRACE_host_state_declare(w[1].c_str());
      TRACE_host_state_declare_value(w[1].c_str(), w[2].c_str(), "1 0 0");
    }
  }
  // actors with start date 0 exist before the simulation starts; the others are created by a launcher at their date
  std::vector<const ActorSpec*> later;
  for (auto const& a : actors) {
    if (a.start <= 0)
      by_name[a.name] = hosts[a.host % hosts.size()]->add_actor(a.name, [&a]() { run_ops(a); });
    else
      later.push_back(&a);
  }
  if (not later.empty())
    hosts[0]->add_actor("launcher", [&later]() {
      std::sort(later.begin(), later.end(), [](auto* x, auto* y) { return x->start < y->start; });
      for (auto* a : later) {
        if (a->start > sg4::Engine::get_clock())
          sg4::this_actor::sleep_until(a->start);
        by_name[a->name] = hosts[a->host % hosts.size()]->add_actor(a->name, [a]() { run_ops(*a); });
      }
    });
  e.run();
  return 0;
}
