/* paje_mpi: small MPI code used to make SMPI write Paje traces (C47).  The sequence of operations is derived from a
 * seed so that every rank runs the same sequence of collectives; point-to-point traffic is a ring / pairwise exchange
 * with blocking, non-blocking and persistent flavours; computations are injected between the calls.
 * usage: paje_mpi <seed> <rounds>
 */
#include <mpi.h>
#include <stdio.h>
#include <stdlib.h>

static unsigned long state;
static unsigned rnd(unsigned n)
{
  state = state * 6364136223846793005UL + 1442695040888963407UL;
  return (unsigned)((state >> 33) % n);
}

int main(int argc, char** argv)
{
  int rank, size;
  MPI_Init(&argc, &argv);
  MPI_Comm_rank(MPI_COMM_WORLD, &rank);
  MPI_Comm_size(MPI_COMM_WORLD, &size);
  state      = argc > 1 ? strtoul(argv[1], NULL, 10) : 1;
  int rounds = argc > 2 ? atoi(argv[2]) : 5;
  int n      = 4096;
  double* a  = malloc(sizeof(double) * n * size);
  double* b  = malloc(sizeof(double) * n * size);
  for (int i = 0; i < n * size; i++)
    a[i] = b[i] = rank + i;
  MPI_Comm half;
  MPI_Comm_split(MPI_COMM_WORLD, rank % 2, rank, &half);

  for (int r = 0; r < rounds; r++) {
    unsigned what  = rnd(12);
    int count      = 1 + (int)rnd(n - 1);
    int root       = (int)rnd(size);
    int next       = (rank + 1) % size;
    int prev       = (rank + size - 1) % size;
    MPI_Request rq[2];
    switch (what) {
      case 0:
        MPI_Barrier(MPI_COMM_WORLD);
        break;
      case 1:
        MPI_Bcast(a, count, MPI_DOUBLE, root, MPI_COMM_WORLD);
        break;
      case 2:
        MPI_Reduce(a, b, count, MPI_DOUBLE, MPI_SUM, root, MPI_COMM_WORLD);
        break;
      case 3:
        MPI_Allreduce(a, b, count, MPI_DOUBLE, MPI_MAX, MPI_COMM_WORLD);
        break;
      case 4:
        MPI_Alltoall(a, count / size + 1, MPI_DOUBLE, b, count / size + 1, MPI_DOUBLE, MPI_COMM_WORLD);
        break;
      case 5:
        MPI_Gather(a, count / size + 1, MPI_DOUBLE, b, count / size + 1, MPI_DOUBLE, root, MPI_COMM_WORLD);
        break;
      case 6: /* ring, blocking */
        if (size > 1) {
          if (rank % 2 == 0) {
            MPI_Send(a, count, MPI_DOUBLE, next, r, MPI_COMM_WORLD);
            MPI_Recv(b, n, MPI_DOUBLE, prev, r, MPI_COMM_WORLD, MPI_STATUS_IGNORE);
          } else {
            MPI_Recv(b, n, MPI_DOUBLE, prev, r, MPI_COMM_WORLD, MPI_STATUS_IGNORE);
            MPI_Send(a, count, MPI_DOUBLE, next, r, MPI_COMM_WORLD);
          }
        }
        break;
      case 7: /* ring, non blocking + waitall */
        MPI_Irecv(b, n, MPI_DOUBLE, prev, r, MPI_COMM_WORLD, &rq[0]);
        MPI_Isend(a, count, MPI_DOUBLE, next, r, MPI_COMM_WORLD, &rq[1]);
        MPI_Waitall(2, rq, MPI_STATUSES_IGNORE);
        break;
      case 8: /* sendrecv */
        MPI_Sendrecv(a, count, MPI_DOUBLE, next, r, b, n, MPI_DOUBLE, prev, r, MPI_COMM_WORLD, MPI_STATUS_IGNORE);
        break;
      case 9: /* non blocking + wait / test loop */
        MPI_Irecv(b, n, MPI_DOUBLE, prev, r, MPI_COMM_WORLD, &rq[0]);
        MPI_Isend(a, count, MPI_DOUBLE, next, r, MPI_COMM_WORLD, &rq[1]);
        {
          int flag = 0;
          MPI_Test(&rq[0], &flag, MPI_STATUS_IGNORE);
          if (!flag)
            MPI_Wait(&rq[0], MPI_STATUS_IGNORE);
          MPI_Wait(&rq[1], MPI_STATUS_IGNORE);
        }
        break;
      case 10: /* collective on a sub-communicator */
        MPI_Allreduce(a, b, count, MPI_DOUBLE, MPI_SUM, half);
        break;
      default: /* computation */
        smpi_execute_flops(1e6 * (1 + rnd(50)));
        break;
    }
    if (rnd(3) == 0)
      smpi_execute_flops(1e5 * (1 + rank));
  }
  MPI_Comm_free(&half);
  free(a);
  free(b);
  MPI_Finalize();
  return 0;
}
