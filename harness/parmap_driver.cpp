/* parmap_driver: exercises the real simgrid::xbt::Parmap<T> (src/xbt/parmap.hpp) and logs what a caller can observe.
 *
 * usage: parmap_driver <scenario.txt> <out.ndjson>
 * scenario: one line per parmap instance:   P <mode: futex|posix|busy> <nthreads> <variant> <size_1> ... <size_k>
 *   variant 0: Parmap<int*>, fun records the element            variant 1: same, fun yields / spins on some elements
 *   variant 2: Parmap<int>, fun records the element and then drains the vector itself through Parmap::next()
 *              (the way SwappedContextFactory::run_all uses it)     variant 3: Parmap<int>, plain
 * Each call of fun appends (sequence number, apply number, element, thread) to a log private to the calling thread; the
 * sequence numbers come from one atomic counter, which also stamps the begin / ret events of the master, so that the
 * merged log is a linearisation of what happened.  When apply() returns, the master reads the three shared words of the
 * parmap (thread_counter, work_round, common_index), which are stable at that point iff every worker has signalled.
 * Output vocabulary (consumed by spec/lib/Parmap_trace.tla):
 *   {"e":"new","n":N,"mode":M,"steal":B}  {"e":"begin","k":K,"len":L}  {"e":"proc","k":K,"i":I,"t":T}
 *   {"e":"ret","k":K,"counter":C,"round":R,"index":X}  {"e":"del"}   and, if the watchdog fires, {"e":"hang"}
 */
#include <simgrid/s4u/Engine.hpp>
#include <xbt/log.h>

#include "src/internal_config.h"
#include "src/kernel/EngineImpl.hpp"
#include "src/kernel/context/Context.hpp"
#include <algorithm>
#include <atomic>
#include <boost/optional.hpp>
#include <chrono>
#include <condition_variable>
#include <cstdio>
#include <cstdlib>
#include <fstream>
#include <functional>
#include <limits>
#include <mutex>
#include <sstream>
#include <string>
#include <thread>
#include <unistd.h>
#include <vector>
#if HAVE_FUTEX_H
#include <linux/futex.h>
#include <sys/syscall.h>
#endif
// every header that parmap.hpp includes has been included above (include guards): only the members of Parmap become
// readable by the driver
#define private public
#include "src/xbt/parmap.hpp"
#undef private

struct Rec {
  unsigned long seq;
  int kind; // 0 proc, 1 begin, 2 ret
  long k, a, b, c, d;
};

static std::atomic<unsigned long> gseq{0};
static std::atomic<long> cur_apply{0};
static std::atomic<int> next_tid{1};
static std::mutex reg_mutex;
static std::vector<std::vector<Rec>*> all_logs;
static thread_local std::vector<Rec>* mylog = nullptr;
static thread_local int mytid              = -1;
static thread_local unsigned long my_gen    = 0;
static std::atomic<unsigned long> generation{0}; // parmap instance number: thread ids are per instance
static FILE* out;

static std::vector<Rec>& log_of_thread()
{
  if (mylog == nullptr) {
    mylog = new std::vector<Rec>();
    mylog->reserve(4096);
    const std::scoped_lock lock(reg_mutex);
    all_logs.push_back(mylog);
  }
  return *mylog;
}

static bool is_main = false; // set in main(): the master keeps thread number 0
static thread_local bool i_am_main = false;

static void record(long elem)
{
  if (not i_am_main && (mytid < 0 || my_gen != generation.load())) {
    mytid  = next_tid.fetch_add(1);
    my_gen = generation.load();
  }
  unsigned long s = gseq.fetch_add(1);
  log_of_thread().push_back({s, 0, cur_apply.load(), elem, i_am_main ? 0 : mytid, 0, 0});
}

static void flush_logs()
{
  std::vector<Rec> all;
  {
    const std::scoped_lock lock(reg_mutex);
    for (auto* l : all_logs) {
      all.insert(all.end(), l->begin(), l->end());
      l->clear();
    }
  }
  std::sort(all.begin(), all.end(), [](const Rec& x, const Rec& y) { return x.seq < y.seq; });
  for (auto const& r : all) {
    if (r.kind == 0)
      fprintf(out, "{\"e\":\"proc\",\"k\":%ld,\"i\":%ld,\"t\":%ld}\n", r.k, r.a, r.b);
    else if (r.kind == 1)
      fprintf(out, "{\"e\":\"begin\",\"k\":%ld,\"len\":%ld}\n", r.k, r.a);
    else
      fprintf(out, "{\"e\":\"ret\",\"k\":%ld,\"counter\":%ld,\"round\":%ld,\"index\":%ld}\n", r.k, r.a, r.b, r.c);
  }
  fflush(out);
}

static void master_event(int kind, long k, long a, long b, long c)
{
  unsigned long s = gseq.fetch_add(1);
  log_of_thread().push_back({s, kind, k, a, b, c, 0});
}

static void little_delay(long i)
{
  if (i % 7 == 3)
    std::this_thread::yield();
  else if (i % 11 == 5) {
    auto t0 = std::chrono::steady_clock::now();
    while (std::chrono::steady_clock::now() - t0 < std::chrono::microseconds(30))
      ;
  }
}

template <class PM> static void after_apply(PM& pm, long k)
{
  // read immediately after apply() returned
  long counter = pm.thread_counter.load();
  long round   = pm.work_round.load();
  long index   = pm.common_index.load();
  master_event(2, k, counter, round, index);
}

static void run_instance(e_xbt_parmap_mode_t mode, unsigned nthreads, int variant, const std::vector<long>& sizes)
{
  generation++;
  next_tid = 1;
  long k   = 0;
  if (variant <= 1) {
    simgrid::xbt::Parmap<int*> pm(nthreads, mode);
    for (long n : sizes) {
      std::vector<int> a(n, 0);
      std::vector<int*> data(n);
      for (long i = 0; i < n; i++)
        data[i] = &a[i];
      int* base = a.data();
      k++;
      cur_apply = k;
      master_event(1, k, n, 0, 0);
      if (variant == 0)
        pm.apply([base](int* p) { record(p - base); }, data);
      else
        pm.apply(
            [base](int* p) {
              little_delay(p - base);
              record(p - base);
              little_delay(p - base + 1);
            },
            data);
      after_apply(pm, k);
    }
  } else {
    simgrid::xbt::Parmap<int> pm(nthreads, mode);
    for (long n : sizes) {
      std::vector<int> data(n);
      for (long i = 0; i < n; i++)
        data[i] = static_cast<int>(i);
      k++;
      cur_apply = k;
      master_event(1, k, n, 0, 0);
      if (variant == 2)
        pm.apply(
            [&pm](int v) {
              record(v);
              while (auto nx = pm.next()) {
                little_delay(*nx);
                record(*nx);
              }
            },
            data);
      else
        pm.apply([](int v) { record(v); }, data);
      after_apply(pm, k);
    }
  }
  // the destructor has joined the workers: their logs are complete
}

int main(int argc, char** argv)
{
  simgrid::s4u::Engine e(&argc, argv);
  if (argc < 3) {
    fprintf(stderr, "usage: parmap_driver scenario.txt out.ndjson\n");
    return 4;
  }
  simgrid::kernel::context::Context::set_nthreads(16); // any value > 1: the worker threads need real contexts
  i_am_main = true;
  is_main   = true;
  out       = fopen(argv[2], "w");
  if (out == nullptr)
    return 4;
  // watchdog: a lost wake-up must end the run with a recognisable line
  std::thread([] {
    const char* w = getenv("PARMAP_WATCHDOG");
    std::this_thread::sleep_for(std::chrono::seconds(w ? atoi(w) : 120));
    fprintf(out, "{\"e\":\"hang\"}\n");
    fflush(out);
    _exit(0);
  }).detach();

  std::ifstream in(argv[1]);
  std::string line;
  while (std::getline(in, line)) {
    std::istringstream ls(line);
    std::string w;
    std::string mode;
    unsigned nthreads;
    int variant;
    if (not(ls >> w) || w != "P")
      continue;
    ls >> mode >> nthreads >> variant;
    std::vector<long> sizes;
    long s;
    while (ls >> s)
      sizes.push_back(s);
    e_xbt_parmap_mode_t m = mode == "futex" ? XBT_PARMAP_FUTEX : mode == "posix" ? XBT_PARMAP_POSIX : XBT_PARMAP_BUSY_WAIT;
    fprintf(out, "{\"e\":\"new\",\"n\":%u,\"mode\":\"%s\",\"steal\":%s}\n", nthreads, mode.c_str(),
            variant == 2 ? "true" : "false");
    run_instance(m, nthreads, variant, sizes);
    flush_logs();
    fprintf(out, "{\"e\":\"del\"}\n");
  }
  fclose(out);
  _exit(0); // skip the static destructors: the watchdog thread is still sleeping
}
