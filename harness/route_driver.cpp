/* route_driver: builds a platform described by a line-based token file through the C++ platform API (or loads an XML
 * platform), then prints, as ndjson on stdout:
 *   {"t":"link","name":..,"lat":..}                 every link of the platform (name, latency)
 *   {"t":"zlinks","zone":..,"links":[..]}           the links owned by each zone (not by its sub-zones)
 *   {"t":"host","name":..,"zone":..}                every host
 *   {"t":"route","p":pass,"i":ordinal,"s":..,"d":..,"links":[..],"lat":..,"lath":"%a"}   Host::route_to(dst, links, &lat)
 *   {"t":"route",...,"err":"message"}               route_to threw
 *   {"t":"abort","i":ordinal,"s":..,"d":..,"sig":n} the process is dying inside route_to (xbt_die / abort / SIGSEGV)
 *   {"t":"end","n":count}
 *
 * Token file (one declaration per line, '#' comments):
 *   zone <name> <kind> <parent|->  [k=v ...]    kind: full floyd dijkstra dijkstracache star vivaldi empty wifi
 *                                                     torus fattree dragonfly   (parent '-' = the root zone _world_)
 *        cluster kinds take: dims=2,3  |  ft=L;d1,d2;u1,u2;c1,c2  |  df=g,gl;c,cl;r,rl;n
 *                            lat=<ticks> split=0|1 loop=<ticks|-1> lim=0|1|2 (1 = leaves, 2 = leaves and switches/routers)
 *                            leaf=host|zone ; they are sealed at once (their hosts are <zone>_n<rank>)
 *   host <name> <zone> [x y z]       router <name> <zone> [x y z]       coords <netpoint> x y z
 *   link <name> <zone> <lat_ticks> [split|wifi]
 *   route <zone> <src|-> <dst|-> <gw_src|-> <gw_dst|-> <sym 0|1> <link[:U|:D]> ...
 *   bypass <zone> <src> <dst> <gw_src|-> <gw_dst|-> <link[:U|:D]> ...
 *   gateway <zone> <netpoint>      prop <zone> <key> <value>      seal <zone>      xml <file>
 *   pair <src> <dst>               only these pairs are queried (default: all ordered pairs, self pairs included)
 *   explicit                       only the listed pairs, even when there is none
 *   noself                         skip self pairs in the default enumeration
 *   pass2                          query every pair a second time, in column-major order (route caches)
 * One tick = 2^-20 s (sums of small multiples are exact in binary64).
 *
 * usage: route_driver <tokens> [--start N] [--cfg=...]
 */
#include <simgrid/kernel/routing/NetPoint.hpp>
#include <simgrid/kernel/routing/NetZoneImpl.hpp>
#include <simgrid/s4u.hpp>

#include <cmath>
#include <csignal>
#include <cstdio>
#include <cstdlib>
#include <cstring>
#include <fstream>
#include <limits>
#include <map>
#include <set>
#include <sstream>
#include <string>
#include <unistd.h>
#include <vector>

namespace sg4 = simgrid::s4u;
using simgrid::kernel::routing::NetPoint;

static const double TICK = std::ldexp(1.0, -20);
static std::map<std::string, sg4::NetZone*> zones;
static sg4::Engine* engine;

static char cur_line[1024]; // pre-rendered abort line of the pair being queried

static void on_fatal_signal(int sig)
{
  char buf[1200];
  int n = snprintf(buf, sizeof buf, "%s\"sig\":%d}\n", cur_line, sig);
  if (n > 0) {
    ssize_t r = write(1, buf, n);
    (void)r;
  }
  _exit(0);
}

[[noreturn]] static void die(const std::string& msg)
{
  fflush(stdout);
  fprintf(stderr, "route_driver: %s\n", msg.c_str());
  _exit(4);
}

static std::string jstr(const std::string& s)
{
  std::string o = "\"";
  for (char c : s) {
    if (c == '"' || c == '\\') {
      o += '\\';
      o += c;
    } else if (c == '\n')
      o += "\\n";
    else if (static_cast<unsigned char>(c) < 0x20)
      o += ' ';
    else
      o += c;
  }
  return o + "\"";
}

static sg4::NetZone* zone_of(const std::string& name)
{
  auto it = zones.find(name);
  if (it == zones.end())
    die("unknown zone " + name);
  return it->second;
}

static NetPoint* np_of(const std::string& name)
{
  if (name == "-")
    return nullptr;
  auto* np = engine->netpoint_by_name_or_null(name);
  if (np == nullptr)
    die("unknown netpoint " + name);
  return np;
}

static std::vector<sg4::LinkInRoute> links_of(std::istringstream& ls)
{
  std::vector<sg4::LinkInRoute> res;
  std::string w;
  while (ls >> w) {
    auto dir = sg4::LinkInRoute::Direction::NONE;
    if (w.size() > 2 && w[w.size() - 2] == ':') {
      dir = w.back() == 'U' ? sg4::LinkInRoute::Direction::UP : sg4::LinkInRoute::Direction::DOWN;
      w   = w.substr(0, w.size() - 2);
      auto* l = engine->split_duplex_link_by_name(w);
      res.emplace_back(l, dir);
    } else {
      res.emplace_back(engine->link_by_name(w));
    }
  }
  return res;
}

static std::vector<unsigned long> ints_of(const std::string& s, char sep)
{
  std::vector<unsigned long> res;
  std::istringstream is(s);
  std::string item;
  while (std::getline(is, item, sep))
    res.push_back(std::stoul(item));
  return res;
}

static void make_cluster(const std::string& name, const std::string& kind, sg4::NetZone* parent,
                         std::map<std::string, std::string>& kv)
{
  double lat   = (kv.count("lat") ? std::stod(kv["lat"]) : 1) * TICK;
  bool split   = kv.count("split") ? kv["split"] == "1" : true;
  long loop    = kv.count("loop") ? std::stol(kv["loop"]) : -1;
  int lim      = kv.count("lim") ? std::stoi(kv["lim"]) : 0;
  bool leafz   = kv.count("leaf") && kv["leaf"] == "zone";
  auto policy  = split ? sg4::Link::SharingPolicy::SPLITDUPLEX : sg4::Link::SharingPolicy::SHARED;
  sg4::NetZone* zone = nullptr;
  if (kind == "torus") {
    zone = parent->add_netzone_torus(name, ints_of(kv["dims"], ','), 1e9, lat, policy);
  } else if (kind == "fattree") {
    std::vector<std::string> parts;
    std::istringstream is(kv["ft"]);
    std::string item;
    while (std::getline(is, item, ';'))
      parts.push_back(item);
    if (parts.size() != 4)
      die("bad ft= parameter");
    auto tou = [](const std::vector<unsigned long>& v) { return std::vector<unsigned int>(v.begin(), v.end()); };
    zone     = parent->add_netzone_fatTree(name, std::stoul(parts[0]), tou(ints_of(parts[1], ',')),
                                           tou(ints_of(parts[2], ',')), tou(ints_of(parts[3], ',')), 1e9, lat, policy);
  } else {
    std::vector<std::string> parts;
    std::istringstream is(kv["df"]);
    std::string item;
    while (std::getline(is, item, ';'))
      parts.push_back(item);
    if (parts.size() != 4)
      die("bad df= parameter");
    auto g = ints_of(parts[0], ',');
    auto c = ints_of(parts[1], ',');
    auto r = ints_of(parts[2], ',');
    zone   = parent->add_netzone_dragonfly(name, {g[0], g[1]}, {c[0], c[1]}, {r[0], r[1]}, std::stoul(parts[3]), 1e9,
                                           lat, policy);
  }
  zones[name] = zone;
  if (leafz)
    zone->set_netzone_cb([name](sg4::NetZone* z, const std::vector<unsigned long>&, unsigned long id) {
      auto* lz = z->add_netzone_full(name + "_z" + std::to_string(id));
      lz->add_host(name + "_n" + std::to_string(id), 1e9);
      lz->seal(); // a single host: it is the default gateway
      zones[lz->get_name()] = lz;
      return lz;
    });
  else
    zone->set_host_cb([name](sg4::NetZone* z, const std::vector<unsigned long>&, unsigned long id) {
      return z->add_host(name + "_n" + std::to_string(id), 1e9);
    });
  if (loop >= 0)
    zone->set_loopback_cb([name, loop](sg4::NetZone* z, const std::vector<unsigned long>&, unsigned long id) {
      return z->add_link(name + "_loop_" + std::to_string(id), 1e9)
          ->set_sharing_policy(sg4::Link::SharingPolicy::FATPIPE)
          ->set_latency(loop * TICK)
          ->seal();
    });
  if (lim > 0)
    zone->set_limiter_cb([name, lim, kind](sg4::NetZone* z, const std::vector<unsigned long>& coord,
                                           unsigned long id) -> sg4::Link* {
      // leaves: called from fill_leaf_from_cb with the rank as id; switches (fat-tree: coord = {level, position}) and
      // routers (dragonfly: coord = {group, chassis, blade, UINT_MAX}) are named after their coordinates
      std::string lname;
      bool is_switch = false;
      if (kind == "dragonfly" && coord.size() == 4 && coord[3] == std::numeric_limits<unsigned int>::max())
        is_switch = true;
      // fat-tree: generate_switches() passes {level >= 1, position}; leaves get {0, rank} (index_to_dims over
      // {levels + 1, tot})
      if (kind == "fattree")
        is_switch = coord.size() == 2 && coord[0] >= 1;
      if (is_switch) {
        if (lim < 2)
          return nullptr;
        lname = name + "_lims";
        for (size_t i = 0; i + (kind == "dragonfly" ? 1 : 0) < coord.size(); i++)
          lname += "_" + std::to_string(coord[i]);
      } else
        lname = name + "_lim_" + std::to_string(id);
      return z->add_link(lname, 1e9)->set_latency(0)->seal();
    });
  zone->seal();
}

struct Pair {
  std::string s, d;
};

int main(int argc, char** argv)
{
  sg4::Engine e(&argc, argv);
  engine = &e;
  if (argc < 2)
    die("usage: route_driver tokens [--start N]");
  long start = 0;
  for (int i = 2; i < argc; i++)
    if (!strcmp(argv[i], "--start") && i + 1 < argc)
      start = atol(argv[++i]);

  std::ifstream in(argv[1]);
  if (!in)
    die(std::string("cannot read ") + argv[1]);
  std::vector<Pair> pairs;
  bool noself = false;
  bool pass2  = false;
  bool explicit_pairs = false;
  bool built  = false;
  std::string line;
  int lineno = 0;
  try {
    while (std::getline(in, line)) {
      lineno++;
      std::istringstream ls(line);
      std::string w;
      if (!(ls >> w) || w[0] == '#')
        continue;
      if (w == "zone") {
        std::string name, kind, parent, t;
        ls >> name >> kind >> parent;
        std::map<std::string, std::string> kv;
        while (ls >> t) {
          auto eq = t.find('=');
          if (eq != std::string::npos)
            kv[t.substr(0, eq)] = t.substr(eq + 1);
        }
        sg4::NetZone* p = parent == "-" ? e.get_netzone_root() : zone_of(parent);
        built           = true;
        if (kind == "full")
          zones[name] = p->add_netzone_full(name);
        else if (kind == "floyd")
          zones[name] = p->add_netzone_floyd(name);
        else if (kind == "dijkstra")
          zones[name] = p->add_netzone_dijkstra(name, false);
        else if (kind == "dijkstracache")
          zones[name] = p->add_netzone_dijkstra(name, true);
        else if (kind == "star")
          zones[name] = p->add_netzone_star(name);
        else if (kind == "vivaldi")
          zones[name] = p->add_netzone_vivaldi(name);
        else if (kind == "empty")
          zones[name] = p->add_netzone_empty(name);
        else if (kind == "wifi")
          zones[name] = p->add_netzone_wifi(name);
        else if (kind == "torus" || kind == "fattree" || kind == "dragonfly")
          make_cluster(name, kind, p, kv);
        else
          die("unknown zone kind " + kind);
      } else if (w == "host" || w == "router") {
        std::string name, zone, x, y, z;
        ls >> name >> zone;
        NetPoint* np = w == "host" ? zone_of(zone)->add_host(name, 1e9)->get_netpoint() : zone_of(zone)->add_router(name);
        if (ls >> x >> y >> z)
          np->set_coordinates(x + " " + y + " " + z);
      } else if (w == "coords") {
        std::string name, x, y, z;
        ls >> name >> x >> y >> z;
        np_of(name)->set_coordinates(x + " " + y + " " + z);
      } else if (w == "link") {
        std::string name, zone, kind;
        double lat;
        ls >> name >> zone >> lat;
        ls >> kind;
        if (kind == "split")
          zone_of(zone)->add_split_duplex_link(name, 1e9)->set_latency(lat * TICK);
        else if (kind == "wifi")
          zone_of(zone)->add_link(name, 1e9); // the link of a Wifi zone: no latency can be set
        else
          zone_of(zone)->add_link(name, 1e9)->set_latency(lat * TICK);
      } else if (w == "route") {
        std::string zone, s, d, gs, gd;
        int sym;
        ls >> zone >> s >> d >> gs >> gd >> sym;
        auto links = links_of(ls);
        zone_of(zone)->get_impl()->add_route(np_of(s), np_of(d), np_of(gs), np_of(gd), links, sym != 0);
      } else if (w == "bypass") {
        std::string zone, s, d, gs, gd;
        ls >> zone >> s >> d >> gs >> gd;
        auto links = links_of(ls);
        zone_of(zone)->add_bypass_route(np_of(s), np_of(d), np_of(gs), np_of(gd), links);
      } else if (w == "gateway") {
        std::string zone, np;
        ls >> zone >> np;
        zone_of(zone)->set_gateway(np_of(np));
      } else if (w == "prop") {
        std::string zone, k, v;
        ls >> zone >> k >> v;
        zone_of(zone)->set_property(k, v);
      } else if (w == "seal") {
        std::string zone;
        ls >> zone;
        zone_of(zone)->seal();
      } else if (w == "xml") {
        std::string path;
        ls >> path;
        e.load_platform(path);
      } else if (w == "pair") {
        Pair p;
        ls >> p.s >> p.d;
        pairs.push_back(p);
      } else if (w == "noself")
        noself = true;
      else if (w == "pass2")
        pass2 = true;
      else if (w == "explicit")
        explicit_pairs = true;
      else
        die("unknown token " + w);
    }
    if (built)
      e.get_netzone_root()->seal();
  } catch (const std::exception& ex) {
    printf("{\"t\":\"builderr\",\"line\":%d,\"what\":%s}\n", lineno, jstr(ex.what()).c_str());
    fflush(stdout);
    _exit(5);
  }

  for (auto const* l : e.get_all_links())
    printf("{\"t\":\"link\",\"name\":%s,\"lat\":%.17g}\n", jstr(l->get_name()).c_str(), l->get_latency());
  // links owned by each zone (cluster zones name their links without the zone name)
  for (auto const* z : e.get_all_netzones()) {
    std::set<std::string> own;
    for (auto const* l : z->get_impl()->get_all_links())
      own.insert(l->get_name());
    for (auto const* c : z->get_children())
      for (auto const* l : c->get_impl()->get_all_links())
        own.erase(l->get_name());
    std::string out = "{\"t\":\"zlinks\",\"zone\":" + jstr(z->get_name()) + ",\"links\":[";
    bool first      = true;
    for (auto const& n : own) {
      out += (first ? "" : ",") + jstr(n);
      first = false;
    }
    printf("%s]}\n", out.c_str());
  }
  auto hosts = e.get_all_hosts();
  for (auto const* h : hosts)
    printf("{\"t\":\"host\",\"name\":%s,\"zone\":%s}\n", jstr(h->get_name()).c_str(),
           jstr(h->get_englobing_zone()->get_name()).c_str());
  if (pairs.empty() && not explicit_pairs) {
    for (auto const* s : hosts)
      for (auto const* d : hosts)
        if (!(noself && s == d))
          pairs.push_back({s->get_name(), d->get_name()});
  }
  fflush(stdout);

  signal(SIGABRT, on_fatal_signal);
  signal(SIGSEGV, on_fatal_signal);
  signal(SIGFPE, on_fatal_signal);
  signal(SIGBUS, on_fatal_signal);

  long count = 0;
  size_t n   = pairs.size();
  for (int pass = 1; pass <= (pass2 ? 2 : 1); pass++) {
    for (size_t k = 0; k < n; k++) {
      // pass 2 visits the same pairs in another order (destination-major when the pairs are the full square)
      size_t idx = k;
      if (pass == 2) {
        size_t side = static_cast<size_t>(std::llround(std::sqrt(static_cast<double>(n))));
        idx         = side * side == n ? (k % side) * side + k / side : n - 1 - k;
      }
      long ordinal = static_cast<long>((pass - 1) * n + k);
      if (ordinal < start)
        continue;
      const Pair& p = pairs[idx];
      auto* src     = e.host_by_name_or_null(p.s);
      auto* dst     = e.host_by_name_or_null(p.d);
      if (src == nullptr || dst == nullptr)
        die("unknown host in pair " + p.s + " " + p.d);
      snprintf(cur_line, sizeof cur_line, "{\"t\":\"abort\",\"p\":%d,\"i\":%ld,\"s\":%s,\"d\":%s,", pass, ordinal,
               jstr(p.s).c_str(), jstr(p.d).c_str());
      std::vector<sg4::Link*> links;
      double lat = 0;
      std::string err;
      try {
        src->route_to(dst, links, &lat);
      } catch (const std::exception& ex) {
        err = ex.what();
        if (err.empty())
          err = "exception";
      }
      std::string out = "{\"t\":\"route\",\"p\":" + std::to_string(pass) + ",\"i\":" + std::to_string(ordinal) +
                        ",\"s\":" + jstr(p.s) + ",\"d\":" + jstr(p.d);
      if (!err.empty())
        out += ",\"err\":" + jstr(err.substr(0, 300));
      else {
        out += ",\"links\":[";
        for (size_t i = 0; i < links.size(); i++)
          out += (i ? "," : "") + jstr(links[i]->get_name());
        char buf[96];
        snprintf(buf, sizeof buf, "],\"lat\":%.17g,\"lath\":\"%a\"", lat, lat);
        out += buf;
      }
      out += "}\n";
      fputs(out.c_str(), stdout);
      fflush(stdout);
      count++;
    }
  }
  printf("{\"t\":\"end\",\"n\":%ld}\n", count);
  fflush(stdout);
  _exit(0); // no teardown: the platform is not used by any simulation
}
