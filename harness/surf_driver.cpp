/* surf_driver: runs a generated scenario on SimGrid's real resource models and logs what the properties C19-C23
 * observe, as ndjson on stdout (doubles printed with %.17g: exact round trip).
 *
 * usage: surf_driver <scenario.txt> [--cfg=...]
 *        surf_driver --batch <list.txt> [timeout_s]     one line per run: <scenario.txt> [--cfg=...]...; each run is
 *                                                       executed in a forked child (one Engine per process), preceded
 *                                                       by a line {"e":"begin","idx":N}; a child that does not finish
 *                                                       within the timeout is killed and reported as end(hang)
 *
 * Scenario file: one directive per line, numbers in any strtod syntax (the generators write C99 hex floats).
 *   plugin host_energy|link_energy
 *   host <name> <cores> <npstates> <speed>...           hosts are numbered from 0 in declaration order
 *   hprop <h> <key> <value>                             e.g. wattage_per_state 100:120:200,90:100:150 / wattage_off 10
 *   hprofile <h> speed|state <period|-1> <n> (<date> <value>)*n
 *   link <name> <bandwidth> <latency> SHARED|FATPIPE|SPLITDUPLEX
 *   lprop <l> <key> <value>                             e.g. wattage_range 100:200
 *   lprofile <l> bw|lat|state <period|-1> <n> (<date> <value>)*n
 *   disk <h> <name> <read_bw> <write_bw>                disks are numbered from 0 in declaration order
 *   route <hsrc> <hdst> <n> <l>...                      symmetrical
 *   observe [k]                                         log loads at every on_time_advance, and the remaining work of the
 *                                                       activities in progress at every k-th one (default 1)
 *   actor <h>                                           following op lines belong to this actor
 * Operations (ids are small integers chosen by the generator, unique per activity):
 *   sleep <d> | until <date>
 *   exec <id> <flops> <bound|0> <priority> <threads> [<h>]      blocking (on host h, default: the actor's host)
 *   xstart <id> <flops> <bound|0> <priority> <threads>          asynchronous start ; wait <id>
 *   comm <id> <hsrc> <hdst> <bytes>                             blocking host-to-host communication
 *   cstart <id> <hsrc> <hdst> <bytes>                           asynchronous ; wait <id>
 *   ptask <id> <n> <h>*n <flops>*n                              blocking parallel execution without communication
 *   io <id> <disk> read|write <bytes>                           blocking ; iostart ... ; wait <id>
 *   suspend <id> | resume <id> | setprio <id> <p> | setbound <id> <b>
 *   pstate <h> <p> | off <h> | on <h> | loff <l> | lon <l>
 *   sample <tag>                                        speeds, bandwidths, states, loads, consumed energies
 * Output lines: act (one per finished activity), sample, adv (with "observe"), end; with "observe" also cap0 (host
 * capacities cores * get_speed * get_available_speed before the simulation starts) and capchg (after every pstate op), so
 * that the capacity in force during each interval between two adv lines is known.
 */
#include <simgrid/Exception.hpp>
#include <simgrid/kernel/ProfileBuilder.hpp>
#include <simgrid/plugins/energy.h>
#include <simgrid/s4u.hpp>

#include "src/kernel/activity/ActivityImpl.hpp"
#include "src/kernel/resource/CpuImpl.hpp"

#include <csignal>
#include <cstdio>
#include <cstdlib>
#include <fstream>
#include <map>
#include <sstream>
#include <string>
#include <sys/prctl.h>
#include <sys/resource.h>
#include <sys/wait.h>
#include <unistd.h>
#include <vector>

namespace sg4 = simgrid::s4u;

struct Op {
  std::string name;
  std::vector<std::string> a;
};
struct ActorSpec {
  int host = 0;
  std::vector<Op> ops;
};
struct ProfSpec {
  int idx;
  std::string what;
  double period;
  std::string text;
};
struct HostSpec {
  std::string name;
  int cores;
  std::vector<double> speeds;
  std::vector<std::pair<std::string, std::string>> props;
};
struct LinkSpec {
  std::string name;
  double bw, lat;
  std::string policy;
  std::vector<std::pair<std::string, std::string>> props;
};
struct DiskSpec {
  int host;
  std::string name;
  double rbw, wbw;
};
struct RouteSpec {
  int src, dst;
  std::vector<int> links;
};
struct Act {
  std::string kind;
  sg4::ActivityPtr ptr;
  double amount = 0;
  bool logged   = false;
};

static std::vector<HostSpec> hspecs;
static std::vector<LinkSpec> lspecs;
static std::vector<DiskSpec> dspecs;
static std::vector<RouteSpec> rspecs;
static std::vector<ProfSpec> hprofs, lprofs;
static std::vector<ActorSpec> actors;
static bool host_energy = false, link_energy = false, observe = false;
static int observe_every = 1; // remaining work is read at every observe_every-th clock advance only (reading it updates lazy actions)
static long advances     = 0;

static std::vector<sg4::Host*> hosts;
static std::vector<sg4::Link*> links;
static std::vector<sg4::Disk*> disks;
static std::map<long, Act> acts;

static double num(const std::string& s)
{
  char* end;
  double v = strtod(s.c_str(), &end);
  if (*end != 0) {
    fprintf(stderr, "surf_driver: bad number '%s'\n", s.c_str());
    exit(4);
  }
  return v;
}

static void emit(const std::string& s)
{
  fputs(s.c_str(), stdout);
  fputc('\n', stdout);
  fflush(stdout);
}

static std::string d2s(double v)
{
  char buf[64];
  snprintf(buf, sizeof buf, "%.17g", v);
  return buf;
}

// current capacity of every host, as the public API gives it: cores * peak speed of the pstate * availability
static std::string caps_json()
{
  std::string o = "[";
  for (size_t i = 0; i < hosts.size(); i++)
    o += (i ? "," : "") + d2s(hosts[i]->get_speed() * hosts[i]->get_available_speed() * hosts[i]->get_core_count());
  return o + "]";
}

static void log_end(const char* how)
{
  emit(std::string("{\"e\":\"end\",\"how\":\"") + how + "\",\"t\":" + d2s(sg4::Engine::get_clock()) + "}");
}

static void on_fatal_signal(int sig)
{
  char buf[96];
  int n = snprintf(buf, sizeof buf, "{\"e\":\"end\",\"how\":\"%s\",\"sig\":%d}\n", sig == SIGABRT ? "abort" : "signal", sig);
  if (write(1, buf, n) < 0)
    _exit(5);
  _exit(0);
}

static void log_act(long id, const char* state)
{
  Act& a = acts[id];
  if (a.logged)
    return;
  a.logged = true;
  std::ostringstream o;
  o << "{\"e\":\"act\",\"id\":" << id << ",\"kind\":\"" << a.kind << "\",\"state\":\"" << state
    << "\",\"start\":" << d2s(a.ptr->get_start_time()) << ",\"finish\":" << d2s(a.ptr->get_finish_time())
    << ",\"clock\":" << d2s(sg4::Engine::get_clock()) << "}";
  emit(o.str());
}

static void wait_act(long id)
{
  Act& a            = acts[id];
  const char* state = "done";
  try {
    a.ptr->wait();
  } catch (const simgrid::HostFailureException&) {
    state = "host_failure";
  } catch (const simgrid::NetworkFailureException&) {
    state = "network_failure";
  } catch (const simgrid::StorageFailureException&) {
    state = "storage_failure";
  } catch (const simgrid::CancelException&) {
    state = "canceled";
  } catch (const simgrid::TimeoutException&) {
    state = "timeout";
  }
  log_act(id, state);
}

static sg4::ExecPtr make_exec(const Op& op)
{
  double flops = num(op.a[1]), bound = num(op.a[2]), prio = num(op.a[3]);
  int threads  = static_cast<int>(num(op.a[4]));
  sg4::ExecPtr e = sg4::this_actor::exec_init(flops);
  if (bound > 0)
    e->set_bound(bound);
  if (prio != 1)
    e->set_priority(prio);
  if (threads != 1)
    e->set_thread_count(threads);
  if (op.a.size() > 5)
    e->set_host(hosts[std::stoi(op.a[5])]);
  return e;
}

static void do_sample(const std::string& tag)
{
  std::ostringstream o;
  o << "{\"e\":\"sample\",\"tag\":\"" << tag << "\",\"t\":" << d2s(sg4::Engine::get_clock());
  auto arr = [&o](const char* key, size_t n, const std::function<std::string(size_t)>& f) {
    o << ",\"" << key << "\":[";
    for (size_t i = 0; i < n; i++)
      o << (i ? "," : "") << f(i);
    o << "]";
  };
  std::vector<double> he(hosts.size(), 0), le(links.size(), 0);
  if (host_energy)
    for (size_t i = 0; i < hosts.size(); i++)
      if (hosts[i]->get_property("wattage_per_state") != nullptr)
        he[i] = sg_host_get_consumed_energy(hosts[i]);
  if (link_energy)
    for (size_t i = 0; i < links.size(); i++)
      le[i] = sg_link_get_consumed_energy(links[i]);
  arr("speed", hosts.size(), [](size_t i) { return d2s(hosts[i]->get_speed()); });
  arr("avail", hosts.size(), [](size_t i) { return d2s(hosts[i]->get_available_speed()); });
  arr("hon", hosts.size(), [](size_t i) { return std::string(hosts[i]->is_on() ? "1" : "0"); });
  arr("pstate", hosts.size(), [](size_t i) { return std::to_string(hosts[i]->get_pstate()); });
  arr("hload", hosts.size(), [](size_t i) { return d2s(hosts[i]->get_load()); });
  arr("bw", links.size(), [](size_t i) { return d2s(links[i]->get_bandwidth()); });
  arr("lat", links.size(), [](size_t i) { return d2s(links[i]->get_latency()); });
  arr("lon", links.size(), [](size_t i) { return std::string(links[i]->is_on() ? "1" : "0"); });
  arr("lload", links.size(), [](size_t i) { return d2s(links[i]->get_load()); });
  if (host_energy)
    arr("henergy", hosts.size(), [&he](size_t i) { return d2s(he[i]); });
  if (link_energy)
    arr("lenergy", links.size(), [&le](size_t i) { return d2s(le[i]); });
  o << "}";
  emit(o.str());
}

static void run_actor(int idx)
{
  const ActorSpec& spec = actors[idx];
  for (const Op& op : spec.ops) {
    const std::string& n = op.name;
    if (n == "sleep")
      sg4::this_actor::sleep_for(num(op.a[0]));
    else if (n == "until")
      sg4::this_actor::sleep_until(num(op.a[0]));
    else if (n == "exec" || n == "xstart") {
      long id   = std::stol(op.a[0]);
      auto e    = make_exec(op);
      acts[id]  = Act{"exec", e, num(op.a[1])};
      try {
        e->start();
      } catch (const simgrid::HostFailureException&) {
        log_act(id, "host_failure");
        continue;
      }
      if (n == "exec")
        wait_act(id);
    } else if (n == "comm" || n == "cstart") {
      long id  = std::stol(op.a[0]);
      auto c   = sg4::Comm::sendto_init(hosts[std::stoi(op.a[1])], hosts[std::stoi(op.a[2])]);
      c->set_payload_size(static_cast<uint64_t>(num(op.a[3])));
      acts[id] = Act{"comm", c, num(op.a[3])};
      c->start();
      if (n == "comm")
        wait_act(id);
    } else if (n == "ptask") {
      long id = std::stol(op.a[0]);
      int k   = std::stoi(op.a[1]);
      std::vector<sg4::Host*> hs;
      std::vector<double> fl;
      for (int i = 0; i < k; i++)
        hs.push_back(hosts[std::stoi(op.a[2 + i])]);
      for (int i = 0; i < k; i++)
        fl.push_back(num(op.a[2 + k + i]));
      std::vector<double> bytes(static_cast<size_t>(k) * k, 0.0);
      auto e   = sg4::this_actor::exec_init(hs, fl, bytes);
      acts[id] = Act{"ptask", e, 1.0};
      e->start();
      wait_act(id);
    } else if (n == "io" || n == "iostart") {
      long id  = std::stol(op.a[0]);
      auto io  = disks[std::stoi(op.a[1])]->io_init(static_cast<sg_size_t>(num(op.a[3])),
                                                    op.a[2] == "read" ? sg4::Io::OpType::READ : sg4::Io::OpType::WRITE);
      acts[id] = Act{"io", io, num(op.a[3])};
      io->start();
      if (n == "io")
        wait_act(id);
    } else if (n == "wait")
      wait_act(std::stol(op.a[0]));
    else if ((n == "suspend" || n == "resume" || n == "setprio" || n == "setbound") &&
             (acts.find(std::stol(op.a[0])) == acts.end() || acts[std::stol(op.a[0])].logged ||
              acts[std::stol(op.a[0])].ptr->get_impl()->model_action_ == nullptr)) {
      // the target has not started yet or is already over: nothing to act upon
    } else if (n == "suspend")
      acts[std::stol(op.a[0])].ptr->suspend();
    else if (n == "resume")
      acts[std::stol(op.a[0])].ptr->resume();
    else if (n == "setprio") {
      Act& a = acts[std::stol(op.a[0])];
      if (a.kind == "exec")
        boost::static_pointer_cast<sg4::Exec>(a.ptr)->update_priority(num(op.a[1]));
      else if (a.kind == "io")
        boost::static_pointer_cast<sg4::Io>(a.ptr)->update_priority(num(op.a[1]));
    } else if (n == "setbound") {
      // no public API changes the bound of a running execution: go through the model action, as the kernel would
      Act& a   = acts[std::stol(op.a[0])];
      double b = num(op.a[1]);
      simgrid::kernel::actor::simcall_answered([&a, b] {
        if (a.ptr->get_impl()->model_action_ != nullptr)
          a.ptr->get_impl()->model_action_->set_bound(b);
      });
    } else if (n == "pstate") {
      hosts[std::stoi(op.a[0])]->set_pstate(std::stoul(op.a[1]));
      if (observe)
        emit("{\"e\":\"capchg\",\"t\":" + d2s(sg4::Engine::get_clock()) + ",\"cap\":" + caps_json() + "}");
    }
    else if (n == "off")
      hosts[std::stoi(op.a[0])]->turn_off();
    else if (n == "on")
      hosts[std::stoi(op.a[0])]->turn_on();
    else if (n == "loff")
      links[std::stoi(op.a[0])]->turn_off();
    else if (n == "lon")
      links[std::stoi(op.a[0])]->turn_on();
    else if (n == "sample")
      do_sample(op.a[0]);
    else {
      fprintf(stderr, "surf_driver: unknown op %s\n", n.c_str());
      _exit(4);
    }
  }
}

static void parse(const char* path)
{
  std::ifstream in(path);
  if (!in) {
    fprintf(stderr, "surf_driver: cannot read %s\n", path);
    exit(4);
  }
  std::string line;
  while (std::getline(in, line)) {
    std::istringstream ls(line);
    std::vector<std::string> t;
    std::string w;
    while (ls >> w)
      t.push_back(w);
    if (t.empty() || t[0][0] == '#')
      continue;
    const std::string& k = t[0];
    if (k == "plugin") {
      if (t[1] == "host_energy")
        host_energy = true;
      else
        link_energy = true;
    } else if (k == "host") {
      HostSpec h;
      h.name  = t[1];
      h.cores = std::stoi(t[2]);
      int n   = std::stoi(t[3]);
      for (int i = 0; i < n; i++)
        h.speeds.push_back(num(t[4 + i]));
      hspecs.push_back(h);
    } else if (k == "hprop")
      hspecs[std::stoi(t[1])].props.emplace_back(t[2], t[3]);
    else if (k == "lprop")
      lspecs[std::stoi(t[1])].props.emplace_back(t[2], t[3]);
    else if (k == "hprofile" || k == "lprofile") {
      ProfSpec p;
      p.idx    = std::stoi(t[1]);
      p.what   = t[2];
      p.period = num(t[3]);
      int n    = std::stoi(t[4]);
      std::ostringstream txt;
      for (int i = 0; i < n; i++)
        txt << d2s(num(t[5 + 2 * i])) << " " << d2s(num(t[6 + 2 * i])) << "\n";
      p.text = txt.str();
      (k == "hprofile" ? hprofs : lprofs).push_back(p);
    } else if (k == "link") {
      lspecs.push_back(LinkSpec{t[1], num(t[2]), num(t[3]), t[4], {}});
    } else if (k == "disk") {
      dspecs.push_back(DiskSpec{std::stoi(t[1]), t[2], num(t[3]), num(t[4])});
    } else if (k == "route") {
      RouteSpec r;
      r.src = std::stoi(t[1]);
      r.dst = std::stoi(t[2]);
      int n = std::stoi(t[3]);
      for (int i = 0; i < n; i++)
        r.links.push_back(std::stoi(t[4 + i]));
      rspecs.push_back(r);
    } else if (k == "observe") {
      observe       = true;
      observe_every = t.size() > 1 ? std::stoi(t[1]) : 1;
    }
    else if (k == "actor") {
      ActorSpec a;
      a.host = std::stoi(t[1]);
      actors.push_back(a);
    } else {
      if (actors.empty()) {
        fprintf(stderr, "surf_driver: op '%s' before any actor\n", k.c_str());
        exit(4);
      }
      Op op;
      op.name = k;
      op.a.assign(t.begin() + 1, t.end());
      actors.back().ops.push_back(op);
    }
  }
}

static void on_time_advance(double delta)
{
  std::ostringstream o;
  o << "{\"e\":\"adv\",\"t\":" << d2s(sg4::Engine::get_clock()) << ",\"delta\":" << d2s(delta) << ",\"rem\":{";
  bool first = true;
  advances++;
  for (auto& [id, a] : acts) {
    if (a.logged || a.kind == "ptask" || advances % observe_every != 0)
      continue;
    auto* impl = a.ptr->get_impl();
    if (impl->model_action_ == nullptr)
      continue;
    auto* ma   = impl->model_action_;
    double rem = ma->get_state() == simgrid::kernel::resource::Action::State::STARTED && not ma->is_suspended()
                     ? ma->get_remains()
                     : ma->get_remains_no_update();
    o << (first ? "" : ",") << "\"" << id << "\":" << d2s(rem);
    first = false;
  }
  o << "},\"hload\":[";
  for (size_t i = 0; i < hosts.size(); i++)
    o << (i ? "," : "") << d2s(hosts[i]->get_load());
  o << "],\"lload\":[";
  for (size_t i = 0; i < links.size(); i++)
    o << (i ? "," : "") << d2s(links[i]->get_load());
  o << "],\"cap\":[";
  for (size_t i = 0; i < hosts.size(); i++)
    o << (i ? "," : "") << d2s(hosts[i]->get_speed() * hosts[i]->get_available_speed() * hosts[i]->get_core_count());
  o << "],\"lcap\":[";
  for (size_t i = 0; i < links.size(); i++)
    o << (i ? "," : "") << d2s(links[i]->get_bandwidth());
  o << "],\"avail\":[";
  for (size_t i = 0; i < hosts.size(); i++)
    o << (i ? "," : "") << d2s(hosts[i]->get_available_speed());
  o << "],\"peak\":[";
  for (size_t i = 0; i < hosts.size(); i++)
    o << (i ? "," : "") << d2s(hosts[i]->get_speed());
  o << "]}";
  emit(o.str());
}

static int run_one(int argc, char** argv);

static int run_batch(const char* list, int timeout_s)
{
  std::ifstream in(list);
  if (!in) {
    fprintf(stderr, "surf_driver: cannot read %s\n", list);
    return 4;
  }
  std::string line;
  long idx = 0;
  while (std::getline(in, line)) {
    std::istringstream ls(line);
    std::vector<std::string> t;
    std::string w;
    while (ls >> w)
      t.push_back(w);
    if (t.empty())
      continue;
    printf("{\"e\":\"begin\",\"idx\":%ld}\n", idx);
    fflush(stdout);
    pid_t pid = fork();
    if (pid == 0) {
      prctl(PR_SET_PDEATHSIG, SIGKILL); // never outlive the batch process (a mutated model may loop for ever)
      struct rlimit cpu_limit = {static_cast<rlim_t>(timeout_s) + 5, static_cast<rlim_t>(timeout_s) + 10};
      setrlimit(RLIMIT_CPU, &cpu_limit);
      std::vector<char*> av;
      static std::string self = "surf_driver";
      av.push_back(self.data());
      for (auto& x : t)
        av.push_back(x.data());
      av.push_back(nullptr);
      int rc = run_one(static_cast<int>(av.size()) - 1, av.data());
      fflush(stdout);
      _exit(rc);
    }
    int status    = 0;
    bool finished = false;
    long waited_us = 0;
    while (waited_us < timeout_s * 1000000L) {
      pid_t r = waitpid(pid, &status, WNOHANG);
      if (r == pid) {
        finished = true;
        break;
      }
      long step = waited_us < 20000 ? 200 : 5000;
      usleep(step);
      waited_us += step;
    }
    if (not finished) {
      kill(pid, SIGKILL);
      waitpid(pid, &status, 0);
      printf("{\"e\":\"end\",\"how\":\"hang\"}\n");
    } else if (WIFSIGNALED(status) || (WIFEXITED(status) && WEXITSTATUS(status) != 0))
      printf("{\"e\":\"childstatus\",\"signaled\":%d,\"code\":%d}\n", WIFSIGNALED(status) ? WTERMSIG(status) : 0,
             WIFEXITED(status) ? WEXITSTATUS(status) : -1);
    fflush(stdout);
    idx++;
  }
  return 0;
}

int main(int argc, char** argv)
{
  if (argc >= 3 && std::string(argv[1]) == "--batch")
    return run_batch(argv[2], argc >= 4 ? atoi(argv[3]) : 60);
  return run_one(argc, argv);
}

static int run_one(int argc, char** argv)
{
  if (argc < 2) {
    fprintf(stderr, "usage: surf_driver scenario.txt [--cfg=...]\n");
    return 4;
  }
  parse(argv[1]);
  sg4::Engine e(&argc, argv);
  if (host_energy)
    sg_host_energy_plugin_init();
  if (link_energy)
    sg_link_energy_plugin_init();
  signal(SIGABRT, on_fatal_signal);
  signal(SIGSEGV, on_fatal_signal);
  signal(SIGFPE, on_fatal_signal);
  std::set_terminate([]() {
    log_end("exception");
    _exit(0);
  });

  auto* zone = e.get_netzone_root();
  for (auto const& h : hspecs) {
    auto* host = zone->add_host(h.name, h.speeds);
    host->set_core_count(h.cores);
    for (auto const& [k, v] : h.props)
      host->set_property(k, v);
    hosts.push_back(host);
  }
  int pcount = 0;
  for (auto const& p : hprofs) {
    auto* prof = simgrid::kernel::profile::ProfileBuilder::from_string("hp" + std::to_string(pcount++), p.text, p.period);
    if (p.what == "speed")
      hosts[p.idx]->set_speed_profile(prof);
    else
      hosts[p.idx]->set_state_profile(prof);
  }
  for (auto const& l : lspecs) {
    sg4::Link* link;
    if (l.policy == "SPLITDUPLEX")
      link = zone->add_split_duplex_link(l.name, l.bw);
    else {
      link = zone->add_link(l.name, l.bw);
      if (l.policy == "FATPIPE")
        link->set_sharing_policy(sg4::Link::SharingPolicy::FATPIPE);
    }
    link->set_latency(l.lat);
    for (auto const& [k, v] : l.props)
      link->set_property(k, v);
    links.push_back(link);
  }
  for (auto const& p : lprofs) {
    auto* prof = simgrid::kernel::profile::ProfileBuilder::from_string("lp" + std::to_string(pcount++), p.text, p.period);
    if (p.what == "bw")
      links[p.idx]->set_bandwidth_profile(prof);
    else if (p.what == "lat")
      links[p.idx]->set_latency_profile(prof);
    else
      links[p.idx]->set_state_profile(prof);
  }
  for (auto const& d : dspecs)
    disks.push_back(hosts[d.host]->add_disk(d.name, d.rbw, d.wbw));
  for (auto const& r : rspecs) {
    std::vector<const sg4::Link*> ls;
    for (int i : r.links)
      ls.push_back(links[i]);
    zone->add_route(hosts[r.src], hosts[r.dst], ls);
  }
  zone->seal();

  if (observe) {
    sg4::Engine::on_time_advance_cb(on_time_advance);
    emit("{\"e\":\"cap0\",\"cap\":" + caps_json() + "}");
  }
  sg4::Engine::on_deadlock_cb([]() { log_end("deadlock"); });
  sg4::Engine::on_simulation_end_cb([]() { log_end("normal"); });

  for (size_t i = 0; i < actors.size(); i++)
    hosts[actors[i].host]->add_actor("a" + std::to_string(i), [i]() { run_actor(static_cast<int>(i)); });

  e.run();
  return 0;
}
