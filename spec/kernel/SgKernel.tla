------------------------------- MODULE SgKernel -------------------------------
(* Reference interleaving semantics of the S4U kernel ("maestro") of SimGrid, written with a functional core:     *)
(* the whole abstract kernel state is one record s; a program P is data (per-actor sequences of operations over   *)
(* declared objects); Handle(P, s, a) is the kernel effect of the simcall of actor a at its linearization point   *)
(* (ActorImpl::simcall_handle), FireTimer(P, s, a) the effect of a timeout/sleep completion, Ret(P, s, a) the     *)
(* actor observing the answer.  Modules SgKernelMC (exhaustive exploration) and SgKernelTrace (validation of      *)
(* traces recorded from the real kernel) wrap these operators in TLA+ actions.                                    *)
(*                                                                                                                *)
(* Structured like the implementation (run granularity = one simcall per blocking S4U call, as the code does      *)
(* outside the model checker):                                                                                     *)
(*   MutexImpl::lock_async/try_lock/unlock, SemaphoreImpl::acquire_async/release + SemAcquisitionImpl::wait_for/  *)
(*   finish, ConditionVariableImpl::acquire_async/signal/broadcast + ConditionVariableAcquisitionImpl::finish     *)
(*   (re-lock of the mutex inside the wake-up), BarrierImpl::acquire_async, sleep.                                 *)
EXTENDS Naturals, Integers, Sequences, FiniteSets, TLC

\* ------------------------------------------------------------------ program accessors
Actors(P)   == 1..Len(P.actors)
NOps(P, a)  == Len(P.actors[a])
Mutexes(P)  == 1..Len(P.rec)
Sems(P)     == 1..Len(P.cap)
Cvs(P)      == 1..P.ncv
Bars(P)     == 1..Len(P.bar)
OpOf(P, a, k) == P.actors[a][k]
Cur(P, s, a)  == P.actors[a][s.pc[a]]

NoBlk == [kind |-> "none", o |-> 0, m |-> 0]

\* phases of an actor: "run" (executing user code, will issue operation pc), "issued" (trace mode: simcall issued,
\* not yet handled), "blocked" (simcall handled, not answered), "answered" (answer available, not yet observed),
\* "done" (all operations performed), "dead" (killed)
S0(P) == [ pc   |-> [a \in Actors(P) |-> 1],
           ph   |-> [a \in Actors(P) |-> IF NOps(P, a) = 0 THEN "done" ELSE "run"],
           res  |-> [a \in Actors(P) |-> "none"],      \* result of the current operation once answered
           pres |-> [a \in Actors(P) |-> "none"],      \* result to deliver when the pending mutex re-acquisition succeeds
           blk  |-> [a \in Actors(P) |-> NoBlk],       \* what a blocked actor waits for
           tmr  |-> [a \in Actors(P) |-> -1],          \* absolute date of the pending timer of a (sleep / timeout), -1 if none
           own  |-> [m \in Mutexes(P) |-> 0],          \* owner of mutex m (0 = free)
           dep  |-> [m \in Mutexes(P) |-> 0],          \* recursion depth
           mq   |-> [m \in Mutexes(P) |-> <<>>],       \* FIFO of blocked lockers
           val  |-> [x \in Sems(P) |-> P.cap[x]],      \* free tokens
           sq   |-> [x \in Sems(P) |-> <<>>],          \* FIFO of blocked acquirers
           nrel |-> [x \in Sems(P) |-> 0],             \* ghost: releases handled so far
           ngr  |-> [x \in Sems(P) |-> 0],             \* ghost: tokens granted so far
           cq   |-> [c \in Cvs(P) |-> <<>>],           \* FIFO of waiters, records [a, m]
           bq   |-> [b \in Bars(P) |-> <<>>],          \* actors arrived in the current group
           bgen |-> [b \in Bars(P) |-> 0],             \* ghost: number of complete groups released
           now  |-> 0,
           obs  |-> [a \in Actors(P) |-> <<>>],        \* history: results observed by a
           aborted |-> FALSE, abortedBy |-> 0, undef |-> FALSE ]

\* ------------------------------------------------------------------ helpers
RemoveFirst(seq, x) ==   \* remove the first occurrence of x
  LET idx == { i \in 1..Len(seq) : seq[i] = x } IN
  IF idx = {} THEN seq
  ELSE LET i == CHOOSE j \in idx : \A k \in idx : j <= k IN SubSeq(seq, 1, i - 1) \o SubSeq(seq, i + 1, Len(seq))

Answer(s, a, r) == [s EXCEPT !.ph[a] = "answered", !.res[a] = r, !.tmr[a] = -1, !.blk[a] = NoBlk, !.pres[a] = "none"]
Block(s, a, kind, o, m) == [s EXCEPT !.ph[a] = "blocked", !.blk[a] = [kind |-> kind, o |-> o, m |-> m]]
Abort(s, a) == [s EXCEPT !.aborted = TRUE, !.abortedBy = a]
\* behaviour that neither the listed properties nor POSIX define (relocking a non-recursive mutex one already owns):
\* the semantics stops there; nothing after that point is checked against it
Undef(s, a) == [s EXCEPT !.aborted = TRUE, !.abortedBy = a, !.undef = TRUE]

\* lock_async(m) + wait_for: a obtains m now, or queues; r is the result delivered once m is acquired
LockFor(P, s, a, m, r) ==
  IF s.own[m] = 0 THEN Answer([s EXCEPT !.own[m] = a, !.dep[m] = 1], a, r)
  ELSE IF s.own[m] = a /\ P.rec[m] THEN Answer([s EXCEPT !.dep[m] = @ + 1], a, r)
  ELSE Block([s EXCEPT !.mq[m] = Append(@, a), !.pres[a] = r, !.tmr[a] = -1], a, "mutex", m, 0)

\* MutexImpl::unlock by the owner a (the caller is answered by the caller of this operator)
UnlockBy(P, s, a, m) ==
  IF P.rec[m] /\ s.dep[m] > 1 THEN [s EXCEPT !.dep[m] = @ - 1]
  ELSE IF s.mq[m] = <<>> THEN [s EXCEPT !.own[m] = 0, !.dep[m] = 0]
  ELSE LET b == Head(s.mq[m]) IN
       Answer([s EXCEPT !.own[m] = b, !.dep[m] = 1, !.mq[m] = Tail(@)], b, s.pres[b])

\* ConditionVariableImpl::signal: the oldest waiter leaves the condition and turns into a locker of its mutex
CvWake(P, s, c) ==
  IF s.cq[c] = <<>> THEN s
  ELSE LET w == Head(s.cq[c]) IN LockFor(P, [s EXCEPT !.cq[c] = Tail(@), !.tmr[w.a] = -1], w.a, w.m, "ok")

RECURSIVE CvWakeAll(_, _, _)
CvWakeAll(P, s, c) == IF s.cq[c] = <<>> THEN s ELSE CvWakeAll(P, CvWake(P, s, c), c)

RECURSIVE AnswerAll(_, _, _)
AnswerAll(s, seq, r) == IF seq = <<>> THEN s ELSE AnswerAll(Answer(s, Head(seq), r), Tail(seq), r)

\* ------------------------------------------------------------------ the kernel effect of a simcall
\* Pre: s.ph[a] \in {"run","issued"} and s.pc[a] <= NOps(P,a) and ~s.aborted
Handle(P, s, a) ==
  LET op == Cur(P, s, a)   k == op.op   o == op.o IN
  CASE k = "lock"    -> IF s.own[o] = a /\ ~P.rec[o] THEN Undef(s, a) ELSE LockFor(P, s, a, o, "ok")
    [] k = "trylock" ->
         IF s.own[o] = 0 THEN Answer([s EXCEPT !.own[o] = a, !.dep[o] = 1], a, "true")
         ELSE IF s.own[o] = a /\ P.rec[o] THEN Answer([s EXCEPT !.dep[o] = @ + 1], a, "true")
         ELSE Answer(s, a, "false")
    [] k = "unlock"  ->
         IF s.own[o] # a THEN Abort(s, a)                  \* xbt_assert in MutexImpl::unlock: never a silent release
         ELSE Answer(UnlockBy(P, s, a, o), a, "ok")
    [] k \in {"acq", "acqt"} ->
         IF s.val[o] > 0 THEN Answer([s EXCEPT !.val[o] = @ - 1, !.ngr[o] = @ + 1], a, "ok")
         \* a timeout of 0 is a timer that is due at once: timeout iff no token is granted "within 0"
         ELSE Block([s EXCEPT !.sq[o] = Append(@, a), !.tmr[a] = IF k = "acqt" THEN s.now + op.t ELSE -1], a, "sem", o, 0)
    [] k = "rel" ->
         IF s.sq[o] = <<>> THEN Answer([s EXCEPT !.val[o] = @ + 1, !.nrel[o] = @ + 1], a, "ok")
         ELSE LET b == Head(s.sq[o]) IN
              Answer(Answer([s EXCEPT !.sq[o] = Tail(@), !.nrel[o] = @ + 1, !.ngr[o] = @ + 1], b, "ok"), a, "ok")
    [] k \in {"cvwait", "cvwaitfor"} ->
         IF s.own[op.p] # a THEN Abort(s, a)                 \* xbt_assert in do_wait / acquire_async
         ELSE LET u == UnlockBy(P, s, a, op.p) IN
              Block([u EXCEPT !.cq[o] = Append(@, [a |-> a, m |-> op.p]),
                                   !.tmr[a] = IF k = "cvwaitfor" THEN s.now + op.t ELSE -1], a, "cv", o, op.p)
    [] k = "sig"   -> Answer(CvWake(P, s, o), a, "ok")
    [] k = "bcast" -> Answer(CvWakeAll(P, s, o), a, "ok")
    [] k = "bar" ->
         IF Len(s.bq[o]) < P.bar[o] - 1 THEN Block([s EXCEPT !.bq[o] = Append(@, a)], a, "bar", o, 0)
         ELSE Answer(AnswerAll([s EXCEPT !.bq[o] = <<>>, !.bgen[o] = @ + 1], s.bq[o], "ok"), a, "ok")
    [] k = "sleep" -> Block([s EXCEPT !.tmr[a] = s.now + op.t], a, "sleep", 0, 0)
    [] k = "yield" -> Answer(s, a, "ok")
    [] OTHER -> Abort(s, a)

\* ------------------------------------------------------------------ time
Ready(s, a)     == s.ph[a] \in {"run", "issued", "answered"}
SomeReady(P, s) == \E a \in Actors(P) : Ready(s, a)
TimerDates(P, s) == { s.tmr[a] : a \in { b \in Actors(P) : s.tmr[b] >= 0 } }
MinDate(S) == CHOOSE d \in S : \A e \in S : d <= e
Due(s, a)  == s.tmr[a] >= 0 /\ s.tmr[a] <= s.now

\* the clock jumps to the earliest pending date, only when no actor can run and nothing is due
CanAdvance(P, s) == ~s.aborted /\ ~SomeReady(P, s) /\ TimerDates(P, s) # {} /\ \A d \in TimerDates(P, s) : d > s.now
Advance(P, s)    == [s EXCEPT !.now = MinDate(TimerDates(P, s))]

\* completion of the sleep / timeout of actor a (pre: Due(s, a) /\ s.ph[a] = "blocked")
FireTimer(P, s, a) ==
  LET b == s.blk[a] IN
  CASE b.kind = "sleep" -> Answer(s, a, "ok")
    [] b.kind = "sem"   -> Answer([s EXCEPT !.sq[b.o] = RemoveFirst(@, a)], a, "timeout")
    [] b.kind = "cv"    -> LockFor(P, [s EXCEPT !.cq[b.o] = RemoveFirst(@, [a |-> a, m |-> b.m]), !.tmr[a] = -1], a, b.m, "timeout")
    [] OTHER -> s

\* the actor observes the answer and goes on (pre: s.ph[a] = "answered").  A failed "trylock?" (p = 1) skips the next
\* operation of the actor (its matching unlock); obs gets a "skip" entry so that obs stays aligned with the program.
Ret(P, s, a) ==
  LET op   == Cur(P, s, a)
      skip == op.op = "trylock" /\ op.p = 1 /\ s.res[a] = "false" /\ s.pc[a] + 1 <= NOps(P, a)
      npc  == s.pc[a] + (IF skip THEN 2 ELSE 1) IN
  [s EXCEPT !.obs[a] = Append(@, s.res[a]) \o (IF skip THEN <<"skip">> ELSE <<>>), !.res[a] = "none", !.pc[a] = npc,
            !.ph[a] = IF npc > NOps(P, a) THEN "done" ELSE "run"]

\* EngineImpl::run reports a deadlock when nothing can happen any more and some actor is not finished
Terminal(P, s)   == ~SomeReady(P, s) /\ TimerDates(P, s) = {}
Deadlocked(P, s) == ~s.aborted /\ Terminal(P, s) /\ \E a \in Actors(P) : s.ph[a] = "blocked"
AllDone(P, s)    == \A a \in Actors(P) : s.ph[a] \in {"done", "dead"}

\* ------------------------------------------------------------------ properties (state predicates over (P, s))
\* completed successful acquisitions minus completed releases of m by a, read from the actor's own history
RECURSIVE HeldCount(_, _, _, _, _)
HeldCount(P, s, a, m, k) ==    \* over operations 1..k of a (all completed)
  IF k = 0 THEN 0
  ELSE LET op == OpOf(P, a, k)  r == s.obs[a][k] IN
       HeldCount(P, s, a, m, k - 1)
       + (IF op.op = "lock" /\ op.o = m /\ r = "ok" THEN 1 ELSE 0)
       + (IF op.op = "trylock" /\ op.o = m /\ r = "true" THEN 1 ELSE 0)
       - (IF op.op = "unlock" /\ op.o = m /\ r = "ok" THEN 1 ELSE 0)

\* C04: what the actors have observed determines who owns each mutex and how deep: exclusion, ownership kept until
\* the n-th unlock, no acquisition reported to a non-owner.  Stated for actors between two operations.
MutexOwnership(P, s) ==
  \A m \in Mutexes(P) : \A a \in Actors(P) :
     s.ph[a] \in {"run", "done"} =>
       LET h == HeldCount(P, s, a, m, Len(s.obs[a])) IN
       /\ h >= 0
       /\ (h > 0 => s.own[m] = a /\ s.dep[m] = h)
       /\ (h = 0 => s.own[m] # a)
MutexExclusion(P, s) ==
  \A m \in Mutexes(P) :
     /\ Cardinality({ a \in Actors(P) : s.ph[a] \in {"run", "done"} /\ HeldCount(P, s, a, m, Len(s.obs[a])) > 0 }) <= 1
     /\ (s.own[m] = 0) = (s.dep[m] = 0)
     /\ (~P.rec[m] => s.dep[m] <= 1)
     /\ (s.own[m] = 0 => s.mq[m] = <<>>)                 \* nobody waits for a free mutex (no lost hand-off)
     /\ \A i \in 1..Len(s.mq[m]) : s.ph[s.mq[m][i]] = "blocked" /\ s.blk[s.mq[m][i]].kind = "mutex"

\* C05: token conservation; the capacity is the difference when nobody waits; nobody waits while tokens are free
SemConservation(P, s) ==
  \A x \in Sems(P) :
     /\ s.val[x] >= 0
     /\ s.val[x] = P.cap[x] + s.nrel[x] - s.ngr[x]
     /\ s.ngr[x] <= P.cap[x] + s.nrel[x]
     /\ (s.val[x] > 0 => s.sq[x] = <<>>)
     /\ \A i \in 1..Len(s.sq[x]) : s.ph[s.sq[x][i]] = "blocked" /\ s.blk[s.sq[x][i]].kind = "sem"

\* C06: a waiter is in exactly one place: on the condition, or queued on / owning its mutex; it never owns the mutex
\* while still waiting on the condition
CvConsistency(P, s) ==
  \A c \in Cvs(P) : \A i \in 1..Len(s.cq[c]) :
     LET w == s.cq[c][i] IN s.ph[w.a] = "blocked" /\ s.blk[w.a].kind = "cv" /\ s.blk[w.a].o = c

\* C07: a barrier never holds a complete group
BarrierGroups(P, s) ==
  \A b \in Bars(P) : Len(s.bq[b]) < P.bar[b] /\ \A i \in 1..Len(s.bq[b]) : s.ph[s.bq[b][i]] = "blocked"

\* every blocked actor is blocked on something that exists, answered actors carry a result
PhaseConsistency(P, s) ==
  \A a \in Actors(P) :
     /\ (s.ph[a] = "blocked") = (s.blk[a].kind # "none")
     /\ (s.ph[a] = "answered") = (s.res[a] # "none")
     /\ (s.tmr[a] >= 0 => s.ph[a] = "blocked" /\ s.blk[a].kind \in {"sleep", "sem", "cv"})
     /\ s.tmr[a] # -1 => s.tmr[a] >= s.now          \* C03: no pending date in the past

KernelInv(P, s) == /\ MutexOwnership(P, s) /\ MutexExclusion(P, s) /\ SemConservation(P, s)
                   /\ CvConsistency(P, s) /\ BarrierGroups(P, s) /\ PhaseConsistency(P, s)

\* what an execution leaves behind (C14 / C38: set of terminal outcomes)
Outcome(P, s) == [ obs |-> s.obs, ph |-> s.ph, blk |-> [a \in Actors(P) |-> s.blk[a].kind],
                   end |-> IF s.undef THEN "undefined" ELSE IF s.aborted THEN "abort" ELSE IF Deadlocked(P, s) THEN "deadlock" ELSE "normal" ]
=============================================================================
