------------------------------- MODULE SgKernel -------------------------------
(* Reference interleaving semantics of the S4U kernel ("maestro") of SimGrid, written with a functional core:     *)
(* the whole abstract kernel state is one record s; a program P is data (per-actor sequences of operations over   *)
(* declared objects); Handle(P, s, a) is the kernel effect of the simcall of actor a at its linearization point   *)
(* (ActorImpl::simcall_handle), FireTimer(P, s, a) the effect of a timeout/sleep completion, Ret(P, s, a) the     *)
(* actor observing the answer.  Modules SgKernelMC (exhaustive exploration) and SgKernelTrace (validation of      *)
(* traces recorded from the real kernel) wrap these operators in TLA+ actions.                                    *)
(*                                                                                                                *)
(* Structured like the implementation (run granularity = one simcall per blocking S4U call, as the code does      *)
(* outside the model checker):                                                                                     *)
(*   MutexImpl::lock_async/try_lock/unlock, SemaphoreImpl::acquire_async/release + SemAcquisitionImpl::wait_for/  *)
(*   finish, ConditionVariableImpl::acquire_async/signal/broadcast + ConditionVariableAcquisitionImpl::finish     *)
(*   (re-lock of the mutex inside the wake-up), BarrierImpl::acquire_async, sleep.                                 *)
EXTENDS Naturals, Integers, Sequences, FiniteSets, TLC

\* ------------------------------------------------------------------ program accessors
Actors(P)   == 1..Len(P.actors)
NOps(P, a)  == Len(P.actors[a])
Mutexes(P)  == 1..Len(P.rec)
Sems(P)     == 1..Len(P.cap)
Cvs(P)      == 1..P.ncv
Bars(P)     == 1..Len(P.bar)
Mboxes(P)   == 1..Len(P.perm)          \* P.perm[b] = permanent receiver of mailbox b (0 = none)
Mqs(P)      == 1..P.nmq
OpOf(P, a, k) == P.actors[a][k]
Cur(P, s, a)  == P.actors[a][s.pc[a]]

NoBlk == [kind |-> "none", o |-> 0, m |-> 0]

\* phases of an actor: "unborn" (will be created by another actor), "run" (executing user code, will issue operation pc),
\* "issued" (trace mode: simcall issued, not yet handled), "blocked" (simcall handled, not answered), "answered" (answer
\* available, not yet observed), "dying" (killed, will run once more to die), "exiting" (running its on_exit callbacks),
\* "done" (all operations performed), "dead" (killed)
S0(P) == [ pc   |-> [a \in Actors(P) |-> 1],
           ph   |-> [a \in Actors(P) |-> IF P.spawn[a] THEN "unborn" ELSE IF NOps(P, a) = 0 THEN "done" ELSE "run"],
           res  |-> [a \in Actors(P) |-> "none"],      \* result of the current operation once answered
           pres |-> [a \in Actors(P) |-> "none"],      \* result to deliver when the pending mutex re-acquisition succeeds
           blk  |-> [a \in Actors(P) |-> NoBlk],       \* what a blocked actor waits for
           tmr  |-> [a \in Actors(P) |-> -1],          \* absolute date of the pending timer of a (sleep / timeout), -1 if none
           own  |-> [m \in Mutexes(P) |-> 0],          \* owner of mutex m (0 = free)
           dep  |-> [m \in Mutexes(P) |-> 0],          \* recursion depth
           mq   |-> [m \in Mutexes(P) |-> <<>>],       \* FIFO of blocked lockers
           val  |-> [x \in Sems(P) |-> P.cap[x]],      \* free tokens
           sq   |-> [x \in Sems(P) |-> <<>>],          \* FIFO of blocked acquirers
           nrel |-> [x \in Sems(P) |-> 0],             \* ghost: releases handled so far
           ngr  |-> [x \in Sems(P) |-> 0],             \* ghost: tokens granted so far
           cq   |-> [c \in Cvs(P) |-> <<>>],           \* FIFO of waiters, records [a, m]
           bq   |-> [b \in Bars(P) |-> <<>>],          \* actors arrived in the current group
           bgen |-> [b \in Bars(P) |-> 0],             \* ghost: number of complete groups released
           act  |-> <<>>,                              \* activities (communications, messages, executions) by creation order
           mbq  |-> [b \in Mboxes(P) |-> <<>>],        \* unmatched communications queued in mailbox b (ids, arrival order)
           mdone |-> [b \in Mboxes(P) |-> <<>>],       \* mailbox with a permanent receiver: sends already started
           mqq  |-> [q \in Mqs(P) |-> <<>>],           \* unmatched messages queued in message queue q
           hnd  |-> [a \in Actors(P) |-> <<>>],        \* handles of the asynchronous activities of a, by creation order
           cur  |-> [a \in Actors(P) |-> 0],           \* activity of the blocking operation in progress
           sub  |-> [a \in Actors(P) |-> 1],           \* simcall number inside the current operation (put = isend + wait...)
           rval |-> [a \in Actors(P) |-> 0],           \* value part of the answer (payload id)
           oe   |-> [a \in Actors(P) |-> <<>>],        \* on_exit callbacks registered by a (ids, registration order)
           oex  |-> [a \in Actors(P) |-> <<>>],        \* callbacks still to run while a is exiting (execution order)
           oerun |-> [a \in Actors(P) |-> <<>>],       \* ghost: callbacks run so far
           dmn  |-> [a \in Actors(P) |-> FALSE],       \* daemon
           kt   |-> [a \in Actors(P) |-> -1],          \* kill time (absolute date), -1 = none
           gr   |-> [a \in Actors(P) |-> FALSE],       \* MC granularity: the pending acquisition of a has been granted
           rv   |-> [a \in Actors(P) |-> -1],          \* MC granularity: outcome chosen for the pending MC_random of a (-1: none)
           susp |-> [a \in Actors(P) |-> FALSE],       \* a is suspended (Actor::suspend): it observes nothing until resumed
           ar   |-> [a \in Actors(P) |-> FALSE],       \* a start record of a is kept by its host (Actor::set_auto_restart)
           aron |-> [a \in Actors(P) |-> FALSE],       \* the current incarnation of a has the auto-restart flag
           arl  |-> [a \in Actors(P) |-> <<>>],        \* callbacks the next incarnation inherits (list of the registering one)
           ark  |-> [a \in Actors(P) |-> -1],          \* kill time / daemon flag recorded with the start record
           ard  |-> [a \in Actors(P) |-> FALSE],
           inc  |-> [a \in Actors(P) |-> 0],           \* number of restarts of the slot (an actor handle designates one incarnation)
           tgi  |-> [a \in Actors(P) |-> 0],           \* trace mode: incarnation of the target when a issued its pending operation
           reg  |-> [a \in Actors(P) |-> FALSE],       \* the current incarnation is the one whose callback list the record shares
           hoff |-> [a \in Actors(P) |-> FALSE],       \* host of actor a (one host per actor) is off
           loff |-> FALSE,                             \* the link is off
           now  |-> 0,
           obs  |-> [a \in Actors(P) |-> <<>>],        \* history: results observed by a
           ov   |-> [a \in Actors(P) |-> <<>>],        \* history: values observed by a (payload received, 0 otherwise)
           aborted |-> FALSE, abortedBy |-> 0, undef |-> FALSE ]

\* ------------------------------------------------------------------ helpers
RemoveFirst(seq, x) ==   \* remove the first occurrence of x
  LET idx == { i \in 1..Len(seq) : seq[i] = x } IN
  IF idx = {} THEN seq
  ELSE LET i == CHOOSE j \in idx : \A k \in idx : j <= k IN SubSeq(seq, 1, i - 1) \o SubSeq(seq, i + 1, Len(seq))

Answer(s, a, r) == [s EXCEPT !.ph[a] = "answered", !.res[a] = r, !.tmr[a] = -1, !.blk[a] = NoBlk, !.pres[a] = "none"]
AnswerV(s, a, r, v) == [Answer(s, a, r) EXCEPT !.rval[a] = v]
Block(s, a, kind, o, m) == [s EXCEPT !.ph[a] = "blocked", !.blk[a] = [kind |-> kind, o |-> o, m |-> m]]
Abort(s, a) == [s EXCEPT !.aborted = TRUE, !.abortedBy = a]
\* behaviour that neither the listed properties nor POSIX define (relocking a non-recursive mutex one already owns):
\* the semantics stops there; nothing after that point is checked against it
Undef(s, a) == [s EXCEPT !.aborted = TRUE, !.abortedBy = a, !.undef = TRUE]

\* lock_async(m) + wait_for: a obtains m now, or queues; r is the result delivered once m is acquired
LockFor(P, s, a, m, r) ==
  IF s.own[m] = 0 THEN Answer([s EXCEPT !.own[m] = a, !.dep[m] = 1], a, r)
  ELSE IF s.own[m] = a /\ P.rec[m] THEN Answer([s EXCEPT !.dep[m] = @ + 1], a, r)
  ELSE Block([s EXCEPT !.mq[m] = Append(@, a), !.pres[a] = r, !.tmr[a] = -1], a, "mutex", m, 0)

\* MutexImpl::unlock by the owner a (the caller is answered by the caller of this operator)
UnlockBy(P, s, a, m) ==
  IF P.rec[m] /\ s.dep[m] > 1 THEN [s EXCEPT !.dep[m] = @ - 1]
  ELSE IF s.mq[m] = <<>> THEN [s EXCEPT !.own[m] = 0, !.dep[m] = 0]
  ELSE LET b == Head(s.mq[m])
           n == [s EXCEPT !.own[m] = b, !.dep[m] = 1, !.mq[m] = Tail(@)] IN
       IF s.ph[b] = "blocked" THEN Answer(n, b, s.pres[b]) ELSE n    \* MC granularity: b has a MUTEX_WAIT pending

\* ConditionVariableImpl::signal: the oldest waiter leaves the condition and turns into a locker of its mutex
CvWake(P, s, c) ==
  IF s.cq[c] = <<>> THEN s
  ELSE LET w == Head(s.cq[c]) IN
       IF s.ph[w.a] = "blocked" THEN LockFor(P, [s EXCEPT !.cq[c] = Tail(@), !.tmr[w.a] = -1], w.a, w.m, "ok")
       ELSE [s EXCEPT !.cq[c] = Tail(@), !.gr[w.a] = TRUE]     \* MC granularity: its CONDVAR_WAIT becomes enabled

RECURSIVE CvWakeAll(_, _, _)
CvWakeAll(P, s, c) == IF s.cq[c] = <<>> THEN s ELSE CvWakeAll(P, CvWake(P, s, c), c)

RECURSIVE AnswerAll(_, _, _)
AnswerAll(s, seq, r) == IF seq = <<>> THEN s ELSE AnswerAll(Answer(s, Head(seq), r), Tail(seq), r)

\* ------------------------------------------------------------------ activities: communications, messages, executions
\* kind "comm" | "mess" | "exec"; st "wait" (unmatched) | "run" (matched / started, in flight) | "done" | "canceled";
\* src / dst = actors (0 = side not there yet); fin = completion date when it is known (timed programs: one dedicated
\* FATPIPE link, CM02 without latency: a communication lasts exactly its size; an execution lasts exactly its amount on a
\* host that runs nothing else), -1 when the completion date is left free (shared resources).
\* rp = the receiving side has been posted by its actor (a send started eagerly towards a permanent receiver is not yet
\* one of the receiver's activities)
NewAct(kind, mb, src, dst, pay, sz, st, det, fin) ==
  [kind |-> kind, mb |-> mb, src |-> src, dst |-> dst, pay |-> pay, sz |-> sz, st |-> st, det |-> det, fin |-> fin,
   rp |-> (src = 0), doom |-> FALSE, tag |-> 0, flt |-> 0, ffd |-> -1]     \* ffd: date at which it failed     \* tag: match data of the sender; flt: filter of the receiver
PayloadId(s, a) == a * 1000 + s.pc[a]                       \* the driver builds the same identifier
FinDate(P, s, d) == IF P.timed THEN s.now + P.lat + d ELSE -1      \* CM02, factors 1: latency + size / bandwidth
StartSt(s) == IF s.loff THEN "failed" ELSE "run"          \* CommImpl::start: a failed link is detected immediately
StartSt2(s, x, y) == IF s.loff \/ s.hoff[x] \/ s.hoff[y] THEN "failed" ELSE "run"   \* ... and so is a dead peer host
FirstIdx(s, q, Test(_)) == LET I == { i \in 1..Len(q) : Test(s.act[q[i]]) } IN
                           IF I = {} THEN 0 ELSE CHOOSE i \in I : \A j \in I : i <= j
RemoveAt(q, i) == SubSeq(q, 1, i - 1) \o SubSeq(q, i + 1, Len(q))
IsRecv(c) == c.src = 0
IsSend(c) == c.dst = 0
\* match filters (MailboxImpl::find_matching_comm applies the filter of both sides): a filtered receive accepts only the sends
\* carrying its tag; unfiltered requests accept everything
Accepts(flt, tag) == flt = 0 \/ flt = tag
Waiters(P, s, c) == { a \in Actors(P) : s.ph[a] = "blocked" /\ s.blk[a].kind = "act" /\ s.blk[a].o = c }

RECURSIVE FailWaiters(_, _, _)
FailWaiters(s, as, r) == IF as = {} THEN s ELSE LET a == CHOOSE x \in as : TRUE IN FailWaiters(Answer(s, a, r), as \ {a}, r)
\* what the waiter of a finished activity gets: the receiver of a communication / message gets the payload
\* (blk.m = 1: the actor waits through the receiving side; an actor may send to itself)
WaitResult(s, a, c) == IF s.act[c].kind \in {"comm", "mess"} /\ s.blk[a].m = 1 THEN s.act[c].pay ELSE 0
RECURSIVE AnswerWaiters(_, _, _)
AnswerWaiters(s, as, c) == IF as = {} THEN s
                           ELSE LET a == CHOOSE x \in as : TRUE IN
                                AnswerWaiters(AnswerV(s, a, "ok", WaitResult(s, a, c)), as \ {a}, c)
\* completion of a running activity: every actor blocked on it is answered (CommImpl::finish / ExecImpl::finish)
\* (doom: a detached send whose source host died keeps flying and fails when it reaches its natural completion date:
\* CommImpl::finish looks at the hosts then)
Complete(P, s, c) == IF s.act[c].doom THEN FailWaiters([s EXCEPT !.act[c].st = "failed", !.act[c].ffd = s.now], Waiters(P, s, c), "network_failure")
                     ELSE AnswerWaiters([s EXCEPT !.act[c].st = "done"], Waiters(P, s, c), c)

\* CommImpl::isend on mailbox b: first queued receive in arrival order, else queue (or start at once towards the
\* permanent receiver).  Returns the new state with s.cur[a] = the communication.
IsendT(P, s, a, b, sz, det, tag) ==
  LET i == FirstIdx(s, s.mbq[b], LAMBDA c : IsRecv(c) /\ Accepts(c.flt, tag)) IN
  IF i # 0 THEN LET c == s.mbq[b][i] IN
       [s EXCEPT !.mbq[b] = RemoveAt(@, i), !.act[c].src = a, !.act[c].pay = PayloadId(s, a), !.act[c].sz = sz, !.act[c].tag = tag,
                 !.act[c].st = StartSt2(s, a, s.act[c].dst), !.act[c].det = det, !.act[c].fin = FinDate(P, s, sz), !.cur[a] = c]
  ELSE LET c == Len(s.act) + 1 IN
       IF P.perm[b] # 0
       THEN [s EXCEPT !.act = Append(@, NewAct("comm", b, a, P.perm[b], PayloadId(s, a), sz, StartSt(s), det, FinDate(P, s, sz))),
                      !.mdone[b] = Append(@, c), !.cur[a] = c]
       ELSE [s EXCEPT !.act = Append(@, [NewAct("comm", b, a, 0, PayloadId(s, a), sz, "wait", det, -1) EXCEPT !.tag = tag]),
                      !.mbq[b] = Append(@, c), !.cur[a] = c]
\* CommImpl::irecv: a mailbox with a permanent receiver serves its started sends first
IrecvF(P, s, a, b, flt) ==
  LET d == IF P.perm[b] # 0 /\ s.mdone[b] # <<>> THEN 1 ELSE 0
      i == IF d = 1 THEN 0 ELSE FirstIdx(s, s.mbq[b], LAMBDA c : IsSend(c) /\ Accepts(flt, c.tag)) IN
  IF d = 1 THEN LET c == Head(s.mdone[b]) IN [s EXCEPT !.mdone[b] = Tail(@), !.act[c].dst = a, !.act[c].rp = TRUE, !.cur[a] = c]
  ELSE IF i # 0 THEN LET c == s.mbq[b][i] IN
       [s EXCEPT !.mbq[b] = RemoveAt(@, i), !.act[c].dst = a, !.act[c].rp = TRUE, !.act[c].st = StartSt2(s, s.act[c].src, a), !.act[c].flt = flt,
                 !.act[c].fin = FinDate(P, s, s.act[c].sz), !.cur[a] = c]
  ELSE LET c == Len(s.act) + 1 IN
       [s EXCEPT !.act = Append(@, [NewAct("comm", b, 0, a, 0, 0, "wait", FALSE, -1) EXCEPT !.flt = flt]), !.mbq[b] = Append(@, c), !.cur[a] = c]
Isend(P, s, a, b, sz, det) == IsendT(P, s, a, b, sz, det, 0)
Irecv(P, s, a, b) == IrecvF(P, s, a, b, 0)
\* a communication that fails as soon as it starts (link off) releases the actor already blocked on its other side
RECURSIVE FailedStart(_, _)
FailedStart(P, s) ==
  LET bad == { c \in 1..Len(s.act) : s.act[c].st = "failed" /\ Waiters(P, s, c) # {} } IN
  IF bad = {} THEN s
  ELSE LET c == CHOOSE x \in bad : TRUE IN FailedStart(P, FailWaiters(s, Waiters(P, s, c), "network_failure"))
\* MessImpl::iput / iget: a matched message is done at once (no simulated duration)
Iput(P, s, a, q) ==
  LET i == FirstIdx(s, s.mqq[q], IsRecv) IN
  IF i # 0 THEN LET c == s.mqq[q][i] IN
       Complete(P, [s EXCEPT !.mqq[q] = RemoveAt(@, i), !.act[c].src = a, !.act[c].pay = PayloadId(s, a), !.cur[a] = c], c)
  ELSE LET c == Len(s.act) + 1 IN
       [s EXCEPT !.act = Append(@, NewAct("mess", q, a, 0, PayloadId(s, a), 0, "wait", FALSE, -1)), !.mqq[q] = Append(@, c), !.cur[a] = c]
Iget(P, s, a, q) ==
  LET i == FirstIdx(s, s.mqq[q], IsSend) IN
  IF i # 0 THEN LET c == s.mqq[q][i] IN
       Complete(P, [s EXCEPT !.mqq[q] = RemoveAt(@, i), !.act[c].dst = a, !.act[c].rp = TRUE, !.cur[a] = c], c)
  ELSE LET c == Len(s.act) + 1 IN
       [s EXCEPT !.act = Append(@, NewAct("mess", q, 0, a, 0, 0, "wait", FALSE, -1)), !.mqq[q] = Append(@, c), !.cur[a] = c]
\* ActivityImpl::wait_for on activity c with timeout t (-1 = none)
WaitAct(P, s, a, c, t, r) ==     \* r: waiting through the receiving side
  IF s.act[c].st = "done" THEN AnswerV(s, a, "ok", IF r THEN s.act[c].pay ELSE 0)
  ELSE IF s.act[c].st = "canceled" THEN Answer(s, a, "cancel")
  ELSE IF s.act[c].st = "failed" THEN Answer(s, a, "network_failure")
  ELSE Block([s EXCEPT !.tmr[a] = IF t >= 0 THEN s.now + t ELSE -1], a, "act", c, IF r THEN 1 ELSE 0)
\* An actor that terminates cancels the activities it still takes part in (ActorImpl::cleanup: activities_): an unmatched
\* one leaves its queue; a communication in flight fails and the actor blocked on its other side gets a network failure.
Mine(s, a) == { c \in 1..Len(s.act) : /\ s.act[c].st \in {"wait", "run"}
                                       /\ \/ s.act[c].src = a /\ ~s.act[c].det
                                          \/ s.act[c].dst = a /\ s.act[c].rp }
CancelAct(P, s, c) ==
  LET k == s.act[c] IN
  IF P.gran = "mc" /\ k.kind = "comm" THEN s    \* under the model checker a started communication is RUNNING even when
                                                \* unmatched, and CommImpl::cancel has no model action to cancel: it stays
  ELSE IF k.st = "wait"
  THEN IF k.kind = "comm" THEN [s EXCEPT !.act[c].st = "canceled", !.mbq[k.mb] = RemoveFirst(@, c)]
       ELSE [s EXCEPT !.act[c].st = "canceled", !.mqq[k.mb] = RemoveFirst(@, c)]
  ELSE IF k.kind = "comm" THEN FailWaiters([s EXCEPT !.act[c].st = "failed", !.act[c].ffd = s.now], Waiters(P, s, c), "network_failure")
  ELSE [s EXCEPT !.act[c].st = "canceled"]
RECURSIVE CancelAll(_, _, _)
CancelAll(P, s, cs) == IF cs = {} THEN s ELSE LET c == CHOOSE x \in cs : TRUE IN CancelAll(P, CancelAct(P, s, c), cs \ {c})
ExitCleanup(P, s, a) == CancelAll(P, s, Mine(s, a))

\* ------------------------------------------------------------------ actor lifecycle (C11)
Alive(s, a)  == s.ph[a] \in {"run", "issued", "blocked", "answered", "dying", "exiting"}
Reverse(q)   == [i \in 1..Len(q) |-> q[Len(q) + 1 - i]]
Joiners(P, s, x) == { a \in Actors(P) : s.ph[a] = "blocked" /\ s.blk[a].kind = "join" /\ s.blk[a].o = x }
RECURSIVE AnswerSet(_, _, _)
AnswerSet(s, as, r) == IF as = {} THEN s ELSE LET a == CHOOSE x \in as : TRUE IN AnswerSet(Answer(s, a, r), as \ {a}, r)
\* the actor is gone: its joiners are released, what it still took part in is cancelled
Finish(P, s, a, how) ==
  AnswerSet(ExitCleanup(P, [s EXCEPT !.ph[a] = how, !.arl[a] = IF s.reg[a] THEN s.oe[a] ELSE @, !.reg[a] = FALSE, !.aron[a] = FALSE, !.kt[a] = -1, !.tmr[a] = -1, !.blk[a] = NoBlk, !.susp[a] = FALSE], a),
            Joiners(P, s, a), "ok")
\* ActorImpl::exit(): the victim leaves every queue, its pending timer is dropped, its activities are cancelled; it will run
\* once more, only to die (ForcefulKillException)
KillActor(P, s, t) ==
  IF ~Alive(s, t) \/ s.ph[t] \in {"dying", "exiting"} THEN s
  ELSE IF s.ph[t] = "run" /\ s.pc[t] = 1 /\ s.sub[t] = 1 /\ s.oe[t] = <<>>
  THEN Finish(P, s, t, "dead")      \* created but never scheduled: it dies without running any code (a restarted incarnation
                                    \* still runs the callbacks it inherited: general case below)
  ELSE LET b == s.blk[t]
           q == CASE b.kind = "sem" -> [s EXCEPT !.sq[b.o] = RemoveFirst(@, t)]
                  [] b.kind = "cv"  -> [s EXCEPT !.cq[b.o] = RemoveFirst(@, [a |-> t, m |-> b.m])]
                  [] b.kind = "mutex" -> [s EXCEPT !.mq[b.o] = RemoveFirst(@, t)]
                  [] b.kind = "bar" -> [s EXCEPT !.bq[b.o] = RemoveFirst(@, t)]
                  [] OTHER -> s IN
       CancelAll(P, [q EXCEPT !.ph[t] = "dying", !.blk[t] = NoBlk, !.tmr[t] = -1, !.res[t] = "none", !.pres[t] = "none",
                              !.kt[t] = -1, !.susp[t] = FALSE], Mine(q, t))      \* (a killed actor is resumed first)
RECURSIVE KillSet(_, _, _)
KillSet(P, s, ts) == IF ts = {} THEN s ELSE LET t == CHOOSE x \in ts : TRUE IN KillSet(P, KillActor(P, s, t), ts \ {t})
\* ------------------------------------------------------------------ resource failures (C10)
Running(s)     == { c \in 1..Len(s.act) : s.act[c].st = "run" }
RECURSIVE FailSet(_, _, _)
FailSet(P, s, cs) == IF cs = {} THEN s
                     ELSE LET c == CHOOSE x \in cs : TRUE IN
                          FailSet(P, FailWaiters([s EXCEPT !.act[c].st = "failed", !.act[c].ffd = s.now], Waiters(P, s, c), "network_failure"), cs \ {c})
\* Host::turn_off: the actor of that host is killed (its on_exit callbacks see failed = true), every communication in flight
\* from or to that host fails and the surviving peer blocked on it gets a NetworkFailureException (at once for the
\* communications the dead actor takes part in; at their completion date for the detached sends it left behind)
HostOff(P, s, h) ==
  LET k == KillActor(P, [s EXCEPT !.hoff[h] = TRUE], h)
      det == { c \in Running(k) : k.act[c].kind = "comm" /\ k.act[c].det /\ k.act[c].src = h } IN
  [k EXCEPT !.act = [c \in 1..Len(k.act) |-> IF c \in det THEN [k.act[c] EXCEPT !.doom = TRUE] ELSE k.act[c]]]
\* Link::turn_off: every communication in flight fails; both sides get the failure
LinkOff(P, s) == LET k == [s EXCEPT !.loff = TRUE] IN FailSet(P, k, { c \in Running(k) : k.act[c].kind = "comm" })

\* EngineImpl::run: when only daemons remain they are killed (checked by maestro at the end of each scheduling sub-round,
\* i.e. some time after the last regular actor ended: a separate step)
OnlyDaemons(P, s) == LET alive == { a \in Actors(P) : Alive(s, a) } IN
                     alive # {} /\ (\A a \in alive : s.dmn[a]) /\ \E a \in alive : s.ph[a] \notin {"dying", "exiting"}
DaemonKill(P, s)  == KillSet(P, s, { a \in Actors(P) : Alive(s, a) })
\* the actor starts dying: its on_exit callbacks run in reverse registration order, each exactly once
Terminate(P, s, a, how) ==
  IF s.oe[a] = <<>> THEN Finish(P, s, a, how)
  ELSE [s EXCEPT !.ph[a] = "exiting", !.oex[a] = Reverse(s.oe[a]), !.pres[a] = how]
RunOnExit(P, s, a) ==      \* pre: s.ph[a] = "exiting"
  LET n == [s EXCEPT !.oex[a] = Tail(@), !.oerun[a] = Append(@, Head(s.oex[a]))] IN
  IF Len(s.oex[a]) = 1 THEN Finish(P, [n EXCEPT !.pres[a] = "none"], a, s.pres[a]) ELSE n

\* ------------------------------------------------------------------ suspension (C11)
\* ActorImpl::suspend / resume. A suspended actor is never given the hand: whatever answers it gets (mutex or semaphore granted,
\* timeout, end of its sleep, death of the actor it joined) are observed only once it is resumed (ActorImpl::yield). Time is not
\* frozen: a sleep (or the timeout of a join) keeps elapsing while its actor is suspended (the CPU model bounds a sleep action by
\* its max_duration, which a suspended action keeps consuming); it simply returns at max(end of the sleep, date of the resume).
\* Not modelled (deliberately undefined): suspending an actor that takes part in a communication or an execution.
Suspendable(s, o) == s.ph[o] \in {"run", "issued", "blocked", "answered"}
Suspend(s, o) == [s EXCEPT !.susp[o] = TRUE]
\* (an actor that suspends itself is answered at once, and then waits like the others for somebody to resume it)
Resume(s, o) == [s EXCEPT !.susp[o] = FALSE]

\* ------------------------------------------------------------------ auto-restart (C11)
\* ActorImpl::create(ProcessArg*): same code from its first operation, callbacks copied from the recorded list, kill time if
\* still in the future, daemon flag, auto-restart flag; obs / ov keep accumulating over the incarnations of the slot
Restart(P, s, o) ==
  [s EXCEPT !.ph[o] = IF NOps(P, o) = 0 THEN "done" ELSE "run", !.pc[o] = 1, !.sub[o] = 1, !.res[o] = "none", !.pres[o] = "none",
            !.blk[o] = NoBlk, !.tmr[o] = -1, !.hnd[o] = <<>>, !.cur[o] = 0, !.rval[o] = 0,
            !.oe[o] = s.arl[o], !.oex[o] = <<>>, !.oerun[o] = <<>>,
            !.dmn[o] = s.ard[o], !.kt[o] = IF s.ark[o] > s.now THEN s.ark[o] ELSE -1, !.aron[o] = TRUE, !.susp[o] = FALSE,
            !.inc[o] = @ + 1]
\* An operation on another actor designates the incarnation that existed when the caller obtained its handle (trace mode: when it
\* issued the operation). If the target was restarted in between (same scheduling round), the operation concerns the previous,
\* dead incarnation: a join returns at once, kill / suspend / resume do nothing.
HasTarget(op) == op.op \in {"join", "kill", "suspend", "resume"}
StaleTarget(P, s, a) == s.ph[a] = "issued" /\ HasTarget(Cur(P, s, a)) /\ s.tgi[a] # s.inc[Cur(P, s, a).o]

Keep(s, a, r) == [s EXCEPT !.hnd[a] = Append(@, [c |-> s.cur[a], r |-> r, seen |-> FALSE])]
\* Once an actor has observed the completion of one of its handles (wait returned, test said true), the s4u object is
\* FINISHED and a later test() on it returns true at once without any simcall (Activity::wait_for always does a simcall).
OnHandle(op) == op.op \in {"wait", "waitfor", "test"}
IsLocal(P, s, a) == LET op == Cur(P, s, a) IN
                    \/ op.op = "test" /\ op.o <= Len(s.hnd[a]) /\ s.hnd[a][op.o].seen
                    \/ op.op \in {"kill", "suspend", "resume"} /\ s.ph[op.o] = "unborn"        \* nobody there yet: no simcall
                    \/ op.op = "autorestart" /\ s.aron[a]            \* already set (restarted incarnation): no simcall
LocalRet(P, s, a) == LET op == Cur(P, s, a) IN
                     IF op.op \in {"kill", "suspend", "resume", "autorestart"} THEN Answer(s, a, "ok")
                     ELSE LET h == s.hnd[a][op.o] IN
                          AnswerV(s, a, "true", IF h.r /\ s.act[h.c].st = "done" THEN s.act[h.c].pay ELSE 0)       \* an asynchronous operation returns a handle

\* number of simcalls of an operation (run granularity): blocking put / get / exec = start + wait
NSubP(P, op) == IF P.gran = "mc" THEN (IF op.op \in {"cvwait", "cvwaitfor"} THEN 3
                                       ELSE IF op.op \in {"lock", "acq", "bar", "put", "get"} THEN 2 ELSE 1)
               ELSE (IF op.op \in {"put", "get", "mput", "mget", "exec"} THEN 2 ELSE 1)

\* ------------------------------------------------------------------ the kernel effect of a simcall
\* Run granularity (one simcall per blocking S4U call, as the code does outside the model checker)
HandleRun(P, s, a) ==

  LET op == Cur(P, s, a)   k == op.op   o == op.o IN
  CASE StaleTarget(P, s, a) -> Answer(s, a, "ok")
    [] k = "lock"    -> IF s.own[o] = a /\ ~P.rec[o] THEN Undef(s, a) ELSE LockFor(P, s, a, o, "ok")
    [] k = "trylock" ->
         IF s.own[o] = 0 THEN Answer([s EXCEPT !.own[o] = a, !.dep[o] = 1], a, "true")
         ELSE IF s.own[o] = a /\ P.rec[o] THEN Answer([s EXCEPT !.dep[o] = @ + 1], a, "true")
         ELSE Answer(s, a, "false")
    [] k = "unlock"  ->
         IF s.own[o] # a THEN Abort(s, a)                  \* xbt_assert in MutexImpl::unlock: never a silent release
         ELSE Answer(UnlockBy(P, s, a, o), a, "ok")
    [] k \in {"acq", "acqt"} ->
         IF s.val[o] > 0 THEN Answer([s EXCEPT !.val[o] = @ - 1, !.ngr[o] = @ + 1], a, "ok")
         \* a timeout of 0 is a timer that is due at once: timeout iff no token is granted "within 0"
         ELSE Block([s EXCEPT !.sq[o] = Append(@, a), !.tmr[a] = IF k = "acqt" THEN s.now + op.t ELSE -1], a, "sem", o, 0)
    [] k = "rel" ->
         IF s.sq[o] = <<>> THEN Answer([s EXCEPT !.val[o] = @ + 1, !.nrel[o] = @ + 1], a, "ok")
         ELSE LET b == Head(s.sq[o])
                  n == [s EXCEPT !.sq[o] = Tail(@), !.nrel[o] = @ + 1, !.ngr[o] = @ + 1] IN
              Answer(IF s.ph[b] = "blocked" THEN Answer(n, b, "ok") ELSE [n EXCEPT !.gr[b] = TRUE], a, "ok")
    [] k \in {"cvwait", "cvwaitfor"} ->
         IF s.own[op.p] # a THEN Abort(s, a)                 \* xbt_assert in do_wait / acquire_async
         ELSE LET u == UnlockBy(P, s, a, op.p) IN
              Block([u EXCEPT !.cq[o] = Append(@, [a |-> a, m |-> op.p]),
                                   !.tmr[a] = IF k = "cvwaitfor" THEN s.now + op.t ELSE -1], a, "cv", o, op.p)
    [] k = "sig"   -> Answer(CvWake(P, s, o), a, "ok")
    [] k = "bcast" -> Answer(CvWakeAll(P, s, o), a, "ok")
    [] k = "bar" ->
         IF Len(s.bq[o]) < P.bar[o] - 1 THEN Block([s EXCEPT !.bq[o] = Append(@, a)], a, "bar", o, 0)
         ELSE Answer(AnswerAll([s EXCEPT !.bq[o] = <<>>, !.bgen[o] = @ + 1], s.bq[o], "ok"), a, "ok")
    [] k = "sleep" -> Block([s EXCEPT !.tmr[a] = s.now + op.t], a, "sleep", 0, 0)
    [] k = "yield" -> Answer(s, a, "ok")
    \* ---- mailboxes (o = mailbox, t = size)
    [] k = "put"  -> IF s.sub[a] = 1 THEN Answer(FailedStart(P, Isend(P, s, a, o, op.t, FALSE)), a, "ok") ELSE WaitAct(P, s, a, s.cur[a], -1, FALSE)
    [] k = "get"  -> IF s.sub[a] = 1 THEN Answer(FailedStart(P, Irecv(P, s, a, o)), a, "ok") ELSE WaitAct(P, s, a, s.cur[a], -1, TRUE)
    \* static Comm::send / Comm::recv with match data (p = tag / filter): isend + wait in ONE simcall
    [] k = "sendt" -> LET n == FailedStart(P, IsendT(P, s, a, o, op.t, FALSE, op.p)) IN WaitAct(P, n, a, n.cur[a], -1, FALSE)
    [] k = "recvf" -> LET n == FailedStart(P, IrecvF(P, s, a, o, op.p)) IN WaitAct(P, n, a, n.cur[a], -1, TRUE)
    [] k = "puta" -> Answer(Keep(FailedStart(P, Isend(P, s, a, o, op.t, FALSE)), a, FALSE), a, "ok")
    [] k = "putd" -> Answer(FailedStart(P, Isend(P, s, a, o, op.t, TRUE)), a, "ok")
    [] k = "geta" -> Answer(Keep(FailedStart(P, Irecv(P, s, a, o)), a, TRUE), a, "ok")
    \* ---- message queues (o = queue)
    [] k = "mput"  -> IF s.sub[a] = 1 THEN Answer(Iput(P, s, a, o), a, "ok") ELSE WaitAct(P, s, a, s.cur[a], -1, FALSE)
    [] k = "mget"  -> IF s.sub[a] = 1 THEN Answer(Iget(P, s, a, o), a, "ok") ELSE WaitAct(P, s, a, s.cur[a], -1, TRUE)
    [] k = "mputa" -> Answer(Keep(Iput(P, s, a, o), a, FALSE), a, "ok")
    [] k = "mgeta" -> Answer(Keep(Iget(P, s, a, o), a, TRUE), a, "ok")
    \* ---- executions (t = duration on the actor's own, otherwise idle, host)
    [] k = "exec"  -> IF s.sub[a] = 1
                      THEN Answer([s EXCEPT !.act = Append(@, NewAct("exec", 0, a, 0, 0, op.t, "run", FALSE, s.now + op.t)),
                                            !.cur[a] = Len(s.act) + 1], a, "ok")
                      ELSE WaitAct(P, s, a, s.cur[a], -1, FALSE)
    [] k = "execa" -> Answer(Keep([s EXCEPT !.act = Append(@, NewAct("exec", 0, a, 0, 0, op.t, "run", FALSE, s.now + op.t)),
                                            !.cur[a] = Len(s.act) + 1], a, FALSE), a, "ok")
    \* ---- handles (o = index of the handle among the asynchronous operations of the actor; t = timeout)
    [] IsLocal(P, s, a) -> LocalRet(P, s, a)
    [] k = "wait"    -> IF o > Len(s.hnd[a]) THEN Abort(s, a) ELSE WaitAct(P, s, a, s.hnd[a][o].c, -1, s.hnd[a][o].r)
    [] k = "waitfor" -> IF o > Len(s.hnd[a]) THEN Abort(s, a) ELSE WaitAct(P, s, a, s.hnd[a][o].c, op.t, s.hnd[a][o].r)
    [] k = "test"    -> IF o > Len(s.hnd[a]) THEN Abort(s, a)
                        ELSE LET c == s.hnd[a][o].c IN
                             IF s.act[c].st = "done" THEN AnswerV(s, a, "true", IF s.hnd[a][o].r THEN s.act[c].pay ELSE 0)
                             ELSE IF s.act[c].st \in {"failed", "canceled"} THEN Answer(s, a, "true")   \* ActivityImpl::test
                             ELSE Answer(s, a, "false")
    \* ---- lifecycle (o = other actor, t = duration / date)
    [] k = "create"   -> IF s.ph[o] # "unborn" THEN Abort(s, a)
                         ELSE Answer([s EXCEPT !.ph[o] = IF NOps(P, o) = 0 THEN "done" ELSE "run"], a, "ok")
    [] k = "onexit"   -> Answer([s EXCEPT !.oe[a] = Append(@, o)], a, "ok")
    [] k = "daemon"   -> Answer([s EXCEPT !.dmn[a] = TRUE], a, "ok")
    [] k = "killtime" -> Answer([s EXCEPT !.kt[a] = IF op.t > s.now THEN op.t ELSE -1], a, "ok")
    [] k = "kill"     -> IF o = a THEN Undef(s, a) ELSE Answer(KillActor(P, s, o), a, "ok")
    [] k = "killall"  -> Answer(KillSet(P, s, Actors(P) \ {a}), a, "ok")
    [] k = "join"     -> IF s.ph[o] = "unborn" THEN Abort(s, a)
                         ELSE IF s.ph[o] \in {"done", "dead", "dying", "exiting"} THEN Answer(s, a, "ok")
                         ELSE Block([s EXCEPT !.tmr[a] = IF op.t >= 0 THEN s.now + op.t ELSE -1], a, "join", o, 0)
    \* ---- suspension (o = other actor, or the caller itself)
    [] k = "suspend"  -> IF ~Suspendable(s, o) THEN Answer(s, a, "ok")
                         ELSE IF Mine(s, o) # {} \/ (s.ph[o] = "blocked" /\ s.blk[o].kind = "act") THEN Undef(s, a)   \* not modelled
                         ELSE Answer(Suspend(s, o), a, "ok")
    [] k = "resume"   -> IF ~Suspendable(s, o) THEN Answer(s, a, "ok") ELSE Answer(Resume(s, o), a, "ok")
    \* ---- resource failures (o = host = actor number)
    [] k = "hostoff" -> IF o = a THEN Undef(s, a) ELSE Answer(HostOff(P, s, o), a, "ok")
    \* Host::turn_on boots again every actor whose start record the host kept (HostImpl::actors_at_boot_): a new incarnation
    \* with the recorded callbacks, kill time and daemon flag. (A previous incarnation that has not finished dying: not modelled.)
    [] k = "hoston"  -> IF s.hoff[o] /\ s.ar[o]
                        THEN (IF s.ph[o] \in {"done", "dead"} THEN Answer(Restart(P, [s EXCEPT !.hoff[o] = FALSE], o), a, "ok") ELSE Undef(s, a))
                        ELSE Answer([s EXCEPT !.hoff[o] = FALSE], a, "ok")
    \* Actor::set_auto_restart(true) on oneself: the host records how to start the actor again (the callback list is shared)
    [] k = "autorestart" -> Answer([s EXCEPT !.ar[a] = TRUE, !.aron[a] = TRUE, !.reg[a] = TRUE, !.ark[a] = s.kt[a], !.ard[a] = s.dmn[a]], a, "ok")
    [] k = "linkoff" -> Answer(LinkOff(P, s), a, "ok")
    [] k = "linkon"  -> Answer([s EXCEPT !.loff = FALSE], a, "ok")
    [] OTHER -> Abort(s, a)

\* ------------------------------------------------------------------ MC granularity (what simgrid-mc explores)
\* Under the model checker each blocking call is split for transition persistency: lock = MUTEX_ASYNC_LOCK + MUTEX_WAIT,
\* acquire = SEM_ASYNC_LOCK + SEM_WAIT, barrier wait = BARRIER_ASYNC_LOCK + BARRIER_WAIT, put/get = COMM_ASYNC_SEND/RECV +
\* COMM_WAIT.  A *_WAIT transition is enabled only when it can complete; nobody ever blocks; there is no time.
Matched(s, c) == s.act[c].st \in {"run", "done"}
EnabledMC(P, s, a) ==
  LET op == Cur(P, s, a)   k == op.op   o == op.o IN
  CASE k = "lock" /\ s.sub[a] = 2 -> s.own[o] = a
    [] k \in {"acq", "bar"} /\ s.sub[a] = 2 -> s.gr[a]
    [] k \in {"cvwait", "cvwaitfor"} /\ s.sub[a] = 2 -> s.gr[a] \/ k = "cvwaitfor"     \* notified, or a timeout is possible
    [] k \in {"cvwait", "cvwaitfor"} /\ s.sub[a] = 3 -> s.own[op.p] = a
    [] k \in {"put", "get"} /\ s.sub[a] = 2 -> Matched(s, s.cur[a])
    [] k = "wait" -> o <= Len(s.hnd[a]) /\ Matched(s, s.hnd[a][o].c)
    [] k = "join" -> s.ph[o] \in {"done", "dead"}            \* ACTOR_JOIN: enabled once the target has terminated
    [] OTHER -> TRUE
RECURSIVE GrantAll(_, _)
GrantAll(s, q) == IF q = <<>> THEN s ELSE GrantAll([s EXCEPT !.gr[Head(q)] = TRUE], Tail(q))
WaitMC(P, s, a, c, r) == AnswerV([s EXCEPT !.act[c].st = "done"], a, "ok", IF r THEN s.act[c].pay ELSE 0)
HandleMC(P, s, a) ==
  LET op == Cur(P, s, a)   k == op.op   o == op.o IN
  CASE k = "lock" ->
         IF s.sub[a] = 2 THEN Answer(s, a, "ok")
         ELSE IF s.own[o] = 0 THEN Answer([s EXCEPT !.own[o] = a, !.dep[o] = 1], a, "ok")
         ELSE IF s.own[o] = a /\ P.rec[o] THEN Answer([s EXCEPT !.dep[o] = @ + 1], a, "ok")
         ELSE IF s.own[o] = a THEN Undef(s, a)
         ELSE Answer([s EXCEPT !.mq[o] = Append(@, a)], a, "ok")
    [] k = "acq" ->
         IF s.sub[a] = 2 THEN Answer([s EXCEPT !.gr[a] = FALSE], a, "ok")
         ELSE IF s.val[o] > 0 THEN Answer([s EXCEPT !.val[o] = @ - 1, !.ngr[o] = @ + 1, !.gr[a] = TRUE], a, "ok")
         ELSE Answer([s EXCEPT !.sq[o] = Append(@, a)], a, "ok")
    [] k = "bar" ->
         IF s.sub[a] = 2 THEN Answer([s EXCEPT !.gr[a] = FALSE], a, "ok")
         ELSE IF Len(s.bq[o]) < P.bar[o] - 1 THEN Answer([s EXCEPT !.bq[o] = Append(@, a)], a, "ok")
         ELSE Answer(GrantAll([s EXCEPT !.bq[o] = <<>>, !.bgen[o] = @ + 1, !.gr[a] = TRUE], s.bq[o]), a, "ok")
    \* condition wait = CONDVAR_ASYNC_LOCK (unlock + enqueue) ; CONDVAR_WAIT (notified or timed out, then lock_async of the
    \* mutex) ; MUTEX_WAIT
    [] k \in {"cvwait", "cvwaitfor"} ->
         IF s.sub[a] = 1 THEN (IF s.own[op.p] # a THEN Abort(s, a)
                               ELSE Answer([UnlockBy(P, s, a, op.p) EXCEPT !.cq[o] = Append(@, [a |-> a, m |-> op.p])], a, "ok"))
         ELSE IF s.sub[a] = 2
         THEN LET r == IF s.gr[a] THEN "ok" ELSE "timeout"
                  u == IF s.gr[a] THEN [s EXCEPT !.gr[a] = FALSE] ELSE [s EXCEPT !.cq[o] = RemoveFirst(@, [a |-> a, m |-> op.p])]
                  m == op.p
                  v == IF u.own[m] = 0 THEN [u EXCEPT !.own[m] = a, !.dep[m] = 1]
                       ELSE IF u.own[m] = a /\ P.rec[m] THEN [u EXCEPT !.dep[m] = @ + 1]
                       ELSE [u EXCEPT !.mq[m] = Append(@, a)] IN
              [Answer(v, a, "ok") EXCEPT !.pres[a] = r]
         ELSE Answer(s, a, s.pres[a])
    [] k = "put"  -> IF s.sub[a] = 1 THEN Answer(Isend(P, s, a, o, op.t, FALSE), a, "ok") ELSE WaitMC(P, s, a, s.cur[a], FALSE)
    [] k = "get"  -> IF s.sub[a] = 1 THEN Answer(Irecv(P, s, a, o), a, "ok") ELSE WaitMC(P, s, a, s.cur[a], TRUE)
    [] k = "wait" -> WaitMC(P, s, a, s.hnd[a][o].c, s.hnd[a][o].r)
    [] k = "test" -> IF IsLocal(P, s, a) THEN LocalRet(P, s, a)
                     ELSE LET c == s.hnd[a][o].c IN
                          IF Matched(s, c) THEN AnswerV([s EXCEPT !.act[c].st = "done"], a, "true", IF s.hnd[a][o].r THEN s.act[c].pay ELSE 0)
                          ELSE Answer(s, a, "false")
    [] k = "sleep" -> Answer(s, a, "ok")
    [] k = "join"  -> IF s.ph[o] = "unborn" THEN Abort(s, a) ELSE Answer(s, a, "ok")
    \* MC_random(0, o): the checker chooses the outcome (times_considered); the wrappers put it in rv before calling Handle
    [] k = "rand"  -> IF s.rv[a] < 0 \/ s.rv[a] > o \/ o > 3 THEN Abort(s, a)
                      ELSE Answer([s EXCEPT !.rv[a] = -1], a, <<"r0", "r1", "r2", "r3">>[s.rv[a] + 1])
    [] OTHER -> HandleRun(P, s, a)        \* trylock, unlock, rel, puta, putd, geta, yield: one simcall in both modes

\* Pre: s.ph[a] \in {"run","issued"} and s.pc[a] <= NOps(P,a) and ~s.aborted
Handle(P, s, a) == IF P.gran = "mc" THEN HandleMC(P, s, a) ELSE HandleRun(P, s, a)

\* ------------------------------------------------------------------ time
Ready(s, a)     == s.ph[a] \in {"run", "issued", "dying", "exiting"} \/ (s.ph[a] = "answered" /\ ~s.susp[a])
\* MC granularity: an actor can move iff its next transition is enabled (a pending *_WAIT may be disabled)
\* outcomes the checker may choose for the next transition of a (one, except for MC_random)
Choices(P, s, a) == IF s.pc[a] <= NOps(P, a) /\ Cur(P, s, a).op = "rand" THEN 0..Cur(P, s, a).o ELSE {0}
Chosen(P, s, a, v) == IF s.pc[a] <= NOps(P, a) /\ Cur(P, s, a).op = "rand" THEN [s EXCEPT !.rv[a] = v] ELSE s
MoreSub(P, s, a) == s.ph[a] = "answered" /\ s.res[a] = "ok" /\ s.sub[a] < NSubP(P, Cur(P, s, a))
NextSub(P, s, a) == [s EXCEPT !.sub[a] = @ + 1, !.res[a] = "none", !.rval[a] = 0, !.ph[a] = "run"]
CanMoveMC(P, s, a) == LET b == IF MoreSub(P, s, a) THEN NextSub(P, s, a) ELSE s IN
                      \/ b.ph[a] \in {"run", "issued"} /\ EnabledMC(P, b, a)
                      \/ s.ph[a] = "answered" /\ ~MoreSub(P, s, a)
SomeReady(P, s) == IF P.gran = "mc" THEN \E a \in Actors(P) : CanMoveMC(P, s, a) ELSE \E a \in Actors(P) : Ready(s, a)
TimerDates(P, s) == { s.tmr[a] : a \in { b \in Actors(P) : s.tmr[b] >= 0 } }
                    \cup { s.kt[a] : a \in { b \in Actors(P) : s.kt[b] >= 0 /\ Alive(s, b) } }
                    \cup { s.act[c].fin : c \in { x \in Running(s) : s.act[x].fin >= 0 } }
FreeRunning(s) == { c \in Running(s) : s.act[c].fin < 0 }        \* running activities whose completion date is free
CanComplete(s, c) == c \in Running(s) /\ (s.act[c].fin < 0 \/ s.act[c].fin <= s.now)   \* (run granularity only)
MinDate(S) == CHOOSE d \in S : \A e \in S : d <= e
Due(s, a)  == s.tmr[a] >= 0 /\ s.tmr[a] <= s.now

\* the clock jumps to the earliest pending date, only when no actor can run and nothing is due
CanAdvance(P, s) == ~s.aborted /\ ~SomeReady(P, s) /\ ~OnlyDaemons(P, s) /\ (TimerDates(P, s) # {} \/ FreeRunning(s) # {})
                    /\ \A d \in TimerDates(P, s) : d > s.now
Advance(P, s)    == IF TimerDates(P, s) = {} THEN s ELSE [s EXCEPT !.now = MinDate(TimerDates(P, s))]

\* completion of the sleep / timeout of actor a (pre: Due(s, a) /\ s.ph[a] = "blocked")
FireTimer(P, s, a) ==
  LET b == s.blk[a] IN
  CASE b.kind = "sleep" -> Answer(s, a, "ok")
    [] b.kind = "sem"   -> Answer([s EXCEPT !.sq[b.o] = RemoveFirst(@, a)], a, "timeout")
    [] b.kind = "cv"    -> LockFor(P, [s EXCEPT !.cq[b.o] = RemoveFirst(@, [a |-> a, m |-> b.m]), !.tmr[a] = -1], a, b.m, "timeout")
    [] b.kind = "act"   -> Answer(s, a, "timeout_exc")        \* wait_for: TimeoutException; the activity goes on
    [] b.kind = "join"  -> Answer(s, a, "ok")                 \* join(t) returns after t
    [] OTHER -> s
\* C11: an actor with a kill time dies exactly at that date
KillDue(s, a) == s.kt[a] >= 0 /\ s.kt[a] <= s.now /\ Alive(s, a) /\ s.ph[a] \notin {"dying", "exiting"}
\* C12: a completion at the deadline counts as completed: the timeout of a wait_for may fire only if the activity is
\* not due to complete by now (free completion dates leave the tie open)
CanFire(s, a) == /\ s.ph[a] = "blocked" /\ Due(s, a)
                 /\ (s.blk[a].kind = "act" => ~(s.act[s.blk[a].o].st = "run" /\ s.act[s.blk[a].o].fin >= 0
                                                /\ s.act[s.blk[a].o].fin <= s.now))

\* the actor observes the answer and goes on (pre: s.ph[a] = "answered").  A failed "trylock?" (p = 1) skips the next
\* operation of the actor (its matching unlock); obs gets a "skip" entry so that obs stays aligned with the program.
Ret(P, s, a) ==
  LET op   == Cur(P, s, a)
      skip == op.op = "trylock" /\ op.p = 1 /\ s.res[a] = "false" /\ s.pc[a] + 1 <= NOps(P, a)
      npc  == s.pc[a] + (IF skip THEN 2 ELSE 1) IN
  LET sees == OnHandle(op) /\ s.res[a] \in {"ok", "true"} /\ op.o <= Len(s.hnd[a])
      n == [s EXCEPT !.obs[a] = Append(@, s.res[a]) \o (IF skip THEN <<"skip">> ELSE <<>>),
                     !.hnd[a] = IF sees THEN [@ EXCEPT ![op.o].seen = TRUE] ELSE @,
                     !.ov[a] = Append(@, s.rval[a]) \o (IF skip THEN <<0>> ELSE <<>>),
                     !.res[a] = "none", !.rval[a] = 0, !.pc[a] = npc, !.sub[a] = 1, !.cur[a] = 0,
                     !.ph[a] = "run"] IN
  IF npc > NOps(P, a) THEN Terminate(P, n, a, "done") ELSE n

\* EngineImpl::run reports a deadlock when nothing can happen any more and some actor is not finished
Terminal(P, s)   == IF P.gran = "mc" THEN ~SomeReady(P, s)
                    ELSE ~SomeReady(P, s) /\ TimerDates(P, s) = {} /\ Running(s) = {} /\ ~OnlyDaemons(P, s)
Deadlocked(P, s) == ~s.aborted /\ Terminal(P, s) /\ \E a \in Actors(P) : s.ph[a] \notin {"done", "dead", "unborn"}
AllDone(P, s)    == \A a \in Actors(P) : s.ph[a] \in {"done", "dead", "unborn"}

\* ------------------------------------------------------------------ properties (state predicates over (P, s))
\* completed successful acquisitions minus completed releases of m by a, read from the actor's own history
RECURSIVE HeldCount(_, _, _, _, _)
HeldCount(P, s, a, m, k) ==    \* over operations 1..k of a (all completed)
  IF k = 0 THEN 0
  ELSE LET op == OpOf(P, a, k)  r == s.obs[a][k] IN
       HeldCount(P, s, a, m, k - 1)
       + (IF op.op = "lock" /\ op.o = m /\ r = "ok" THEN 1 ELSE 0)
       + (IF op.op = "trylock" /\ op.o = m /\ r = "true" THEN 1 ELSE 0)
       - (IF op.op = "unlock" /\ op.o = m /\ r = "ok" THEN 1 ELSE 0)

\* C04: what the actors have observed determines who owns each mutex and how deep: exclusion, ownership kept until
\* the n-th unlock, no acquisition reported to a non-owner.  Stated for actors between two operations.
MutexOwnership(P, s) ==
  \A m \in Mutexes(P) : \A a \in Actors(P) :
     (s.ph[a] \in {"run", "done"} /\ s.sub[a] = 1) =>          \* between two operations
       LET h == HeldCount(P, s, a, m, Len(s.obs[a])) IN
       /\ h >= 0
       /\ (h > 0 => s.own[m] = a /\ s.dep[m] = h)
       /\ (h = 0 => s.own[m] # a)
MutexExclusion(P, s) ==
  \A m \in Mutexes(P) :
     /\ Cardinality({ a \in Actors(P) : s.ph[a] \in {"run", "done"} /\ s.sub[a] = 1 /\ HeldCount(P, s, a, m, Len(s.obs[a])) > 0 }) <= 1
     /\ (s.own[m] = 0) = (s.dep[m] = 0)
     /\ (~P.rec[m] => s.dep[m] <= 1)
     /\ (s.own[m] = 0 => s.mq[m] = <<>>)                 \* nobody waits for a free mutex (no lost hand-off)
     /\ (P.gran # "mc" => \A i \in 1..Len(s.mq[m]) : s.ph[s.mq[m][i]] = "blocked" /\ s.blk[s.mq[m][i]].kind = "mutex")

\* C05: token conservation; the capacity is the difference when nobody waits; nobody waits while tokens are free
SemConservation(P, s) ==
  \A x \in Sems(P) :
     /\ s.val[x] >= 0
     /\ s.val[x] = P.cap[x] + s.nrel[x] - s.ngr[x]
     /\ s.ngr[x] <= P.cap[x] + s.nrel[x]
     /\ (s.val[x] > 0 => s.sq[x] = <<>>)
     /\ (P.gran # "mc" => \A i \in 1..Len(s.sq[x]) : s.ph[s.sq[x][i]] = "blocked" /\ s.blk[s.sq[x][i]].kind = "sem")

\* C06: a waiter is in exactly one place: on the condition, or queued on / owning its mutex; it never owns the mutex
\* while still waiting on the condition
CvConsistency(P, s) ==
  P.gran = "mc" \/ \A c \in Cvs(P) : \A i \in 1..Len(s.cq[c]) :
     LET w == s.cq[c][i] IN s.ph[w.a] = "blocked" /\ s.blk[w.a].kind = "cv" /\ s.blk[w.a].o = c

\* C07: a barrier never holds a complete group
BarrierGroups(P, s) ==
  \A b \in Bars(P) : Len(s.bq[b]) < P.bar[b] /\ (P.gran # "mc" => \A i \in 1..Len(s.bq[b]) : s.ph[s.bq[b][i]] = "blocked")

\* every blocked actor is blocked on something that exists, answered actors carry a result
PhaseConsistency(P, s) ==
  \A a \in Actors(P) :
     /\ (s.ph[a] = "blocked") = (s.blk[a].kind # "none")
     /\ (s.ph[a] = "answered") = (s.res[a] # "none")
     /\ (s.tmr[a] >= 0 => s.ph[a] = "blocked" /\ s.blk[a].kind \in {"sleep", "sem", "cv", "act", "join"})
     /\ s.tmr[a] # -1 => s.tmr[a] >= s.now          \* C03: no pending date in the past
     /\ (s.susp[a] => Alive(s, a) /\ s.ph[a] \notin {"dying", "exiting"})

\* C08 / C09: every payload is received at most once, only payloads that were sent are received, a queued entry is
\* unmatched, and nobody waits on a finished activity
ReceivedPayloads(P, s) == UNION { { <<a, i>> : i \in { j \in 1..Len(s.ov[a]) : s.ov[a][j] # 0 } } : a \in Actors(P) }
CommExactlyOnce(P, s) ==
  /\ \A x, y \in ReceivedPayloads(P, s) : s.ov[x[1]][x[2]] = s.ov[y[1]][y[2]] => x[1] = y[1]   \* never to two actors
  /\ \A c, d \in 1..Len(s.act) : (c # d /\ s.act[c].pay # 0) => s.act[c].pay # s.act[d].pay       \* one put, one communication
  /\ \A x \in ReceivedPayloads(P, s) : \E c \in 1..Len(s.act) : s.act[c].pay = s.ov[x[1]][x[2]] /\ s.act[c].st = "done"
                                                            /\ s.act[c].dst = x[1]
  /\ \A b \in Mboxes(P) : \A i \in 1..Len(s.mbq[b]) : s.act[s.mbq[b][i]].st = "wait"
  /\ \A b \in Mboxes(P) : ~(\E i, j \in 1..Len(s.mbq[b]) : /\ IsSend(s.act[s.mbq[b][i]]) /\ IsRecv(s.act[s.mbq[b][j]])
                                                              /\ Accepts(s.act[s.mbq[b][j]].flt, s.act[s.mbq[b][i]].tag))
  /\ \A q \in Mqs(P) : ~(\E i, j \in 1..Len(s.mqq[q]) : IsSend(s.act[s.mqq[q][i]]) /\ IsRecv(s.act[s.mqq[q][j]]))
  /\ \A a \in Actors(P) : (s.ph[a] = "blocked" /\ s.blk[a].kind = "act") => s.act[s.blk[a].o].st \in {"wait", "run"}

\* C11: on_exit callbacks run exactly once, in reverse registration order; nobody waits for a dead actor; daemons do not
\* outlive the last regular actor
Lifecycle(P, s) ==
  /\ \A a \in Actors(P) : s.ph[a] \in {"done", "dead"} => s.oerun[a] = Reverse(s.oe[a])
  /\ \A a \in Actors(P) : s.ph[a] = "exiting" => s.oerun[a] \o s.oex[a] = Reverse(s.oe[a])
  /\ \A a \in Actors(P) : (s.ph[a] = "blocked" /\ s.blk[a].kind = "join") => Alive(s, s.blk[a].o) \/ s.ph[s.blk[a].o] = "unborn"
  /\ Terminal(P, s) => ((\E a \in Actors(P) : s.dmn[a] /\ Alive(s, a)) => \E b \in Actors(P) : ~s.dmn[b] /\ Alive(s, b))

\* C10: nobody stays blocked on an activity that has failed, and an actor whose host is off is not running
FailureReported(P, s) ==
  /\ \A a \in Actors(P) : (s.ph[a] = "blocked" /\ s.blk[a].kind = "act") => s.act[s.blk[a].o].st # "failed"
  /\ \A a \in Actors(P) : s.hoff[a] => s.ph[a] \in {"dying", "exiting", "dead", "done", "unborn"}
  /\ \A c \in 1..Len(s.act) : (s.act[c].st = "run" /\ s.act[c].kind = "comm" /\ ~s.act[c].doom) =>
                                 ~s.hoff[s.act[c].src] /\ (s.act[c].dst # 0 => ~s.hoff[s.act[c].dst])

KernelInv(P, s) == /\ MutexOwnership(P, s) /\ MutexExclusion(P, s) /\ SemConservation(P, s)
                   /\ CvConsistency(P, s) /\ BarrierGroups(P, s) /\ PhaseConsistency(P, s) /\ CommExactlyOnce(P, s) /\ Lifecycle(P, s) /\ FailureReported(P, s)

\* what an execution leaves behind (C14 / C38: set of terminal outcomes)
Outcome(P, s) == [ obs |-> s.obs, ov |-> s.ov, ph |-> s.ph, blk |-> [a \in Actors(P) |-> s.blk[a].kind],
                   end |-> IF s.undef THEN "undefined" ELSE IF s.aborted THEN "abort" ELSE IF Deadlocked(P, s) THEN "deadlock" ELSE "normal" ]
=============================================================================
