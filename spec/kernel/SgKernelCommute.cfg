SPECIFICATION Spec
INVARIANT Emit
