--------------------------- MODULE SgKernelCommute ---------------------------
(* C39 (M): do two co-enabled transitions of different actors commute?                                               *)
(* In every reachable state of every program (MC granularity, the exploration of SgKernelMC), for every pair of       *)
(* actors a < b whose next transitions are both enabled, the reference semantics decides:                              *)
(*     commute  ==  neither disables the other  /\  both orders lead to the same state                                 *)
(* (the same state up to the numbering of the activities: two communications created by the two transitions get their  *)
(* identifiers in creation order, so they are swapped between the two orders).                                          *)
(* Each pair is printed with the two transitions described exactly as the checker sees them (type, actor, object,      *)
(* communication, ends), in every view the checker can take of them:                                                    *)
(*   "pp"  both pending in the state;                                                                                   *)
(*   "ee"  both executed, in this order (what odpor::Execution holds for two consecutive events);                       *)
(*   "ep"  the first executed, the second still pending after it (sleep sets, initials);                                *)
(*   "en"  (extension) t1 executed ENABLES t2 (disabled before it), both executed: never independent.                    *)
(* A transition is serialized by the application from the kernel state of the moment (SimcallObserver::serialize): a   *)
(* pending iSend/iRecv does not know its communication (0), an executed one does; a TestComm/WaitComm carries the ends  *)
(* known at that moment (-1 = none).  Identifiers are those of the specification (injective renaming of the real ones). *)
(* The harness asks the REAL Transition::depends() for every printed pair: "independent" is only allowed when           *)
(* commute = TRUE.                                                                                                       *)
EXTENDS SgKernelMC

TR == INSTANCE SgKernelTrace WITH l <- 1, pend <- {}, fin <- FALSE      \* McType: operation + sub-step -> checker's type

\* the next step of a is a transition of the checker (a test of an already observed handle does no simcall)
IsTrans(s, a) == s.ph[a] = "run" /\ s.pc[a] <= NOps(P, a) /\ ~IsLocal(P, s, a)
En(s, a) == IsTrans(s, a) /\ EnabledMC(P, s, a)
Do(s, a) == SettleAll(P, Handle(P, s, a))

\* ---------------------------------------------------------------- the checker's view of the next transition of a in s,
\* its fields being read in state x (x = s: pending; x = Handle(P, s, a): just executed)
End(v) == IF v = 0 THEN 0 - 1 ELSE v
View(s, a, x) ==
  LET op  == Cur(P, s, a)
      sub == s.sub[a]
      t   == TR!McType(op.op, sub)
      c   == IF t \in {"iSend", "iRecv"} THEN x.cur[a]
             ELSE IF t \in {"WaitComm", "TestComm"}
                  THEN (IF op.op \in {"wait", "test"} THEN s.hnd[a][op.o].c ELSE s.cur[a])
                  ELSE 0
      isMx == t \in {"MUTEX_ASYNC_LOCK", "MUTEX_WAIT", "MUTEX_TRYLOCK", "MUTEX_UNLOCK"}
      isCv == op.op \in {"cvwait", "cvwaitfor"}
      obj  == IF t \in {"WaitComm", "TestComm"} THEN x.act[c].mb
              ELSE IF isMx /\ isCv THEN op.p                 \* third simcall of a condition wait: MUTEX_WAIT on its mutex
              ELSE op.o
  IN  [t |-> t, a |-> a,
       o |-> obj,
       c |-> c,
       f |-> IF t \in {"WaitComm", "TestComm"} THEN End(x.act[c].src) ELSE 0 - 1,
       d |-> IF t \in {"WaitComm", "TestComm"} THEN End(x.act[c].dst) ELSE 0 - 1,
       w |-> IF isMx THEN End(x.own[obj]) ELSE 0 - 1,
       m |-> IF t \in {"CONDVAR_ASYNC_LOCK", "CONDVAR_WAIT"} THEN op.p ELSE 0,            \* mutex of a condition wait
       g |-> IF t = "CONDVAR_WAIT" /\ s.gr[a] THEN 1 ELSE 0,
       to |-> IF t = "CONDVAR_WAIT" /\ op.op = "cvwaitfor" THEN 1 ELSE 0]
Pending(s, a)  == View(s, a, s)
Executed(s, a) == View(s, a, Handle(P, s, a))

\* ---------------------------------------------------------------- equality of states up to the numbering of activities
Swap2(s, i, j) ==      \* activities i and j exchange their identifiers
  LET f(k) == IF k = i THEN j ELSE IF k = j THEN i ELSE k
      q(seq) == [n \in 1..Len(seq) |-> f(seq[n])]
  IN  [s EXCEPT !.act   = [k \in 1..Len(s.act) |-> s.act[f(k)]],
                !.mbq   = [b \in DOMAIN s.mbq |-> q(s.mbq[b])],
                !.mdone = [b \in DOMAIN s.mdone |-> q(s.mdone[b])],
                !.mqq   = [m \in DOMAIN s.mqq |-> q(s.mqq[m])],
                !.hnd   = [a \in DOMAIN s.hnd |-> [n \in 1..Len(s.hnd[a]) |-> [s.hnd[a][n] EXCEPT !.c = f(@)]]],
                !.cur   = [a \in DOMAIN s.cur |-> f(s.cur[a])],
                !.blk   = [a \in DOMAIN s.blk |-> IF s.blk[a].kind = "act" THEN [s.blk[a] EXCEPT !.o = f(@)] ELSE s.blk[a]]]
\* the arrival order inside the current group of a barrier is not part of the kernel state (BarrierImpl grants the whole
\* group at once): the queue bq is compared as a set
Norm(s) == [s EXCEPT !.bq = [b \in DOMAIN s.bq |-> SortSeq(s.bq[b], LAMBDA u, v : u < v)]]
SameState(s, x, y) ==
  \/ Norm(x) = Norm(y)
  \/ /\ Len(x.act) = Len(s.act) + 2 /\ Len(y.act) = Len(s.act) + 2
     /\ Norm(x) = Norm(Swap2(y, Len(s.act) + 1, Len(s.act) + 2))

\* ---------------------------------------------------------------- the pairs of a state
PairsAB(s, a, b) ==
  LET sa   == Do(s, a)
      sb   == Do(s, b)
      ok1  == ~sa.aborted /\ ~sb.aborted                  \* undefined behaviour / abort: nothing is claimed
      enAB == ok1 /\ En(sa, b)
      enBA == ok1 /\ En(sb, a)
      sab  == IF enAB THEN Do(sa, b) ELSE sa
      sba  == IF enBA THEN Do(sb, a) ELSE sb
      ok2  == ok1 /\ ~sab.aborted /\ ~sba.aborted
      com  == enAB /\ enBA /\ SameState(s, sab, sba)
      A1   == Executed(s, a)
      B1   == Executed(s, b)
  IN  IF ~ok2 THEN {}
      ELSE {[k |-> "pp", t1 |-> Pending(s, a), t2 |-> Pending(s, b), commute |-> com]}
           \cup (IF enAB THEN {[k |-> "ee", t1 |-> A1, t2 |-> Executed(sa, b), commute |-> com],
                               [k |-> "ep", t1 |-> A1, t2 |-> Pending(sa, b), commute |-> com]} ELSE {})
           \cup (IF enBA THEN {[k |-> "ee", t1 |-> B1, t2 |-> Executed(sb, a), commute |-> com],
                               [k |-> "ep", t1 |-> B1, t2 |-> Pending(sb, a), commute |-> com]} ELSE {})
\* Extension (same binding, signature "enables"): a transition that ENABLES another one cannot be swapped with it either.
\* Only the executed/executed view is demanded (what the happens-before of odpor::Execution is computed from): b is a
\* disabled transition (a *_WAIT) in s, a is enabled and its execution enables b.
EnablesAB(s, a, b) ==
  IF ~(En(s, a) /\ IsTrans(s, b) /\ ~EnabledMC(P, s, b)) THEN {}
  ELSE LET sa == Do(s, a) IN
       IF sa.aborted \/ ~En(sa, b) THEN {}
       ELSE {[k |-> "en", t1 |-> Executed(s, a), t2 |-> Executed(sa, b), commute |-> FALSE]}
PairsOf(s) ==
  IF s.aborted THEN {}
  ELSE UNION { PairsAB(s, p[1], p[2]) : p \in { q \in Actors(P) \X Actors(P) : q[1] < q[2] /\ En(s, q[1]) /\ En(s, q[2]) } }
       \cup UNION { EnablesAB(s, p[1], p[2]) : p \in { q \in Actors(P) \X Actors(P) : q[1] # q[2] } }

\* Each distinct (view, transition pair, verdict) is printed once per worker (register 2 holds what was printed), with
\* the state it was first seen in as a witness (program, program counters, sub-steps).
Emit ==
  LET new == PairsOf(st) \ TLCGet(2) IN
  IF new = {} THEN TRUE
  ELSE /\ \A r \in new : PrintT(ToJson(r @@ [pid |-> pid, pc |-> st.pc, sub |-> st.sub]))
       /\ TLCSet(2, TLCGet(2) \cup new)
ASSUME TLCSet(2, {})
=============================================================================
