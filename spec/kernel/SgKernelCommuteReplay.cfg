SPECIFICATION SpecR
INVARIANT EmitR
INVARIANT EmitEn
