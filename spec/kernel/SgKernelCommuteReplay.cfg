SPECIFICATION SpecR
INVARIANT EmitR
