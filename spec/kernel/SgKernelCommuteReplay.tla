------------------------ MODULE SgKernelCommuteReplay ------------------------
(* C39 (T): the executions explored by simgrid-mc (reduction none) give co-enabled pairs with the checker's OWN field   *)
(* values (communication identifiers, ends, owners as it decoded them).  Each execution is replayed on the reference     *)
(* semantics by its schedule (the sequence of actors the checker ran); for two consecutive steps of different actors     *)
(* that were both enabled before the first one, the semantics decides whether they commute (operators of                 *)
(* SgKernelCommute) and the pair is printed with the checker's records of the two steps, next to the views the           *)
(* specification predicts (type, actor, object, ends must agree: the view model of SgKernelCommute is thereby checked    *)
(* against the real checker).  EXECS (environment) = JSON list of [pid, sched, tr], tr[i] = checker's record of step i.  *)
EXTENDS SgKernelCommute

Execs == JsonDeserialize(IOEnv.EXECS)

VARIABLES ex, i
rvars == <<pid, st, ex, i>>

\* steps that are no transition of the checker (a test of an already observed handle) are taken as soon as possible
RECURSIVE Loc(_)
Loc(s) == IF s.aborted THEN s
          ELSE LET L == { a \in Actors(P) : s.ph[a] = "run" /\ s.pc[a] <= NOps(P, a) /\ IsLocal(P, s, a) } IN
               IF L = {} THEN s ELSE Loc(Do(s, CHOOSE a \in L : TRUE))

InitR == /\ ex \in { Execs[n] : n \in 1..Len(Execs) }
         /\ pid = ex.pid /\ i = 0
         /\ st = S0(Progs[ex.pid])
Settled == IF i = 0 THEN Loc(st) ELSE st
NextR == /\ i < Len(ex.sched)
         /\ En(Settled, ex.sched[i + 1])
         /\ st' = Loc(Do(Settled, ex.sched[i + 1]))
         /\ i' = i + 1 /\ UNCHANGED <<pid, ex>>
SpecR == InitR /\ [][NextR]_rvars

Brief(v) == [t |-> v.t, a |-> v.a, o |-> v.o, f |-> v.f, d |-> v.d, m |-> v.m]
EmitR ==
  LET s == Settled IN
  /\ (i < Len(ex.sched) /\ ~En(s, ex.sched[i + 1]) /\ ~s.aborted)
        => PrintT(<<"STUCK", ex.id, i + 1>>)                    \* the checker ran a transition the semantics has disabled
  /\ (i + 2 <= Len(ex.sched) /\ ~s.aborted) =>
       LET a == ex.sched[i + 1]
           b == ex.sched[i + 2] IN
       (a # b /\ En(s, a) /\ En(s, b)) =>
          LET sa   == Do(s, a)
              sb   == Do(s, b)
              ok1  == ~sa.aborted /\ ~sb.aborted
              enAB == ok1 /\ En(sa, b)
              enBA == ok1 /\ En(sb, a)
              sab  == IF enAB THEN Do(sa, b) ELSE sa
              sba  == IF enBA THEN Do(sb, a) ELSE sb
              ok2  == ok1 /\ ~sab.aborted /\ ~sba.aborted
              com  == enAB /\ enBA /\ SameState(s, sab, sba)
              key  == <<ex.tr[i + 1], ex.tr[i + 2], IF com THEN "commute" ELSE "not">>
          IN  (ok2 /\ enAB /\ key \notin TLCGet(2)) =>
                 /\ PrintT(ToJson([k |-> "real", id |-> ex.id, step |-> i + 1, commute |-> com, pid |-> pid,
                                   r1 |-> ex.tr[i + 1], r2 |-> ex.tr[i + 2],
                                   v1 |-> Brief(Executed(s, a)), v2 |-> Brief(Executed(sa, b))]))
                 /\ TLCSet(2, TLCGet(2) \cup {key})
\* extension: the first step enables the second one (disabled before it)
EmitEn ==
  LET s == Settled IN
  (i + 2 <= Len(ex.sched) /\ ~s.aborted) =>
     LET a == ex.sched[i + 1]
         b == ex.sched[i + 2] IN
     (a # b /\ En(s, a) /\ IsTrans(s, b) /\ ~EnabledMC(P, s, b)) =>
        LET sa  == Do(s, a)
            key == <<ex.tr[i + 1], ex.tr[i + 2], "en">> IN
        (~sa.aborted /\ En(sa, b) /\ key \notin TLCGet(2)) =>
           /\ PrintT(ToJson([k |-> "real-en", id |-> ex.id, step |-> i + 1, commute |-> FALSE, pid |-> pid,
                             r1 |-> ex.tr[i + 1], r2 |-> ex.tr[i + 2],
                             v1 |-> Brief(Executed(s, a)), v2 |-> Brief(Executed(sa, b))]))
           /\ TLCSet(2, TLCGet(2) \cup {key})
=============================================================================
