SPECIFICATION Spec
INVARIANT I_MutexOwnership
INVARIANT I_MutexExclusion
INVARIANT I_SemConservation
INVARIANT I_CvConsistency
INVARIANT I_BarrierGroups
INVARIANT I_PhaseConsistency
INVARIANT I_CommExactlyOnce
INVARIANT I_Lifecycle
INVARIANT I_FailureReported
INVARIANT PrintOutcomes
PROPERTY ClockMonotone
PROPERTY MutexFifoHandoff
PROPERTY SemFifo
PROPERTY CvFifo
PROPERTY MailboxFifo
PROPERTY MessFifo
PROPERTY SuspendedNoProgress
