SPECIFICATION Spec
INVARIANT Inv
INVARIANT PrintOutcomes
PROPERTY ClockMonotone
PROPERTY MutexFifoHandoff
PROPERTY SemFifo
PROPERTY CvFifo
