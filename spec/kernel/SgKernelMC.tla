------------------------------ MODULE SgKernelMC ------------------------------
(* Exhaustive exploration of the reference semantics: every interleaving of every program of a batch.            *)
(* PROGS (environment) names a JSON file holding a list of programs.  Terminal outcomes are printed (OUT lines)   *)
(* so that the harness can compare what the real kernel did with the set of outcomes the semantics allows.        *)
EXTENDS SgKernel, Json, IOUtils

Progs == JsonDeserialize(IOEnv.PROGS)

VARIABLES pid, st
vars == <<pid, st>>
P == Progs[pid]

\* the observation step of an actor is local and always enabled: it is merged with the step that produced the answer
\* (to a fixpoint: the termination of an actor can make a communication fail and so answer another actor)
RECURSIVE SettleAll(_, _)
SettleAll(Pr, s) ==
  IF s.aborted THEN s
  ELSE IF \E a \in Actors(Pr) : s.ph[a] = "answered" /\ ~s.susp[a]          \* (a suspended actor observes nothing)
  THEN LET a == CHOOSE x \in Actors(Pr) : s.ph[x] = "answered" /\ ~s.susp[x] IN
       SettleAll(Pr, IF MoreSub(Pr, s, a) THEN NextSub(Pr, s, a) ELSE Ret(Pr, s, a))
  ELSE IF \E a \in Actors(Pr) : s.ph[a] = "dying"
  THEN LET a == CHOOSE x \in Actors(Pr) : s.ph[x] = "dying" IN SettleAll(Pr, Terminate(Pr, s, a, "dead"))
  ELSE IF \E a \in Actors(Pr) : s.ph[a] = "exiting"
  THEN LET a == CHOOSE x \in Actors(Pr) : s.ph[x] = "exiting" IN SettleAll(Pr, RunOnExit(Pr, s, a))
  ELSE s

Init == pid \in 1..Len(Progs) /\ st = S0(Progs[pid])

Step(a) == /\ st.ph[a] = "run" /\ (P.gran = "mc" => EnabledMC(P, st, a))
           /\ \E v \in Choices(P, st, a) : st' = SettleAll(P, Handle(P, Chosen(P, st, a, v), a))
Fire(a) == CanFire(st, a) /\ st' = SettleAll(P, FireTimer(P, st, a))
Comp(c) == P.gran # "mc" /\ CanComplete(st, c) /\ st' = SettleAll(P, Complete(P, st, c))
KillT(a) == KillDue(st, a) /\ st' = SettleAll(P, KillActor(P, st, a))
DKill    == OnlyDaemons(P, st) /\ st' = SettleAll(P, DaemonKill(P, st))
Adv     == CanAdvance(P, st) /\ st' = Advance(P, st)

Next == /\ ~st.aborted
        /\ UNCHANGED pid
        /\ \/ \E a \in Actors(P) : Step(a) \/ Fire(a) \/ KillT(a)
           \/ \E c \in 1..Len(st.act) : Comp(c)
           \/ DKill
           \/ Adv
Spec == Init /\ [][Next]_vars

I_MutexOwnership == MutexOwnership(P, st)
I_MutexExclusion == MutexExclusion(P, st)
I_SemConservation == SemConservation(P, st)
I_CvConsistency == CvConsistency(P, st)
I_BarrierGroups == BarrierGroups(P, st)
I_PhaseConsistency == PhaseConsistency(P, st)
I_CommExactlyOnce == CommExactlyOnce(P, st)
I_Lifecycle == Lifecycle(P, st)
I_FailureReported == FailureReported(P, st)
Inv == KernelInv(P, st)

\* C03: the clock never goes backwards; C04: FIFO hand-off of mutexes; C05/C06: FIFO queues only shrink from the head
\* or by a timeout of the leaver
IsPrefixOrLeaver(old, new) ==   \* new is old minus some elements, order kept, possibly with elements appended
  \E n \in 0..Len(new) : LET kept == SubSeq(new, 1, n) IN
     /\ \A i \in 1..Len(kept) : \E j \in 1..Len(old) : old[j] = kept[i]
     /\ \A i, j \in 1..Len(kept) : i < j =>
           (CHOOSE x \in 1..Len(old) : old[x] = kept[i]) < (CHOOSE y \in 1..Len(old) : old[y] = kept[j])
ClockMonotone == [][st'.now >= st.now]_vars
MutexFifoHandoff ==
  [][\A m \in Mutexes(P) :
        (st.own[m] # 0 /\ st'.own[m] # st.own[m] /\ st.mq[m] # <<>>) =>
            /\ st'.own[m] = Head(st.mq[m])
            /\ Len(st'.mq[m]) >= Len(st.mq[m]) - 1
            /\ SubSeq(st'.mq[m], 1, Len(st.mq[m]) - 1) = Tail(st.mq[m])]_vars
SemFifo ==
  [][\A x \in Sems(P) :
        (st.sq[x] # <<>> /\ st'.nrel[x] = st.nrel[x] + 1) => st'.sq[x] = Tail(st.sq[x]) /\ st'.ngr[x] = st.ngr[x] + 1]_vars
\* C08 / C09: a matching takes the oldest queued entry of the opposite kind (entries leave a queue from the first match)
MailboxFifo ==
  [][\A b \in Mboxes(P) : \A i \in 1..Len(st.mbq[b]) :
        LET c == st.mbq[b][i] IN
        (st.act[c].st = "wait" /\ st'.act[c].st = "run") =>
            \* nothing older of the same kind that the peer would also have accepted
            \A j \in 1..(i - 1) : LET d == st.act[st.mbq[b][j]] IN
                  IsSend(d) # IsSend(st.act[c])
                  \/ (IsSend(d) /\ ~Accepts(st'.act[c].flt, d.tag)) \/ (IsRecv(d) /\ ~Accepts(d.flt, st'.act[c].tag))]_vars
MessFifo ==
  [][\A q \in Mqs(P) : \A i \in 1..Len(st.mqq[q]) :
        LET c == st.mqq[q][i] IN
        (st.act[c].st = "wait" /\ st'.act[c].st = "done") =>
            \A j \in 1..(i - 1) : IsSend(st.act[st.mqq[q][j]]) # IsSend(st.act[c])]_vars
CvFifo ==
  [][\A c \in Cvs(P) : IsPrefixOrLeaver(st.cq[c], st'.cq[c])]_vars
\* C11: a suspended actor makes no progress until it is resumed (or killed)
SuspendedNoProgress ==
  [][\A a \in Actors(P) : (st.susp[a] /\ st'.susp[a]) => (st'.obs[a] = st.obs[a] /\ st'.pc[a] = st.pc[a] /\ st'.oerun[a] = st.oerun[a])]_vars

IsTerminal == st.aborted \/ Terminal(P, st)
PrintOutcomes == IsTerminal => PrintT(<<"OUT", pid, ToJson(Outcome(P, st))>>)
=============================================================================
