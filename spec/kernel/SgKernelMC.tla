------------------------------ MODULE SgKernelMC ------------------------------
(* Exhaustive exploration of the reference semantics: every interleaving of every program of a batch.            *)
(* PROGS (environment) names a JSON file holding a list of programs.  Terminal outcomes are printed (OUT lines)   *)
(* so that the harness can compare what the real kernel did with the set of outcomes the semantics allows.        *)
EXTENDS SgKernel, Json, IOUtils

Progs == JsonDeserialize(IOEnv.PROGS)

VARIABLES pid, st
vars == <<pid, st>>
P == Progs[pid]

\* the observation step of an actor is local and always enabled: it is merged with the step that produced the answer
RECURSIVE Settle(_, _, _)
Settle(Pr, s, as) == IF as = {} THEN s
                     ELSE LET a == CHOOSE x \in as : TRUE IN
                          Settle(Pr, IF s.ph[a] = "answered" THEN Ret(Pr, s, a) ELSE s, as \ {a})
SettleAll(Pr, s) == IF s.aborted THEN s ELSE Settle(Pr, s, Actors(Pr))

Init == pid \in 1..Len(Progs) /\ st = S0(Progs[pid])

Step(a) == st.ph[a] = "run" /\ st' = SettleAll(P, Handle(P, st, a))
Fire(a) == st.ph[a] = "blocked" /\ Due(st, a) /\ st' = SettleAll(P, FireTimer(P, st, a))
Adv     == CanAdvance(P, st) /\ st' = Advance(P, st)

Next == /\ ~st.aborted
        /\ UNCHANGED pid
        /\ \/ \E a \in Actors(P) : Step(a) \/ Fire(a)
           \/ Adv
Spec == Init /\ [][Next]_vars

Inv == KernelInv(P, st)

\* C03: the clock never goes backwards; C04: FIFO hand-off of mutexes; C05/C06: FIFO queues only shrink from the head
\* or by a timeout of the leaver
IsPrefixOrLeaver(old, new) ==   \* new is old minus some elements, order kept, possibly with elements appended
  \E n \in 0..Len(new) : LET kept == SubSeq(new, 1, n) IN
     /\ \A i \in 1..Len(kept) : \E j \in 1..Len(old) : old[j] = kept[i]
     /\ \A i, j \in 1..Len(kept) : i < j =>
           (CHOOSE x \in 1..Len(old) : old[x] = kept[i]) < (CHOOSE y \in 1..Len(old) : old[y] = kept[j])
ClockMonotone == [][st'.now >= st.now]_vars
MutexFifoHandoff ==
  [][\A m \in Mutexes(P) :
        (st.own[m] # 0 /\ st'.own[m] # st.own[m] /\ st.mq[m] # <<>>) =>
            /\ st'.own[m] = Head(st.mq[m])
            /\ Len(st'.mq[m]) >= Len(st.mq[m]) - 1
            /\ SubSeq(st'.mq[m], 1, Len(st.mq[m]) - 1) = Tail(st.mq[m])]_vars
SemFifo ==
  [][\A x \in Sems(P) :
        (st.sq[x] # <<>> /\ st'.nrel[x] = st.nrel[x] + 1) => st'.sq[x] = Tail(st.sq[x]) /\ st'.ngr[x] = st.ngr[x] + 1]_vars
CvFifo ==
  [][\A c \in Cvs(P) : IsPrefixOrLeaver(st.cq[c], st'.cq[c])]_vars

IsTerminal == st.aborted \/ Terminal(P, st)
PrintOutcomes == IsTerminal => PrintT(<<"OUT", pid, ToJson(Outcome(P, st))>>)
=============================================================================
