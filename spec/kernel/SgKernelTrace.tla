----------------------------- MODULE SgKernelTrace -----------------------------
(* Trace validation: executions recorded from the real kernel (driver kdrv + hook H1) must be behaviours of the  *)
(* reference semantics SgKernel, with every invariant evaluated in every state of the observed execution.         *)
(* TRACE (environment) = ndjson file, several executions separated by reset lines; PROGS = the programs.          *)
(* Line vocabulary: reset, issue, handle, answer, ret, adv, end (+ killed, ignored after end).                    *)
(* Unlogged step: the expiry of a condition-variable timeout whose mutex is busy (no answer is sent) is a silent  *)
(* action, so acceptance = "a state having consumed every line is reachable": register 1 holds the highest line  *)
(* index reached, printed by the post-condition; accepted iff it equals Len(Tr) + 1.                               *)
EXTENDS SgKernel, Json, IOUtils

Progs == JsonDeserialize(IOEnv.PROGS)
Tr    == ndJsonDeserialize(IOEnv.TRACE)

VARIABLES pid, st, l, pend, fin
vars == <<pid, st, l, pend, fin>>
P == Progs[pid]
Ln == Tr[l]

NewlyAnswered(old, new) == { a \in DOMAIN new.ph : new.ph[a] = "answered" /\ old.ph[a] # "answered" }

Init == /\ l = 1 /\ pid = 1 /\ st = S0(Progs[1]) /\ pend = {} /\ fin = TRUE

More == l <= Len(Tr)
Consume == l' = l + 1

TReset == /\ More /\ Ln.e = "reset" /\ fin
          /\ pid' = Ln.pid /\ st' = S0(Progs[Ln.pid]) /\ pend' = {} /\ fin' = FALSE /\ Consume

\* after the end of an execution (deadlock report, abort) the kernel kills the actors: not modelled, skipped
TSkip == /\ More /\ fin /\ Ln.e # "reset" /\ Consume /\ UNCHANGED <<pid, st, pend, fin>>

Live == More /\ ~fin /\ ~st.aborted

\* a killed actor may still log the call in which it discovers that it was killed
TIssueDying == /\ Live /\ Ln.e = "issue" /\ Ln.a \in Actors(P) /\ st.ph[Ln.a] = "dying"
               /\ Consume /\ UNCHANGED <<pid, st, pend, fin>>
\* ForcefulKillException reaches the actor: killed by another actor (already dying) or by its kill time, exactly then
TKilled == /\ Live /\ Ln.e = "killed" /\ Ln.a \in Actors(P)
           /\ \/ /\ st.ph[Ln.a] \in {"exiting", "dead"} /\ UNCHANGED <<st, pend>>   \* its callbacks ran first
              \/ /\ st.ph[Ln.a] = "dying" \/ KillDue(st, Ln.a)
                 /\ LET base == IF st.ph[Ln.a] = "dying" THEN st ELSE KillActor(P, st, Ln.a) IN
                    /\ st' = Terminate(P, base, Ln.a, "dead")
                    /\ pend' = (pend \ {Ln.a}) \cup NewlyAnswered(base, st')
           /\ Consume /\ UNCHANGED <<pid, fin>>
\* an on_exit callback runs: it must be the next one in reverse registration order; failed is false on a normal end.
\* (a killed actor runs its callbacks before the ForcefulKillException reaches its code: "killed" may come after)
TOnExit == /\ Live /\ Ln.e = "onexit" /\ Ln.a \in Actors(P)
           /\ LET base == IF st.ph[Ln.a] = "exiting" THEN st
                           ELSE IF st.ph[Ln.a] = "dying" THEN Terminate(P, st, Ln.a, "dead")
                           ELSE IF KillDue(st, Ln.a) THEN Terminate(P, KillActor(P, st, Ln.a), Ln.a, "dead")
                           ELSE st IN
              /\ base.ph[Ln.a] = "exiting" /\ base.oex[Ln.a] # <<>> /\ Head(base.oex[Ln.a]) = Ln.id
              /\ (base.pres[Ln.a] = "done" => ~Ln.failed)
              /\ (base.hoff[Ln.a] => Ln.failed)                 \* C10: the host failed under the actor
              /\ st' = RunOnExit(P, base, Ln.a)
              /\ pend' = (pend \ (IF st.ph[Ln.a] = "exiting" THEN {} ELSE {Ln.a})) \cup NewlyAnswered(st, st')
           /\ Consume /\ UNCHANGED <<pid, fin>>

TIssue == /\ Live /\ Ln.e = "issue"
          /\ Ln.a \in Actors(P) /\ st.ph[Ln.a] = "run" /\ st.pc[Ln.a] = Ln.k /\ Cur(P, st, Ln.a).op = Ln.op
          /\ st' = IF IsLocal(P, st, Ln.a) THEN LocalRet(P, st, Ln.a)          \* no simcall: returns at once
                    ELSE [st EXCEPT !.ph[Ln.a] = "issued",
                                    !.tgi[Ln.a] = IF HasTarget(Cur(P, st, Ln.a)) THEN st.inc[Cur(P, st, Ln.a).o] ELSE 0]
          /\ Consume /\ UNCHANGED <<pid, pend, fin>>

\* the simcall class reported by the kernel must be the one the operation is at
CallOk(op, sub, call) ==
  CASE op \in {"put", "puta", "putd", "sendt"} /\ sub = 1 -> call = "actor::CommIsendSimcall"
    [] op \in {"get", "geta", "recvf"} /\ sub = 1 -> call = "actor::CommIrecvSimcall"
    [] op \in {"mput", "mputa"} /\ sub = 1 -> call = "actor::MessIputSimcall"
    [] op \in {"mget", "mgeta"} /\ sub = 1 -> call = "actor::MessIgetSimcall"
    [] op \in {"put", "get", "mput", "mget", "exec"} /\ sub = 2 -> call = "actor::ActivityWaitSimcall"
    [] op \in {"wait", "waitfor"} -> call = "actor::ActivityWaitSimcall"
    [] op = "test" -> call = "actor::ActivityTestSimcall"
    [] OTHER -> TRUE

\* C43: the transition as the checker decoded it (hook H4, merged into the handle line by the harness: ctype, cobj, cown /
\* ccap / cfrom / cto, ca = actor the checker believes it ran) must be the one the application executed and the one the
\* specification predicts for this operation
McType(op, sub) ==
  CASE op = "lock" /\ sub = 1 -> "MUTEX_ASYNC_LOCK"  [] op = "lock" /\ sub = 2 -> "MUTEX_WAIT"
    [] op = "trylock" -> "MUTEX_TRYLOCK"            [] op = "unlock" -> "MUTEX_UNLOCK"
    [] op = "acq" /\ sub = 1 -> "SEM_ASYNC_LOCK"     [] op = "acq" /\ sub = 2 -> "SEM_WAIT"      [] op = "rel" -> "SEM_UNLOCK"
    [] op = "bar" /\ sub = 1 -> "BARRIER_ASYNC_LOCK" [] op = "bar" /\ sub = 2 -> "BARRIER_WAIT"
    [] op \in {"puta", "putd"} \/ (op = "put" /\ sub = 1) -> "iSend"
    [] op = "geta" \/ (op = "get" /\ sub = 1) -> "iRecv"
    [] op = "wait" \/ (op \in {"put", "get"} /\ sub = 2) -> "WaitComm"
    [] op = "test" -> "TestComm"                    [] op = "sleep" -> "ActorSleep"
    [] op \in {"cvwait", "cvwaitfor"} /\ sub = 1 -> "CONDVAR_ASYNC_LOCK"
    [] op \in {"cvwait", "cvwaitfor"} /\ sub = 2 -> "CONDVAR_WAIT"
    [] op \in {"cvwait", "cvwaitfor"} /\ sub = 3 -> "MUTEX_WAIT"
    [] op = "sig" -> "CONDVAR_SIGNAL"               [] op = "bcast" -> "CONDVAR_BROADCAST"
    [] op = "join" -> "ActorJoin"                   [] op = "create" -> "ActorCreate"
    [] op = "rand" -> "Random"
    [] OTHER -> "?"
CheckerAgrees(ln, base, new) ==
  LET a == ln.a   op == Cur(P, base, a)   t == McType(op.op, base.sub[a]) IN
  /\ ln.ca = a /\ ln.ctype = t
  /\ (t \in {"MUTEX_ASYNC_LOCK", "MUTEX_WAIT", "MUTEX_TRYLOCK", "MUTEX_UNLOCK"} =>
        LET m == IF op.op \in {"cvwait", "cvwaitfor"} THEN op.p ELSE op.o IN ln.cobj = m /\ ln.cown = new.own[m])
  /\ (t \in {"SEM_ASYNC_LOCK", "SEM_UNLOCK"} => ln.cobj = op.o /\ ln.ccap = new.val[op.o] - Len(new.sq[op.o]))   \* SemaphoreObserver
  /\ (t = "SEM_WAIT" => ln.cobj = op.o /\ ln.ccap = new.val[op.o])
  /\ (t \in {"BARRIER_ASYNC_LOCK", "BARRIER_WAIT", "iSend", "iRecv"} => ln.cobj = op.o)
  /\ (t \in {"ActorJoin", "ActorCreate"} => ln.ctgt = op.o)
  /\ (t = "Random" => ln.cmax = op.o /\ ln.cval = ln.tc)        \* the outcome the checker believes it chose = the one the kernel applied
  /\ (t = "WaitComm" => LET c == IF op.op = "wait" THEN base.hnd[a][op.o].c ELSE base.cur[a] IN
                          ln.cobj = new.act[c].mb /\ ln.cfrom = new.act[c].src /\ ln.cto = new.act[c].dst)

THandle == /\ Live /\ Ln.e = "handle" /\ Ln.a \in Actors(P)
           /\ \/ st.ph[Ln.a] = "issued"
              \/ MoreSub(P, st, Ln.a) /\ Ln.a \notin pend /\ ~st.susp[Ln.a]      \* next simcall of the same operation (put = isend + wait)
           /\ LET base0 == IF st.ph[Ln.a] = "issued" THEN st ELSE NextSub(P, st, Ln.a)
                  base  == Chosen(P, base0, Ln.a, Ln.tc) IN                   \* (MC_random: the outcome applied by the kernel)
              /\ (P.gran = "mc" \/ CallOk(Cur(P, base, Ln.a).op, base.sub[Ln.a], Ln.call))
              /\ (P.gran = "mc" => EnabledMC(P, base, Ln.a))        \* C43: the checker only fires enabled transitions
              /\ st' = Handle(P, base, Ln.a)
              /\ ("ctype" \in DOMAIN Ln => CheckerAgrees(Ln, base, st'))
              /\ "cmis" \notin DOMAIN Ln          \* the checker and the application do not even agree on how many steps ran
              /\ pend' = pend \cup NewlyAnswered(base, st')
           /\ fin' = st'.undef          \* undefined behaviour reached: the rest of this execution is not examined
           /\ Consume /\ UNCHANGED <<pid>>

\* C39/C43: the actors the checker found enabled / disabled (hook H4, RemoteApp::get_actors_status) once the application has
\* settled after a step are exactly those whose next transition the specification enables / disables
EnabledNow(a) == LET b == IF MoreSub(P, st, a) THEN NextSub(P, st, a) ELSE st IN
                 b.ph[a] \in {"run", "issued"} /\ b.pc[a] <= NOps(P, a) /\ EnabledMC(P, b, a)
PendingNow(a) == st.ph[a] = "issued" \/ MoreSub(P, st, a)
TCStatus == /\ Live /\ Ln.e = "cstatus" /\ P.gran = "mc"
            /\ \A i \in 1..Len(Ln.en) : Ln.en[i] \in Actors(P) /\ EnabledNow(Ln.en[i])
            /\ \A i \in 1..Len(Ln.dis) : Ln.dis[i] \in Actors(P) /\ PendingNow(Ln.dis[i]) /\ ~EnabledNow(Ln.dis[i])
            /\ \A a \in Actors(P) : PendingNow(a) => \E i \in 1..Len(Ln.en) + Len(Ln.dis) : (Ln.en \o Ln.dis)[i] = a
            /\ Consume /\ UNCHANGED <<pid, st, pend, fin>>

\* an answer sent by the kernel: either one the semantics already produced, or the completion of a timer that is due
TAnswer == /\ Live /\ Ln.e = "answer" /\ Ln.a \in Actors(P)
           /\ \/ /\ Ln.a \in pend /\ pend' = pend \ {Ln.a} /\ st' = st
              \/ /\ Ln.a \notin pend /\ st.ph[Ln.a] = "dying" /\ UNCHANGED <<st, pend>>   \* the activity of a victim ends
              \/ /\ Ln.a \notin pend /\ KillDue(st, Ln.a) /\ st.ph[Ln.a] = "blocked"         \* kill time of a blocked actor
                 /\ st' = KillActor(P, st, Ln.a) /\ pend' = pend \cup NewlyAnswered(st, st')
              \/ /\ Ln.a \notin pend /\ CanFire(st, Ln.a)
                 /\ st' = FireTimer(P, st, Ln.a)
                 /\ st'.ph[Ln.a] = "answered"
                 /\ pend' = pend \cup (NewlyAnswered(st, st') \ {Ln.a})
              \/ /\ Ln.a \notin pend /\ st.ph[Ln.a] = "blocked" /\ st.blk[Ln.a].kind = "act"
                 /\ CanComplete(st, st.blk[Ln.a].o)                 \* the activity it waits for completes
                 /\ st' = Complete(P, st, st.blk[Ln.a].o)
                 /\ pend' = pend \cup (NewlyAnswered(st, st') \ {Ln.a})
           /\ Consume /\ UNCHANGED <<pid, fin>>

\* silent: a condition-variable timeout expires while the mutex is busy (the waiter moves to the mutex queue)
TSilentFire == /\ Live
               /\ \E a \in Actors(P) :
                    /\ st.ph[a] = "blocked" /\ Due(st, a) /\ st.blk[a].kind = "cv"
                    /\ st' = FireTimer(P, st, a)
                    /\ st'.ph[a] = "blocked"
               /\ UNCHANGED <<pid, l, pend, fin>>
\* silent: maestro kills the daemons once only daemons remain
TSilentDaemonKill == /\ Live /\ OnlyDaemons(P, st) /\ st' = DaemonKill(P, st)
                     /\ pend' = pend \cup NewlyAnswered(st, st')
                     /\ UNCHANGED <<pid, l, fin>>
\* silent: an activity nobody is blocked on completes (asynchronous / detached operations)
TSilentComplete == /\ Live
                   /\ \E c \in 1..Len(st.act) : CanComplete(st, c) /\ Waiters(P, st, c) = {} /\ st' = Complete(P, st, c)
                   /\ UNCHANGED <<pid, l, pend, fin>>

\* (A failure caused by the death of the peer is processed by the kernel at the end of the scheduling round: a test() made in
\* the very round of the failure may still answer false. FreshFail recognises that case.)
FreshFail(a) == LET op == Cur(P, st, a) IN
                /\ op.op = "test" /\ op.o <= Len(st.hnd[a])
                /\ st.act[st.hnd[a][op.o].c].st = "failed" /\ st.act[st.hnd[a][op.o].c].ffd = st.now
\* (CommImpl::finish looks at the hosts again each time it runs: waiting on a communication that completed *before* its peer's
\* host was turned off reports a NetworkFailureException. C10 does not say what such a late wait must report: left open.)
LateWaitOnDeadPeer(a) ==
  LET op == Cur(P, st, a)
      c  == IF op.op \in {"wait", "waitfor"} /\ op.o <= Len(st.hnd[a]) THEN st.hnd[a][op.o].c ELSE 0 IN
  /\ c # 0 /\ st.act[c].kind = "comm" /\ st.act[c].st = "done"
  /\ (st.act[c].src # 0 /\ st.hoff[st.act[c].src]) \/ (st.act[c].dst # 0 /\ st.hoff[st.act[c].dst])
TRet == /\ Live /\ Ln.e = "ret" /\ Ln.a \in Actors(P)
        /\ st.ph[Ln.a] = "answered" /\ Ln.a \notin pend /\ ~MoreSub(P, st, Ln.a)
        /\ ~st.susp[Ln.a]                                  \* C11: a suspended actor makes no progress until resumed
        /\ LET adj == IF st.res[Ln.a] = "true" /\ Ln.res = "false" /\ FreshFail(Ln.a) THEN [st EXCEPT !.res[Ln.a] = "false"]
                      ELSE IF st.res[Ln.a] = "ok" /\ Ln.res = "network_failure" /\ LateWaitOnDeadPeer(Ln.a)
                      THEN [st EXCEPT !.res[Ln.a] = "network_failure", !.rval[Ln.a] = 0]
                      ELSE st IN
           /\ adj.pc[Ln.a] = Ln.k /\ adj.res[Ln.a] = Ln.res /\ adj.rval[Ln.a] = Ln.val
           /\ (Ln.clk = adj.now \/ (Ln.clk = -7 /\ ~P.timed))                         \* C03: returns at the exact date
           /\ \A m \in Mutexes(P) : Ln.own[m] = adj.own[m]                             \* Mutex::get_owner()
           /\ \A x \in Sems(P) : Ln.cap[x] = adj.val[x]                                \* Semaphore::get_capacity()
           /\ st' = Ret(P, adj, Ln.a)
           /\ pend' = pend \cup NewlyAnswered(adj, st')      \* a terminating actor makes its communications in flight fail
        /\ Consume /\ UNCHANGED <<pid, fin>>

\* every produced answer has been sent, except to suspended actors: the end of the sleep activity of a suspended actor (the
\* actor it joined has died) is processed by the kernel at its next clock update, possibly never
SuspPend == \A a \in pend : st.susp[a]
NonePend == pend = {}
\* the clock moves only when nobody can run, every produced answer has been sent, and exactly to the next date
TAdv == /\ Live /\ Ln.e = "adv"
        /\ \/ Ln.clk = st.now /\ st' = st
           \/ /\ Ln.clk > st.now /\ SuspPend /\ CanAdvance(P, st)
              /\ (TimerDates(P, st) # {} => Ln.clk <= MinDate(TimerDates(P, st)))
              \* C03: exactly to the next date (the end of the latency phase of a communication is an internal date of the
              \* network model at which nothing observable happens: allowed when the link has a latency)
              /\ ((FreeRunning(st) = {} /\ ~(P.lat > 0 /\ Running(st) # {})) => Ln.clk = MinDate(TimerDates(P, st)))
              /\ st' = [st EXCEPT !.now = Ln.clk]
           \/ /\ Ln.clk = -7 /\ ~P.timed /\ NonePend /\ ~SomeReady(P, st)       \* off-grid date: only programs
              /\ TimerDates(P, st) = {} /\ FreeRunning(st) # {} /\ st' = st          \* without timed operations
        /\ Consume /\ UNCHANGED <<pid, pend, fin>>

TEnd == /\ More /\ ~fin /\ Ln.e = "end"
        /\ \/ Ln.how = "normal" /\ ~st.aborted /\ AllDone(P, st) /\ NonePend
           \/ Ln.how = "deadlock" /\ Deadlocked(P, st) /\ SuspPend
           \/ /\ Ln.how \in {"abort", "signal"}       \* xbt_assert: in the handler, or actor-side on the same condition before the simcall
              /\ \/ st.aborted
                 \/ \E a \in Actors(P) : st.ph[a] = "issued" /\ Handle(P, st, a).aborted
        /\ fin' = TRUE /\ Consume /\ UNCHANGED <<pid, st, pend>>

\* end of an execution explored by simgrid-mc (the application is simply abandoned by the checker): the outcome reached,
\* as the specification sees it, is printed for the harness (C38: set of outcomes covered by the exploration)
TXEnd == /\ More /\ ~fin /\ Ln.e = "xend" /\ NonePend
         /\ PrintT(<<"TOUT", Ln.run, SomeReady(P, st), ToJson(Outcome(P, st))>>)
         /\ fin' = TRUE /\ Consume /\ UNCHANGED <<pid, st, pend>>

Next == TXEnd \/ TCStatus \/ TReset \/ TSkip \/ TIssueDying \/ TKilled \/ TOnExit \/ TIssue \/ THandle \/ TAnswer \/ TSilentFire \/ TSilentComplete \/ TSilentDaemonKill \/ TRet \/ TAdv \/ TEnd
Spec == Init /\ [][Next]_vars

I_MutexOwnership == fin \/ MutexOwnership(P, st)
I_MutexExclusion == fin \/ MutexExclusion(P, st)
I_SemConservation == fin \/ SemConservation(P, st)
I_CvConsistency == fin \/ CvConsistency(P, st)
I_BarrierGroups == fin \/ BarrierGroups(P, st)
I_PhaseConsistency == fin \/ PhaseConsistency(P, st)
I_CommExactlyOnce == fin \/ CommExactlyOnce(P, st)
I_Lifecycle == fin \/ Lifecycle(P, st)
I_FailureReported == fin \/ FailureReported(P, st)
Inv == fin \/ KernelInv(P, st)

\* register 1 = highest line consumed so far (needs -workers 1); read by the harness when a trace is rejected
Progress == TLCSet(1, IF TLCGet(1) > l THEN TLCGet(1) ELSE l)
ProgressInv == Progress
AtEnd == PrintT(<<"PROGRESS", TLCGet(1), Len(Tr)>>)
ASSUME TLCSet(1, 0)
=============================================================================
