SPECIFICATION SpecEq
INVARIANT I_MutexOwnership
INVARIANT I_MutexExclusion
INVARIANT I_SemConservation
INVARIANT I_CvConsistency
INVARIANT I_BarrierGroups
INVARIANT I_PhaseConsistency
INVARIANT I_CommExactlyOnce
INVARIANT ProgressInv
POSTCONDITION AtEnd
