SPECIFICATION SpecEq
INVARIANT Inv
INVARIANT ProgressInv
POSTCONDITION AtEnd
