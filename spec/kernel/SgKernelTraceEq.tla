---------------------------- MODULE SgKernelTraceEq ----------------------------
(* C01 / C02: two runs of the same program must give the same observable results.  TLC cannot quantify over      *)
(* implementation runs, so the recorded run A is taken as the specification of run B: every line of B must be     *)
(* (1) consumable by the reference semantics (SgKernelTrace!Next) and (2) equal to the next line of A in its       *)
(* stream.  Streams: the maestro stream (handle / answer / adv / end lines, sequential by construction) and one   *)
(* stream per actor (issue / ret / killed lines): with contexts/nthreads > 1 the actor-side lines of different     *)
(* actors are concurrent, so only their per-actor order is an observable.                                          *)
(* REF (environment) = JSON list, one entry per execution: [m |-> <<lines>>, a |-> <<<<lines of actor 1>>, ...>>]  *)
EXTENDS SgKernelTrace

RefS == JsonDeserialize(IOEnv.REF)

VARIABLES run, rp
varsEq == <<vars, run, rp>>

ActorLine(ln) == ln.e \in {"issue", "ret", "killed", "onexit"}
Zero(r) == [m |-> 0, a |-> [i \in 1..Len(RefS[r].a) |-> 0]]
Consumed(r, p) == p.m = Len(RefS[r].m) /\ \A i \in 1..Len(RefS[r].a) : p.a[i] = Len(RefS[r].a[i])

InitEq == Init /\ run = 0 /\ rp = [m |-> 0, a |-> <<>>]

Match ==
  IF Ln.e = "reset" THEN /\ (run > 0 => Consumed(run, rp))       \* the previous execution of B is not shorter than A
                         /\ run' = Ln.run /\ rp' = Zero(Ln.run)
  ELSE IF Ln.e = "eof" THEN Consumed(run, rp) /\ UNCHANGED <<run, rp>>
  ELSE IF ActorLine(Ln)
       THEN /\ Ln.a \in 1..Len(RefS[run].a)
            /\ rp.a[Ln.a] < Len(RefS[run].a[Ln.a])
            /\ RefS[run].a[Ln.a][rp.a[Ln.a] + 1] = Ln
            /\ rp' = [rp EXCEPT !.a[Ln.a] = @ + 1] /\ UNCHANGED run
       ELSE /\ rp.m < Len(RefS[run].m)
            /\ RefS[run].m[rp.m + 1] = Ln
            /\ rp' = [rp EXCEPT !.m = @ + 1] /\ UNCHANGED run

TEof == /\ More /\ Ln.e = "eof" /\ fin /\ Consume /\ UNCHANGED <<pid, st, pend, fin>>

NextEq == \/ ((TSilentFire \/ TSilentComplete \/ TSilentDaemonKill) /\ UNCHANGED <<run, rp>>)
          \/ ((TReset \/ (TSkip /\ Ln.e # "eof") \/ TIssueDying \/ TKilled \/ TOnExit \/ TIssue \/ THandle \/ TAnswer \/ TRet \/ TAdv \/ TEnd \/ TEof) /\ Match)
SpecEq == InitEq /\ [][NextEq]_varsEq
=============================================================================
