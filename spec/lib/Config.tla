------------------------------- MODULE Config -------------------------------
(* C48: configuration flags (src/xbt/config.cpp).  Functional core: a registry Reg (data), a state s and the set of   *)
(* outcomes that the specification allows for each entry point.                                                      *)
(*                                                                                                                   *)
(* Reg = sequence of items [name, aliases, type, dflt, cb, rejects]:                                                 *)
(*   type in {"int", "double", "boolean", "string"}; dflt = canonical rendering of the default value;                *)
(*   cb = "yes" (a callback that the harness can see: it must run exactly once per successful store, with the stored *)
(*   value), "no" (no callback), "unknown" (an item of SimGrid itself: its callback is not observable and may accept,*)
(*   refuse with an exception, or end the process);  rejects = values that the validation callback of the item       *)
(*   refuses (known for the driver's own items only).                                                                *)
(* Values are canonical strings (strings are atomic in TLC): the parsing of a literal to the value of each type is   *)
(* ground truth supplied with each operation: pv = [int |-> .., double |-> .., boolean |-> .., string |-> ..], with   *)
(* "ERR" when the literal is not a value of that type.                                                                *)
(*                                                                                                                   *)
(* Set(key, pv): unknown name/alias => error, nothing changes; literal not parsable for the type of the item =>      *)
(* error, nothing changes, no callback; else the parsed value is stored, is_default becomes FALSE and the callback   *)
(* runs once with that value; a refusing callback turns the outcome into an error (what the item holds afterwards is *)
(* left open: the old or the new value).  SetDefault stores (and runs the callback) only while is_default holds and  *)
(* keeps is_default.  Get / IsDefault read.                                                                          *)
EXTENDS Naturals, Sequences, FiniteSets, TLC

Items(Reg) == 1..Len(Reg)
InSeq(q, x) == \E j \in 1..Len(q) : q[j] = x
\* index of the item designated by a name or an alias, 0 if none
Resolve(Reg, key) ==
  IF \E i \in Items(Reg) : Reg[i].name = key THEN CHOOSE i \in Items(Reg) : Reg[i].name = key
  ELSE IF \E i \in Items(Reg) : InSeq(Reg[i].aliases, key) THEN CHOOSE i \in Items(Reg) : InSeq(Reg[i].aliases, key)
  ELSE 0

S0(Reg) == [ val   |-> [i \in Items(Reg) |-> Reg[i].dflt],
             isdef |-> [i \in Items(Reg) |-> TRUE],
             ncb   |-> [i \in Items(Reg) |-> 0] ]       \* ghost: callback invocations since the start

Out(res, cbs, s) == [res |-> res, cbs |-> cbs, s |-> s]
CbOf(it, v) == IF it.cb = "yes" THEN << <<it.name, v>> >> ELSE <<>>

\* storing value v into item i by a Set (unsetdef = TRUE) or by a SetDefault (unsetdef = FALSE)
StoreOutcomes(Reg, s, i, v, unsetdef) ==
  LET it     == Reg[i]
      stored == [s EXCEPT !.val[i] = v, !.isdef[i] = IF unsetdef THEN FALSE ELSE @,
                          !.ncb[i] = @ + (IF it.cb = "no" THEN 0 ELSE 1)]
      \* after a refusal the item holds the old or the new value and may or may not count as set: left open
      refusedStates == { [stored EXCEPT !.val[i] = x, !.isdef[i] = d] : x \in {s.val[i], v}, d \in {s.isdef[i], stored.isdef[i]} }
  IN
  IF it.cb = "unknown"
  THEN {Out("ok", <<>>, stored)} \cup { Out(r, <<>>, x) : r \in {"range_error", "other_exception", "died"}, x \in refusedStates }
  ELSE IF InSeq(it.rejects, v) THEN { Out("range_error", CbOf(it, v), x) : x \in refusedStates }
  ELSE {Out("ok", CbOf(it, v), stored)}

\* Set through a string: set_as_string, set_parse ("--cfg=key:literal"), and the command line
SetOutcomes(Reg, s, key, pv) ==
  LET i == Resolve(Reg, key) IN
  IF i = 0 THEN {Out("unknown_key", <<>>, s)}
  ELSE LET v == pv[Reg[i].type] IN
       IF v = "ERR" THEN {Out("range_error", <<>>, s)}              \* unparsable: rejected, nothing changes, no callback
       ELSE StoreOutcomes(Reg, s, i, v, TRUE)

\* typed entry points (set_value<T>, sg_cfg_set_*): the value is already of the type of the item
SetTypedOutcomes(Reg, s, key, pv) == SetOutcomes(Reg, s, key, pv)

SetDefaultOutcomes(Reg, s, key, pv) ==
  LET i == Resolve(Reg, key) IN
  IF i = 0 THEN {Out("unknown_key", <<>>, s)}
  ELSE IF ~s.isdef[i] THEN {Out("ok", <<>>, s)}                      \* already set: the default is not applied
  ELSE StoreOutcomes(Reg, s, i, pv[Reg[i].type], FALSE)

GetResult(Reg, s, key)   == LET i == Resolve(Reg, key) IN IF i = 0 THEN [res |-> "unknown_key", got |-> ""] ELSE [res |-> "ok", got |-> s.val[i]]
IsDefResult(Reg, s, key) == LET i == Resolve(Reg, key) IN
                            IF i = 0 THEN [res |-> "unknown_key", got |-> ""] ELSE [res |-> "ok", got |-> IF s.isdef[i] THEN "1" ELSE "0"]

\* ---- properties of the design (checked by ConfigMC on a small registry)
TypeOK(Reg, s) == \A i \in Items(Reg) : s.ncb[i] >= 0 /\ s.isdef[i] \in BOOLEAN
\* an item that still counts as default and whose callback never refused holds its default or a value given by SetDefault
DefaultKept(Reg, s, defaults) == \A i \in Items(Reg) : s.isdef[i] => s.val[i] \in defaults[i]
=============================================================================
