SPECIFICATION Spec
INVARIANT Inv
PROPERTY RejectedChangesNothing
PROPERTY AcceptedStores
PROPERTY DefaultDoesNotOverride
