------------------------------- MODULE ConfigMC -------------------------------
(* (M) for C48: every sequence of Set / SetDefault operations (names, aliases, unknown keys; parsable and unparsable   *)
(* literals) on a small registry, with the properties of the design checked on every step.                            *)
EXTENDS Config

Reg == << [name |-> "a/int", aliases |-> <<"a/int-old">>, type |-> "int", dflt |-> "5", cb |-> "yes", rejects |-> <<"-1">>],
          [name |-> "b/bool", aliases |-> <<>>, type |-> "boolean", dflt |-> "0", cb |-> "no", rejects |-> <<>>],
          [name |-> "c/str", aliases |-> <<"c_str">>, type |-> "string", dflt |-> "x", cb |-> "unknown", rejects |-> <<>>] >>
Keys == {"a/int", "a/int-old", "b/bool", "c_str", "nope"}
PV(i, d, b, s) == [int |-> i, double |-> d, boolean |-> b, string |-> s]
Lits == { PV("7", "7", "ERR", "7"), PV("-1", "-1", "ERR", "-1"), PV("1", "1", "1", "1"), PV("ERR", "ERR", "1", "yes") }

VARIABLES st, last, n
vars == <<st, last, n>>
Init == st = S0(Reg) /\ last = [k |-> "init", key |-> "", pv |-> PV("", "", "", ""), res |-> "", cbs |-> <<>>] /\ n = 0
Step(k, key, pv) ==
  \E o \in (IF k = "set" THEN SetOutcomes(Reg, st, key, pv) ELSE SetDefaultOutcomes(Reg, st, key, pv)) :
     st' = o.s /\ last' = [k |-> k, key |-> key, pv |-> pv, res |-> o.res, cbs |-> o.cbs] /\ n' = n + 1
Next == n < 3 /\ \E k \in {"set", "setdefault"}, key \in Keys, pv \in Lits : Step(k, key, pv)
Spec == Init /\ [][Next]_vars

Inv == TypeOK(Reg, st)
I(key) == Resolve(Reg, key)
\* an unknown name or an unparsable literal is an error and changes nothing
RejectedChangesNothing ==
  [][(I(last'.key) = 0 \/ (last'.k = "set" /\ I(last'.key) # 0 /\ last'.pv[Reg[I(last'.key)].type] = "ERR"))
       => last'.res # "ok" /\ st' = st /\ last'.cbs = <<>>]_vars
\* an accepted Set stores exactly the parsed value, unsets is_default and runs a visible callback exactly once with it
AcceptedStores ==
  [][(last'.k = "set" /\ last'.res = "ok") =>
       LET i == I(last'.key)  v == last'.pv[Reg[i].type] IN
       /\ i # 0 /\ v # "ERR" /\ st'.val[i] = v /\ ~st'.isdef[i]
       /\ (Reg[i].cb = "yes" => last'.cbs = << <<Reg[i].name, v>> >> /\ st'.ncb[i] = st.ncb[i] + 1)
       /\ \A j \in Items(Reg) \ {i} : st'.val[j] = st.val[j] /\ st'.isdef[j] = st.isdef[j] /\ st'.ncb[j] = st.ncb[j]]_vars
\* a default never overrides a value that was set
DefaultDoesNotOverride ==
  [][(last'.k = "setdefault" /\ I(last'.key) # 0 /\ ~st.isdef[I(last'.key)]) => st' = st]_vars
=============================================================================
