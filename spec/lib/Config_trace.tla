----------------------------- MODULE Config_trace -----------------------------
(* Trace validation for C48: the operations logged by harness/c48drv.cpp (ndjson, several sessions separated by reset *)
(* lines) must be allowed by Config.tla.  REG = JSON registry, TRACE = ndjson; every line has the same fields          *)
(* (normalised by the harness): e, sid, declared, at_init, argv, k, key, pv, res, got, cbs, val, isdef, nokey.          *)
(* The literal -> value ground truth (pv) is attached to each line by the generator.                                    *)
EXTENDS Config, Json, IOUtils

Reg == JsonDeserialize(IOEnv.REG)
Tr  == ndJsonDeserialize(IOEnv.TRACE)

VARIABLES st, l, dead
vars == <<st, l, dead>>
Ln == Tr[l]

\* callbacks run by the registration of the items (register_option calls update()): one per visible callback, in order
RECURSIVE DeclCbs(_)
DeclCbs(i) == IF i > Len(Reg) THEN <<>> ELSE CbOf(Reg[i], Reg[i].dflt) \o DeclCbs(i + 1)
\* the --cfg= items of the command line are applied in order by the Engine constructor
RECURSIVE ArgvFold(_, _, _, _)
ArgvFold(items, k, s, cbs) ==    \* set of [s, cbs] reachable after items k..Len with every item accepted
  IF k > Len(items) THEN {[s |-> s, cbs |-> cbs]}
  ELSE UNION { ArgvFold(items, k + 1, o.s, cbs \o o.cbs) : o \in { x \in SetOutcomes(Reg, s, items[k].key, items[k].pv) : x.res = "ok" } }

Init == l = 1 /\ st = S0(Reg) /\ dead = FALSE
More == l <= Len(Tr)

TReset == /\ More /\ Ln.e = "reset"
          /\ \/ Ln.declared = <<>>                     \* forked child: registration happened before
             \/ Ln.declared = DeclCbs(1)
          /\ \E r \in ArgvFold(Ln.argv, 1, S0(Reg), <<>>) : r.cbs = Ln.at_init /\ st' = r.s
          /\ dead' = FALSE /\ l' = l + 1

\* what the driver observed after the operation (typed get + is_default through the same key)
Observed(s) == LET i == Resolve(Reg, Ln.key) IN
               IF i = 0 THEN Ln.nokey ELSE ~Ln.nokey /\ Ln.val = s.val[i] /\ Ln.isdef = s.isdef[i]

TSet == /\ More /\ ~dead /\ Ln.e = "op" /\ Ln.k \in {"set_string", "set_parse", "set_typed", "c_api", "set_default"}
        /\ \E o \in (IF Ln.k = "set_default" THEN SetDefaultOutcomes(Reg, st, Ln.key, Ln.pv) ELSE SetOutcomes(Reg, st, Ln.key, Ln.pv)) :
              /\ o.res = Ln.res /\ o.cbs = Ln.cbs
              /\ (Ln.res = "died" \/ Observed(o.s))
              /\ st' = o.s
        /\ dead' = (Ln.res = "died") /\ l' = l + 1

TGet == /\ More /\ ~dead /\ Ln.e = "op" /\ Ln.k \in {"get", "isdef"}
        /\ LET r == IF Ln.k = "get" THEN GetResult(Reg, st, Ln.key) ELSE IsDefResult(Reg, st, Ln.key) IN
           r.res = Ln.res /\ r.got = Ln.got /\ Ln.cbs = <<>>
        /\ UNCHANGED <<st, dead>> /\ l' = l + 1

Next == TReset \/ TSet \/ TGet
Spec == Init /\ [][Next]_vars

Inv == TypeOK(Reg, st)
Progress == TLCSet(1, IF TLCGet(1) > l THEN TLCGet(1) ELSE l)
ProgressInv == Progress
AtEnd == PrintT(<<"PROGRESS", TLCGet(1), Len(Tr)>>)
ASSUME TLCSet(1, 0)
=============================================================================
