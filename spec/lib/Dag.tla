--------------------------------- MODULE Dag ---------------------------------
(* Workflow (DAG) semantics of S4U activities: s4u::Activity::start / add_successor / complete / release_dependencies *)
(* (include/simgrid/s4u/Activity.hpp) and the assignment calls of Exec / Comm / Io (src/s4u/s4u_Exec.cpp,               *)
(* s4u_Comm.cpp, s4u_Io.cpp).  Functional core, as in SgKernel: the abstract state is one record s; every operator      *)
(* takes the date t of the call (an integer: only the order of dates matters).  DagMC explores the operators            *)
(* exhaustively, Dag_trace validates the signals recorded from real runs against them.                                  *)
(*                                                                                                                       *)
(* An activity a is INITED, STARTING (start() was called and vetoed), STARTED or FINISHED.  start() -- called by the     *)
(* user, by a loader, by Comm::set_source / set_destination, by Exec::set_host / Io::set_disk on a STARTING activity,    *)
(* or by release_dependencies() of its last unfinished predecessor -- starts the activity iff its dependencies are       *)
(* solved and it is assigned, and is vetoed otherwise.  Nothing else starts an activity.                                 *)
EXTENDS Naturals, Integers, FiniteSets

Never == -1
MaxOf(S) == CHOOSE x \in S : \A y \in S : y <= x

\* number of assignment calls an activity needs: a host-to-host Comm needs its source and its destination
Need(kind) == IF kind = "comm" THEN 2 ELSE 1

Acts(s) == 1..s.n

S0(n, kinds) ==
  [ n     |-> n,
    kind  |-> kinds,                                   \* "exec" | "comm" | "io"
    st    |-> [a \in 1..n |-> "inited"],
    parts |-> [a \in 1..n |-> 0],                      \* assignment calls made
    preds |-> [a \in 1..n |-> {}],                     \* every predecessor ever declared
    deps  |-> [a \in 1..n |-> {}],                     \* predecessors not finished yet (dependencies_)
    succ  |-> [a \in 1..n |-> {}],
    ereq  |-> [a \in 1..n |-> Never],                  \* date of the last explicit start() (user / loader)
    asgd  |-> [a \in 1..n |-> Never],                  \* date of the last assignment call
    startd |-> [a \in 1..n |-> Never],
    find  |-> [a \in 1..n |-> Never],
    nveto |-> [a \in 1..n |-> 0] ]                     \* vetoes so far (ghost)

Assigned(s, a)  == s.parts[a] >= Need(s.kind[a])
Solved(s, a)    == s.deps[a] = {}
Startable(s, a) == Solved(s, a) /\ Assigned(s, a)
Waiting(s, a)   == s.st[a] \in {"inited", "starting"}

\* Activity::start(): STARTING, then do_start() or veto
StartCall(s, a, t) ==
  IF Startable(s, a) THEN [s EXCEPT !.st[a] = "started", !.startd[a] = t]
  ELSE [s EXCEPT !.st[a] = "starting", !.nveto[a] = @ + 1]

\* explicit start() by the user or a loader (pre: Waiting(s, a))
Request(s, a, t) == StartCall([s EXCEPT !.ereq[a] = t], a, t)

\* one assignment call (pre: Waiting(s, a) /\ ~Assigned(s, a)).  Comm::set_source / set_destination call start()
\* themselves whatever the state; Exec::set_host and Io::set_disk retry the start of a STARTING activity only.
AssignPart(s, a, t) ==
  LET s1 == [s EXCEPT !.parts[a] = @ + 1, !.asgd[a] = t] IN
  IF s.kind[a] = "comm" \/ s.st[a] = "starting" THEN StartCall(s1, a, t) ELSE s1

\* a->add_successor(b)  (pre: below).  Declaring a dependency towards an activity that is already started, or from one
\* that is already finished, is outside the property (the code accepts it; the new dependency can never be released).
CanAddSucc(s, a, b) == a # b /\ b \notin s.succ[a] /\ Waiting(s, b) /\ s.st[a] # "finished"
AddSucc(s, a, b) == [s EXCEPT !.succ[a] = @ \cup {b}, !.deps[b] = @ \cup {a}, !.preds[b] = @ \cup {a}]

\* complete(FINISHED) of a started activity: on_completion, then release_dependencies(): every successor loses the
\* dependency, those whose dependencies are now solved get start() at this very date
Finish(s, a, t) ==
  LET ndeps == [b \in Acts(s) |-> IF b \in s.succ[a] THEN s.deps[b] \ {a} ELSE s.deps[b]]
      rel   == { b \in s.succ[a] : ndeps[b] = {} }
      s1    == [s EXCEPT !.st[a] = "finished", !.find[a] = t, !.deps = ndeps]
      go    == { b \in rel : Assigned(s1, b) } IN
  [s1 EXCEPT !.st     = [b \in Acts(s) |-> IF b \in go THEN "started" ELSE IF b \in rel THEN "starting" ELSE s1.st[b]],
             !.startd = [b \in Acts(s) |-> IF b \in go THEN t ELSE s1.startd[b]],
             !.nveto  = [b \in Acts(s) |-> IF b \in rel \ go THEN s1.nveto[b] + 1 ELSE s1.nveto[b]]]

\* ------------------------------------------------------------------------------------------------ properties (C13)
Begun(s, a) == s.st[a] \in {"started", "finished"}

\* an activity with predecessors starts only after all of them have finished, and only once assigned
StartedSafely(s) ==
  \A a \in Acts(s) : Begun(s, a) =>
      /\ Assigned(s, a)
      /\ \A p \in s.preds[a] : s.st[p] = "finished" /\ s.find[p] <= s.startd[a]

\* the start date is the date of the last thing the activity was waiting for: the latest finish of its predecessors,
\* its assignment, and -- for an activity without predecessor that nothing starts implicitly -- its explicit start()
NeedsExplicit(s, a) == s.preds[a] = {} /\ s.kind[a] # "comm"
Expected(s, a) == MaxOf({ s.find[p] : p \in s.preds[a] } \cup { s.asgd[a] }
                        \cup (IF NeedsExplicit(s, a) THEN { s.ereq[a] } ELSE {}))
StartDates(s) == \A a \in Acts(s) : Begun(s, a) => s.startd[a] = Expected(s, a)

\* vetoed = asked to start while something is missing
StatesConsistent(s) ==
  \A a \in Acts(s) :
     /\ s.deps[a] = { p \in s.preds[a] : s.st[p] # "finished" }
     /\ (s.st[a] = "starting" => ~Startable(s, a))            \* nothing stays vetoed once it can start
     /\ (s.st[a] = "finished" => s.find[a] >= s.startd[a])

\* acyclic, fully assigned, every source explicitly started, nothing running any more  =>  everything has finished
EnvDone(s)  == \A a \in Acts(s) : Assigned(s, a) /\ (NeedsExplicit(s, a) => s.ereq[a] # Never)
Quiet(s)    == \A a \in Acts(s) : s.st[a] # "started"
AllFinished(s) == \A a \in Acts(s) : s.st[a] = "finished"
Liveness(s) == (EnvDone(s) /\ Quiet(s)) => AllFinished(s)

DagInv(s) == StartedSafely(s) /\ StartDates(s) /\ StatesConsistent(s)
=============================================================================
