CONSTANTS MaxT = 2  MaxReq = 1
SPECIFICATION Spec
VIEW View
INVARIANT Inv
INVARIANT LiveInv
PROPERTY Monotone
CHECK_DEADLOCK FALSE
