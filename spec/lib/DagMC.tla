-------------------------------- MODULE DagMC --------------------------------
(* Exhaustive exploration of Dag for a batch of DAGs (JSON file named by the environment variable DAGS): every order of *)
(* the assignment calls, explicit start() calls, completions and clock ticks; for the DAGs flagged "dyn" the            *)
(* add_successor calls are interleaved as well (otherwise the whole graph is declared first).                           *)
(* A DAG is [n, kind: sequence of "exec"|"comm"|"io", edges: sequence of <<a, b>> with a < b, dyn, reqinit: BOOLEAN]. *)
EXTENDS Dag, Sequences, Json, IOUtils, TLC

CONSTANTS MaxT,     \* dates range over 0..MaxT
          MaxReq    \* explicit start() calls per activity

Dags == JsonDeserialize(IOEnv.DAGS)

VARIABLES d, s, now, pend, nreq
vars == <<d, s, now, pend, nreq>>
G == Dags[d]

EdgeSet(g) == { <<g.edges[i][1], g.edges[i][2]>> : i \in 1..Len(g.edges) }
RECURSIVE AddAll(_, _)
AddAll(st, es) == IF es = {} THEN st
                  ELSE LET e == CHOOSE x \in es : TRUE IN AddAll(AddSucc(st, e[1], e[2]), es \ {e})

RECURSIVE RequestAll(_, _)
RequestAll(st, as) == IF as = {} THEN st
                      ELSE LET a == CHOOSE x \in as : TRUE IN RequestAll(Request(st, a, 0), as \ {a})

\* g.reqinit: every activity gets its explicit start() at date 0, right after the graph is declared (what the DAX
\* loader does); only the assignment calls, the completions and the clock are interleaved then
Init == /\ d \in 1..Len(Dags)
        /\ LET g == Dags[d]  s0 == S0(g.n, g.kind) IN
             IF g.dyn THEN s = s0 /\ pend = EdgeSet(g)
             ELSE /\ pend = {}
                  /\ s = IF g.reqinit THEN RequestAll(AddAll(s0, EdgeSet(g)), 1..g.n) ELSE AddAll(s0, EdgeSet(g))
        /\ now = 0 /\ nreq = [a \in 1..Dags[d].n |-> IF Dags[d].reqinit THEN MaxReq ELSE 0]

MAddSucc(e) == /\ e \in pend /\ CanAddSucc(s, e[1], e[2])
               /\ s' = AddSucc(s, e[1], e[2]) /\ pend' = pend \ {e} /\ UNCHANGED <<d, now, nreq>>
MAssign(a)  == /\ Waiting(s, a) /\ ~Assigned(s, a)
               /\ s' = AssignPart(s, a, now) /\ UNCHANGED <<d, now, pend, nreq>>
MRequest(a) == /\ Waiting(s, a) /\ nreq[a] < MaxReq
               /\ s' = Request(s, a, now) /\ nreq' = [nreq EXCEPT ![a] = @ + 1] /\ UNCHANGED <<d, now, pend>>
MFinish(a)  == /\ s.st[a] = "started"
               /\ s' = Finish(s, a, now) /\ UNCHANGED <<d, now, pend, nreq>>
Tick        == /\ now < MaxT /\ now' = now + 1 /\ UNCHANGED <<d, s, pend, nreq>>

Next == \/ \E e \in pend : MAddSucc(e)
        \/ \E a \in Acts(s) : MAssign(a)
        \/ \E a \in Acts(s) : MRequest(a)
        \/ \E a \in Acts(s) : MFinish(a)
        \/ Tick
Spec == Init /\ [][Next]_vars

\* VIEW: dates that no property will read again are forgotten (assignment / request dates of a begun activity, start
\* date of a finished one, finish date once every successor has begun; veto counters).  Sound because the properties
\* that read them are established at the step that begins the activity and Monotone says they never change afterwards.
View == <<d, now, pend, nreq,
          [s EXCEPT !.asgd   = [a \in Acts(s) |-> IF Begun(s, a) THEN Never ELSE s.asgd[a]],
                    !.ereq   = [a \in Acts(s) |-> IF Begun(s, a) THEN Never ELSE s.ereq[a]],
                    !.startd = [a \in Acts(s) |-> IF s.st[a] = "finished" THEN Never ELSE s.startd[a]],
                    !.find   = [a \in Acts(s) |-> IF \A b \in s.succ[a] : Begun(s, b) THEN Never ELSE s.find[a]],
                    !.nveto  = [a \in Acts(s) |-> 0]]>>

Inv == DagInv(s)
\* every activity finishes once the environment has done its part (edges that can no longer be declared do not count)
LiveInv == (\A e \in pend : ~CanAddSucc(s, e[1], e[2])) => Liveness(s)
\* dates never decrease along an activity's life, a finished activity stays finished, a start is never undone
Monotone == [][\A a \in Acts(s) : /\ (s.st[a] = "finished" => s'.st[a] = "finished" /\ s'.find[a] = s.find[a])
                                  /\ (Begun(s, a) => Begun(s', a) /\ s'.startd[a] = s.startd[a])]_vars
=============================================================================
