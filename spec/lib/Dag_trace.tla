------------------------------ MODULE Dag_trace ------------------------------
(* Trace validation for C13: what harness/dag_driver.cpp records from real S4U workflows (API calls logged before they   *)
(* are made; on_veto / on_start / on_completion signals; dates turned into ranks by the check) must be a behaviour of    *)
(* module Dag.  The model starts an activity inside the call that removes its last obstacle (assignment, start(), or the *)
(* completion of its last predecessor), at the date of that call; the recorded on_start signal must then show up with    *)
(* exactly that date, and no on_start may show up for an activity the model has not started: that is "starts only after  *)
(* all predecessors have finished and it is assigned" and "starts at the latest finish date of its predecessors".        *)
(* Finish dates are taken from the trace (durations are not predicted).  At the end of a run every started activity      *)
(* must have completed, and Liveness (everything finishes when everything is assigned and requested) must hold.           *)
(* TRACE = ndjson, several runs separated by reset lines [n, kinds].                                                      *)
EXTENDS Dag, Sequences, Json, IOUtils, TLC

Tr == ndJsonDeserialize(IOEnv.TRACE)

VARIABLES s, l, ann, now, fin, owed
tvars == <<s, l, ann, now, fin, owed>>
Ln == Tr[l]
More == l <= Len(Tr)
Consume == l' = l + 1

Init == s = S0(0, <<>>) /\ l = 1 /\ ann = {} /\ now = 0 /\ fin = TRUE /\ owed = {}

TReset == /\ More /\ Ln.e = "reset" /\ fin
          /\ s' = S0(Ln.n, Ln.kinds) /\ ann' = {} /\ now' = 0 /\ fin' = FALSE /\ owed' = {} /\ Consume

\* the log is in causal order: dates never decrease; a completion signal that is owed (see TSilentDone) comes at its date
Live == More /\ ~fin /\ Ln.t >= now /\ \A p \in owed : s.find[p] = Ln.t
Known == Ln.a \in Acts(s)
Keep == UNCHANGED <<ann, fin, owed>> /\ now' = Ln.t /\ Consume

TCreate == /\ Live /\ Ln.e = "create" /\ Known /\ s.kind[Ln.a] = Ln.kind /\ s.st[Ln.a] = "inited"
           /\ UNCHANGED s /\ Keep
TSucc   == /\ Live /\ Ln.e = "succ" /\ Known /\ Ln.b \in Acts(s) /\ CanAddSucc(s, Ln.a, Ln.b)
           /\ s' = AddSucc(s, Ln.a, Ln.b) /\ Keep
TAssign == /\ Live /\ Ln.e = "assign" /\ Known /\ Waiting(s, Ln.a) /\ ~Assigned(s, Ln.a)
           /\ s' = AssignPart(s, Ln.a, Ln.t) /\ Keep
TReq    == /\ Live /\ Ln.e = "req" /\ Known /\ Waiting(s, Ln.a)
           /\ s' = Request(s, Ln.a, Ln.t) /\ Keep
\* on_veto: the activity was asked to start and something is missing
TVeto   == /\ Live /\ Ln.e = "veto" /\ Known /\ s.st[Ln.a] = "starting" /\ ~Startable(s, Ln.a)
           /\ UNCHANGED s /\ Keep
\* on_start: the model has started it, at this very date (a repeated signal for the same start is a stuttering step)
TStart  == /\ Live /\ Ln.e = "start" /\ Known /\ s.st[Ln.a] = "started" /\ s.startd[Ln.a] = Ln.t
           /\ ann' = ann \cup {Ln.a}
           /\ UNCHANGED <<s, fin, owed>> /\ now' = Ln.t /\ Consume
\* CommImpl::finish fires on_completion of a Comm before the s4u state leaves STARTED (wait_for sets it afterwards);
\* FAILED / CANCELED completions are never accepted (nothing fails in the scenarios)
DoneState == Ln.state = "FINISHED" \/ (s.kind[Ln.a] = "comm" /\ Ln.state = "STARTED")
\* on_completion(FINISHED), followed (in the same call) by release_dependencies
TDone   == /\ Live /\ Ln.e = "done" /\ Known /\ DoneState
           /\ s.st[Ln.a] = "started" /\ Ln.a \in ann /\ Ln.t >= s.startd[Ln.a]
           /\ s' = Finish(s, Ln.a, Ln.t) /\ Keep
\* A Comm run by maestro releases its successors (Activity::complete, whose on_completion is a no-op for Comm) before
\* CommImpl::finish fires the real on_completion signal: same date, other order.  The property speaks of dates, so the
\* completion of a started Comm may be taken silently when the next line is a signal, at the date of that line; the
\* done line is then owed, and must come before any line with another date and before the end.
TSilentDone == /\ Live /\ Ln.e \in {"start", "veto"}
               /\ \E p \in Acts(s) : /\ s.kind[p] = "comm" /\ s.st[p] = "started" /\ p \in ann /\ Ln.t >= s.startd[p]
                                      /\ s' = Finish(s, p, Ln.t) /\ owed' = owed \cup {p}
               /\ now' = Ln.t /\ UNCHANGED <<l, ann, fin>>
TOwedDone == /\ Live /\ Ln.e = "done" /\ Known /\ DoneState /\ Ln.a \in owed /\ s.find[Ln.a] = Ln.t
             /\ owed' = owed \ {Ln.a}
             /\ UNCHANGED <<s, ann, fin>> /\ now' = Ln.t /\ Consume
\* Engine::run() returned for good: every start the model made was signalled, nothing is left running, and everything
\* has finished if everything was assigned and requested
TEnd    == /\ Live /\ Ln.e = "end"
           /\ Quiet(s) /\ owed = {} /\ (\A a \in Acts(s) : Begun(s, a) => a \in ann) /\ Liveness(s)
           /\ fin' = TRUE /\ UNCHANGED <<s, ann, owed>> /\ now' = Ln.t /\ Consume

Next == TReset \/ TCreate \/ TSucc \/ TAssign \/ TReq \/ TVeto \/ TStart \/ TDone \/ TSilentDone \/ TOwedDone \/ TEnd
Spec == Init /\ [][Next]_tvars

Inv == fin \/ DagInv(s)

Progress == TLCSet(1, IF TLCGet(1) > l THEN TLCGet(1) ELSE l)
ProgressInv == Progress
AtEnd == PrintT(<<"PROGRESS", TLCGet(1), Len(Tr)>>)
ASSUME TLCSet(1, 0)
=============================================================================
