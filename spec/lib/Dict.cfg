\* default configuration: every operation sequence of length 3 over 3 keys and 2 values (exhaustive, BFS)
SPECIFICATION Spec
CONSTANTS
  MaxSteps = 3
  Keys = {0, 1, 2}
  Vals = {1, 2}
  BulkMax = 0
  Wide = TRUE
INVARIANT ModelSanity
