------------------------------- MODULE Dict -------------------------------
(* C50: xbt_dict as a string-keyed map.  The model is a function from a finite set of keys to non-null values;     *)
(* keys are abstract identifiers (the harness renders key k as a C string, strings being atomic in TLC), values are *)
(* positive integers stored as the void* payload, 0 stands for NULL.                                                *)
(* Operations of include/xbt/dict.h: set (insert or overwrite), get_or_null, get_elm_or_null (presence), remove      *)
(* (xbt_dict_remove_ext: throws std::out_of_range when the key is absent), length/size/is_empty, and the cursor     *)
(* traversal xbt_dict_foreach, which must yield every key exactly once with its current value, in an order that the *)
(* property leaves open: the expected result is the *set* of (key, value) pairs plus their number.                  *)
(* "bulk" sets a whole interval of keys in one step (drives the table through its rehash threshold).                *)
EXTENDS Naturals, Integers, Sequences, SequencesExt, FiniteSets, TLC, Json

CONSTANTS MaxSteps, Keys, Vals, BulkMax,  \* Keys, Vals: finite sets of naturals (Vals > 0); BulkMax: 0 = no bulk operation
          Wide                              \* TRUE: every (key, value) pair is a successor; FALSE: one value per step

\* ------------------------------------------------------------------ the model
Dom(d) == DOMAIN d
Empty == [k \in {} |-> 0]
SetK(d, k, v) == [x \in Dom(d) \cup {k} |-> IF x = k THEN v ELSE d[x]]
RemK(d, k)    == [x \in Dom(d) \ {k} |-> d[x]]
BulkVal(k, b) == 1 + ((k + b) % 7)
SetRange(d, a, n, b) == [x \in Dom(d) \cup (a..(a + n - 1)) |-> IF x >= a /\ x < a + n THEN BulkVal(x, b) ELSE d[x]]
\* content as a sequence of <<key, value>> sorted by key (what the harness compares after every step)
SortedKeys(S) == SetToSortSeq(S, LAMBDA x, y : x < y)
Content(d) == LET ks == SortedKeys(Dom(d)) IN [i \in 1..Len(ks) |-> <<ks[i], d[ks[i]]>>]

R(d, ret, err) == [d |-> d, ret |-> ret, err |-> err]
Apply(d, op) ==
  CASE op.op = "set"         -> R(SetK(d, op.a, op.b), 0, 0)
    [] op.op = "get_or_null" -> R(d, IF op.a \in Dom(d) THEN d[op.a] ELSE 0, 0)
    [] op.op = "get_elm"     -> R(d, IF op.a \in Dom(d) THEN 1 ELSE 0, 0)
    [] op.op = "remove"      -> IF op.a \in Dom(d) THEN R(RemK(d, op.a), 0, 0) ELSE R(d, 0, 1)   \* err: std::out_of_range
    [] op.op = "length"      -> R(d, Cardinality(Dom(d)), 0)
    [] op.op = "is_empty"    -> R(d, IF Dom(d) = {} THEN 1 ELSE 0, 0)
    [] op.op = "foreach"     -> R(d, Cardinality(Dom(d)), 0)     \* number of cursor steps; visited pairs = Content(d)
    [] op.op = "bulk"        -> R(SetRange(d, op.a, op.b, op.c), 0, 0)
    [] op.op = "rmrange"     -> R([x \in { k \in Dom(d) : k < op.a \/ k >= op.a + op.b } |-> d[x]],   \* remove every present key of
                                  Cardinality({ k \in Dom(d) : k >= op.a /\ k < op.a + op.b }), 0)       \* a..a+b-1; ret = how many

\* ------------------------------------------------------------------ generator
VARIABLES dict, hist, done
vars == <<dict, hist, done>>
O(k, a, b, c) == [op |-> k, a |-> a, b |-> b, c |-> c]
MaxKey == CHOOSE k \in Keys : \A x \in Keys : x <= k
StepVals == IF Wide THEN Vals
            ELSE LET n == Cardinality(Vals) IN { CHOOSE v \in Vals : Cardinality({w \in Vals : w < v}) = (5 * Len(hist) + 1) % n }
Candidates ==
       { O("set", k, v, 0) : k \in Keys, v \in StepVals }
  \cup { O(kind, k, 0, 0) : kind \in {"get_or_null", "get_elm", "remove"}, k \in Keys }
  \cup { O(kind, 0, 0, 0) : kind \in {"length", "is_empty", "foreach"} }
  \cup (IF BulkMax = 0 THEN {}
        ELSE      { O("bulk", MaxKey + 1 + 50 * o, n, Len(hist)) : o \in {0, 1 + (Len(hist) % 2)}, n \in {BulkMax \div 4, BulkMax \div 2, BulkMax} }
             \cup { O("rmrange", MaxKey + 1 + 50 * (Len(hist) % 3), n, 0) : n \in {BulkMax \div 4, BulkMax} })

Init == dict = Empty /\ hist = <<>> /\ done = FALSE
Do(op) == LET r == Apply(dict, op) IN
          /\ dict' = r.d
          /\ hist' = Append(hist, [op |-> op.op, a |-> op.a, b |-> op.b, c |-> op.c, ret |-> r.ret, err |-> r.err,
                                   content |-> Content(r.d)])
          /\ UNCHANGED done
Finish == /\ Len(hist) = MaxSteps /\ ~done /\ done' = TRUE /\ UNCHANGED <<dict, hist>>
          /\ PrintT(<<"SEQ", ToJson(hist)>>)
Next == \/ Len(hist) < MaxSteps /\ \E op \in Candidates : Do(op)
        \/ Finish
Spec == Init /\ [][Next]_vars

\* ------------------------------------------------------------------ sanity of the model
ModelSanity ==
  hist # <<>> =>
    LET e == hist[Len(hist)] IN
    /\ Len(e.content) = Cardinality(Dom(dict))
    /\ \A i \in 1..Len(e.content) : e.content[i][1] \in Dom(dict) /\ dict[e.content[i][1]] = e.content[i][2]
    /\ \A i \in 1..(Len(e.content) - 1) : e.content[i][1] < e.content[i + 1][1]          \* each key once
    /\ (e.op = "set" => e.a \in Dom(dict) /\ dict[e.a] = e.b)
    /\ (e.op = "remove" => e.a \notin Dom(dict))
    /\ \A k \in Dom(dict) : dict[k] > 0
=============================================================================
