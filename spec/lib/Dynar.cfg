\* default configuration: every operation sequence of length 3 over two values (exhaustive, BFS)
SPECIFICATION Spec
CONSTANTS
  MaxSteps = 3
  Vals = {1, 2}
  MaxLen = 6
  Wide = TRUE
INVARIANT ModelSanity
