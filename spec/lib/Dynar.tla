------------------------------- MODULE Dynar -------------------------------
(* C50: xbt_dynar as a growable array.  The model of a dynar of scalars is a finite sequence of integers; every   *)
(* operation of include/xbt/dynar.h that the property names is a pure function Apply(s, op) giving the new         *)
(* sequence, the value returned to the caller (ret) and, for traversals, the sequence of visited elements (rs).    *)
(* Indices are 0-based in the operations, as in the C API.  Preconditions (En) are those under which the C API is   *)
(* defined (xbt_assert otherwise): pop/shift on a non-empty dynar, get/remove_at inside the bounds, insert_at at    *)
(* most at the end.  set beyond the end extends the array with zeros (xbt_dynar_set_at_ptr).                        *)
(*                                                                                                                 *)
(* Use: (G) TLC generates behaviours (BFS = every operation sequence up to MaxSteps; -simulate = random sequences)  *)
(* with the history variable hist; the last state of each behaviour prints hist as JSON; the driver c50drv replays  *)
(* the operations on a real xbt_dynar_t and prints ret / rs / full content after each step.                         *)
EXTENDS Naturals, Integers, Sequences, SequencesExt, FiniteSets, TLC, Json

CONSTANTS MaxSteps,    \* length of the generated operation sequences
          Vals,        \* set of element values used by the generator
          MaxLen,      \* the generator does not grow the array beyond this length
          Wide         \* TRUE: every (index, value) combination is a successor (exhaustive mode);
                       \* FALSE: values are drawn from two candidates per step (keeps -simulate balanced)

\* ------------------------------------------------------------------ the model
SetAt(s, i, v) ==    \* 0-based i; extends with zeros when i >= Len(s)
  IF i < Len(s) THEN [s EXCEPT ![i + 1] = v]
  ELSE s \o [k \in 1..(i - Len(s)) |-> 0] \o <<v>>
InsertAtZ(s, i, v) == SubSeq(s, 1, i) \o <<v>> \o SubSeq(s, i + 1, Len(s))
RemoveAtZ(s, i)    == SubSeq(s, 1, i) \o SubSeq(s, i + 2, Len(s))
Sorted(s)          == SortSeq(s, LAMBDA x, y : x < y)
Member(s, v)       == IF \E i \in 1..Len(s) : s[i] = v THEN 1 ELSE 0
Incr(s)            == [i \in 1..Len(s) |-> s[i] + 1]

En(s, op) ==
  CASE op.op \in {"pop", "shift"}     -> Len(s) > 0
    [] op.op \in {"get", "remove_at"} -> op.a >= 0 /\ op.a < Len(s)
    [] op.op = "insert_at"            -> op.a >= 0 /\ op.a <= Len(s)
    [] op.op = "set"                  -> op.a >= 0
    [] OTHER                          -> TRUE

R(s, ret, rs) == [s |-> s, ret |-> ret, rs |-> rs]
Apply(s, op) ==
  CASE op.op = "push"      -> R(Append(s, op.b), 0, <<>>)
    [] op.op = "pop"       -> R(SubSeq(s, 1, Len(s) - 1), s[Len(s)], <<>>)
    [] op.op = "unshift"   -> R(<<op.b>> \o s, 0, <<>>)
    [] op.op = "shift"     -> R(Tail(s), Head(s), <<>>)
    [] op.op = "insert_at" -> R(InsertAtZ(s, op.a, op.b), 0, <<>>)
    [] op.op = "remove_at" -> R(RemoveAtZ(s, op.a), s[op.a + 1], <<>>)
    [] op.op = "get"       -> R(s, s[op.a + 1], <<>>)
    [] op.op = "set"       -> R(SetAt(s, op.a, op.b), 0, <<>>)
    [] op.op = "sort"      -> R(Sorted(s), 0, <<>>)
    [] op.op = "member"    -> R(s, Member(s, op.b), <<>>)
    [] op.op = "foreach"   -> R(s, Len(s), s)               \* the cursor visits every element once, in index order
    [] op.op = "map"       -> R(Incr(s), 0, <<>>)           \* xbt_dynar_map with "add one to the element"
    [] op.op = "length"    -> R(s, Len(s), <<>>)
    [] op.op = "is_empty"  -> R(s, IF Len(s) = 0 THEN 1 ELSE 0, <<>>)
    [] op.op = "reset"     -> R(<<>>, 0, <<>>)

\* ------------------------------------------------------------------ generator
VARIABLES seq, hist, done
vars == <<seq, hist, done>>

O(k, a, b) == [op |-> k, a |-> a, b |-> b]
\* candidate values of a step: all of Vals, or a "new" value and a value already present
StepVals == IF Wide THEN Vals
            ELSE LET h == Len(hist)
                     n == Cardinality(Vals)
                     fresh == CHOOSE v \in Vals : Cardinality({w \in Vals : w < v}) = (5 * h + 1) % n
                 IN  {fresh} \cup (IF seq = <<>> THEN {} ELSE {seq[1 + (h % Len(seq))]})
Room == Len(seq) < MaxLen
\* candidate indices in 0..n: all of them, or the borders, the middle and one step-dependent position
Idx(n) == IF Wide \/ n < 0 THEN 0..n
          ELSE {0, 1, n \div 2, (7 * Len(hist) + 3) % (n + 1), n - 1, n} \cap (0..n)
Candidates ==
       { O("push", 0, v) : v \in IF Room THEN StepVals ELSE {} }
  \cup { O("unshift", 0, v) : v \in IF Room THEN StepVals ELSE {} }
  \cup { O("insert_at", i, v) : i \in Idx(Len(seq)), v \in IF Room THEN StepVals ELSE {} }
  \cup { O("set", i, v) : i \in Idx(IF Room /\ Len(seq) + 2 < MaxLen THEN Len(seq) + 2 ELSE Len(seq) - 1), v \in StepVals }
  \cup { O("remove_at", i, 0) : i \in Idx(Len(seq) - 1) }
  \cup { O("get", i, 0) : i \in Idx(Len(seq) - 1) }
  \cup { O("member", 0, v) : v \in StepVals }
  \cup { O(k, 0, 0) : k \in {"pop", "shift", "sort", "foreach", "map", "length", "is_empty", "reset"} }

Init == seq = <<>> /\ hist = <<>> /\ done = FALSE
Do(op) == /\ En(seq, op)
          /\ LET r == Apply(seq, op) IN
             /\ seq' = r.s
             /\ hist' = Append(hist, [op |-> op.op, a |-> op.a, b |-> op.b, ret |-> r.ret, rs |-> r.rs, c |-> r.s])
             /\ UNCHANGED done
\* the last step of a behaviour prints its history: one JSON line per generated operation sequence (a step, not an
\* invariant: in -simulate mode TLC evaluates invariants on every candidate successor, a step only on the chosen state)
Finish == /\ Len(hist) = MaxSteps /\ ~done /\ done' = TRUE /\ UNCHANGED <<seq, hist>>
          /\ PrintT(<<"SEQ", ToJson(hist)>>)
Next == \/ Len(hist) < MaxSteps /\ \E op \in Candidates : Do(op)
        \/ Finish
Spec == Init /\ [][Next]_vars

\* ------------------------------------------------------------------ sanity of the model (checked by TLC on every generated state)
IsSortedSeq(s) == \A i \in 1..(Len(s) - 1) : s[i] <= s[i + 1]
Count(s, v)    == Cardinality({ i \in 1..Len(s) : s[i] = v })
SamePopulation(s, t) == Len(s) = Len(t) /\ \A v \in (Range(s) \cup Range(t)) : Count(s, v) = Count(t, v)
ModelSanity ==
  hist # <<>> =>
    LET e   == hist[Len(hist)]
        old == IF Len(hist) = 1 THEN <<>> ELSE hist[Len(hist) - 1].c IN
    /\ e.c = seq
    /\ (e.op = "sort" => IsSortedSeq(seq) /\ SamePopulation(seq, old))
    /\ (e.op \in {"push", "unshift", "insert_at"} => Len(seq) = Len(old) + 1 /\ Count(seq, e.b) = Count(old, e.b) + 1)
    /\ (e.op \in {"pop", "shift", "remove_at"} => Len(seq) = Len(old) - 1 /\ Count(seq, e.ret) = Count(old, e.ret) - 1)
    /\ (e.op = "insert_at" => seq[e.a + 1] = e.b /\ RemoveAtZ(seq, e.a) = old)
    /\ (e.op = "remove_at" => InsertAtZ(seq, e.a, e.ret) = old)
    /\ (e.op = "set" => seq[e.a + 1] = e.b /\ Len(seq) = (IF e.a < Len(old) THEN Len(old) ELSE e.a + 1))
    /\ (e.op = "member" => (e.ret = 1) = (e.b \in Range(seq)))
    /\ (e.op \in {"get", "member", "foreach", "length", "is_empty"} => seq = old)
=============================================================================
