\* (M) exhaustive: 2 names on 2 disks (one initial file), 2 handles, every behaviour of 5 steps
SPECIFICATION Spec
CONSTANTS
  MaxSteps = 5
  Disks = {1, 2}
  Names = {1, 2}
  Handles = {1, 2}
  InitFiles <- DefaultInit
  Sizes = {0, 3, 10}
  Offsets <- OffsetsSmall
  Record = FALSE
  TruncWrites = TRUE
  AfterMove = TRUE
  MoveDisks = {1, 2}
INVARIANT Inv
PROPERTY ReadBounded
PROPERTY UnlinkGivesBack
PROPERTY OthersUntouched
