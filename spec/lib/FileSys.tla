------------------------------- MODULE FileSys -------------------------------
(* C46: accounting of the file system plugin (src/plugins/file_system/s4u_FileSystem.cpp).                         *)
(* Abstract state: the files stored on each disk (name -> size), the used size of each disk, and the open handles   *)
(* (file, position).  Only tracked files are modelled: `used` is the used size of the disk minus the size of the    *)
(* untracked initial content, so Init satisfies the accounting invariant and the harness compares differences.      *)
(*                                                                                                                 *)
(* Operations (s4u::File): Open (creates an empty file when the name does not exist), Write(n) at the current       *)
(* position -- File::write(n) without write_inside is a *truncating* write: "the part of the file that might         *)
(* disappear" after the position is given back and the file ends where the write ends; write_inside overwrites in    *)
(* place and only grows the file when the write goes past its end --, Seek (SET/CUR/END; a position past the end     *)
(* grows the file: "set new position in file, grow it if necessary, and increased usage", file_system.h), Read(n)    *)
(* (returns min(n, size - position)), Move (rename on the same disk to an unused name; the handle follows the        *)
(* file), Unlink (removes the file, gives back its size, closes the handle as sg_file_unlink does), Close.           *)
(* One handle per file at a time.  The capacity of the disks is never approached (stated as an assumption).           *)
(*                                                                                                                 *)
(* (M) TLC checks the property as invariants / action properties over every behaviour of the small scope;           *)
(* (G) with Record = TRUE the history variable holds, for each step, the operation and everything observable after  *)
(* it; the last step of a behaviour prints it and the driver c46drv replays it on the real plugin.                   *)
EXTENDS Naturals, Integers, Sequences, FiniteSets, TLC, Json, IOUtils

CONSTANTS MaxSteps, Disks, Names, Handles, InitFiles,   \* InitFiles: set of <<disk, name, size>> present at start
          Sizes, Offsets, Record,
          \* restrictions of the *generator* (the model is the same): the check runs a family with every operation and a
          \* family that stays clear of the call patterns recorded as known findings, so that these do not mask the rest
          TruncWrites,   \* FALSE: File::write (truncating) is only generated at the end of the file (pure append)
          AfterMove,     \* FALSE: after a move, the only operation generated on that handle is close
          MoveDisks      \* disks on which moves are generated

\* values for InitFiles (a configuration file cannot hold tuples): a fixed one, and one read from the JSON file named by
\* the environment variable FS_INIT (a list of [disk, name, size])
DefaultInit == { <<1, 1, 7>> }
\* values for Offsets (a configuration file cannot hold negative numbers)
OffsetsSmall == {-2, 0, 2, 12}
OffsetsWide  == {-9, -3, -1, 0, 1, 2, 5, 14}
EnvInit == LET j == JsonDeserialize(IOEnv.FS_INIT) IN { <<j[i][1], j[i][2], j[i][3]>> : i \in 1..Len(j) }
Key(d, n) == <<d, n>>

VARIABLES files,    \* function: <<disk, name>> of each stored (tracked) file -> size
          used,     \* function: disk -> used size (tracked part)
          hd,       \* function: handle -> [open, d, n, pos]
          last,     \* the last operation with its result (for the action properties)
          steps, hist, done
vars == <<files, used, hd, last, steps, hist, done>>

Stored(d, n) == Key(d, n) \in DOMAIN files
SizeOf(h)    == files[Key(hd[h].d, hd[h].n)]
OpenOn(d, n) == \E h \in Handles : hd[h].open /\ hd[h].d = d /\ hd[h].n = n
Max(a, b) == IF a > b THEN a ELSE b
Min(a, b) == IF a < b THEN a ELSE b

RECURSIVE SumSizes(_, _)
SumSizes(f, S) == IF S = {} THEN 0 ELSE LET k == CHOOSE x \in S : TRUE IN f[k] + SumSizes(f, S \ {k})
TotalOn(f, d)  == SumSizes(f, { k \in DOMAIN f : k[1] = d })

Closed == [open |-> FALSE, d |-> 0, n |-> 0, pos |-> 0, moved |-> FALSE]
Init == /\ files = [k \in { Key(x[1], x[2]) : x \in InitFiles } |-> (CHOOSE x \in InitFiles : Key(x[1], x[2]) = k)[3]]
        /\ used = [d \in Disks |-> TotalOn([k \in { Key(x[1], x[2]) : x \in InitFiles } |->
                                             (CHOOSE x \in InitFiles : Key(x[1], x[2]) = k)[3]], d)]
        /\ hd = [h \in Handles |-> Closed]
        /\ last = [op |-> "init", h |-> 0, a |-> 0, b |-> 0, ret |-> 0]
        /\ steps = 0 /\ hist = <<>> /\ done = FALSE

\* --------------------------------------------------------------------- operations (functional core)
\* each gives the new <<files, used, hd>> and the returned value
SetSize(f, k, s) == [x \in DOMAIN f \cup {k} |-> IF x = k THEN s ELSE f[x]]
Drop(f, k)       == [x \in DOMAIN f \ {k} |-> f[x]]
Res(f, u, H, ret) == [files |-> f, used |-> u, hd |-> H, ret |-> ret]

DoOpen(h, d, n) ==
  LET f2 == IF Stored(d, n) THEN files ELSE SetSize(files, Key(d, n), 0) IN
  Res(f2, used, [hd EXCEPT ![h] = [open |-> TRUE, d |-> d, n |-> n, pos |-> 0, moved |-> FALSE]], f2[Key(d, n)])

\* the file becomes s bytes long; the disk accounts for the difference
Resize(h, s, newpos, ret) ==
  LET k == Key(hd[h].d, hd[h].n) IN
  Res(SetSize(files, k, s), [used EXCEPT ![hd[h].d] = @ + s - files[k]], [hd EXCEPT ![h].pos = newpos], ret)

DoWrite(h, n, inside) ==
  IF n = 0 THEN Res(files, used, hd, 0)
  ELSE LET p == hd[h].pos  sz == SizeOf(h) IN
       Resize(h, IF inside THEN Max(sz, p + n) ELSE p + n, p + n, n)

NewPos(h, off, origin) == CASE origin = "set" -> off [] origin = "cur" -> hd[h].pos + off [] origin = "end" -> SizeOf(h) + off
DoSeek(h, off, origin) == LET np == NewPos(h, off, origin) IN Resize(h, Max(SizeOf(h), np), np, 0)

DoRead(h, n) == LET r == Min(n, SizeOf(h) - hd[h].pos) IN Res(files, used, [hd EXCEPT ![h].pos = @ + r], r)

DoMove(h, n2) ==
  LET k == Key(hd[h].d, hd[h].n) IN
  Res(SetSize(Drop(files, k), Key(hd[h].d, n2), files[k]), used, [hd EXCEPT ![h].n = n2, ![h].moved = TRUE], 0)

DoUnlink(h) ==
  LET k == Key(hd[h].d, hd[h].n) IN
  Res(Drop(files, k), [used EXCEPT ![hd[h].d] = @ - files[k]], [hd EXCEPT ![h] = Closed], 0)

DoClose(h) == Res(files, used, [hd EXCEPT ![h] = Closed], 0)

O(k, h, a, b) == [op |-> k, h |-> h, a |-> a, b |-> b]
Usable(h) == hd[h].open /\ (AfterMove \/ ~hd[h].moved)
Candidates ==
       { O("open", h, d, n) : h \in { x \in Handles : ~hd[x].open }, d \in Disks, n \in Names }
  \cup { O("write", h, n, 0) : h \in { x \in Handles : Usable(x) /\ (TruncWrites \/ hd[x].pos = SizeOf(x)) }, n \in Sizes }
  \cup { O(k, h, n, 0) : k \in {"write_inside", "read"}, h \in { x \in Handles : Usable(x) }, n \in Sizes }
  \cup { O(k, h, off, 0) : k \in {"seek_set", "seek_cur", "seek_end"}, h \in { x \in Handles : Usable(x) }, off \in Offsets }
  \cup { O("move", h, n2, 0) : h \in { x \in Handles : Usable(x) /\ hd[x].d \in MoveDisks }, n2 \in Names }
  \cup { O("unlink", h, 0, 0) : h \in { x \in Handles : Usable(x) } }
  \cup { O("close", h, 0, 0) : h \in { x \in Handles : hd[x].open } }

En(op) ==
  CASE op.op = "open" -> ~hd[op.h].open /\ ~OpenOn(op.a, op.b)
    [] op.op \in {"seek_set", "seek_cur", "seek_end"} ->
         hd[op.h].open /\ NewPos(op.h, op.a, CASE op.op = "seek_set" -> "set" [] op.op = "seek_cur" -> "cur" [] OTHER -> "end") >= 0
    [] op.op = "move" -> hd[op.h].open /\ ~Stored(hd[op.h].d, op.a)
    [] OTHER -> hd[op.h].open

Apply(op) ==
  CASE op.op = "open"         -> DoOpen(op.h, op.a, op.b)
    [] op.op = "write"        -> DoWrite(op.h, op.a, FALSE)
    [] op.op = "write_inside" -> DoWrite(op.h, op.a, TRUE)
    [] op.op = "read"         -> DoRead(op.h, op.a)
    [] op.op = "seek_set"     -> DoSeek(op.h, op.a, "set")
    [] op.op = "seek_cur"     -> DoSeek(op.h, op.a, "cur")
    [] op.op = "seek_end"     -> DoSeek(op.h, op.a, "end")
    [] op.op = "move"         -> DoMove(op.h, op.a)
    [] op.op = "unlink"       -> DoUnlink(op.h)
    [] op.op = "close"        -> DoClose(op.h)

\* everything the harness can observe after a step
RECURSIVE SortKeys(_)
SortKeys(S) == IF S = {} THEN <<>>
               ELSE LET m == CHOOSE x \in S : \A y \in S : x[1] < y[1] \/ (x[1] = y[1] /\ x[2] <= y[2]) IN <<m>> \o SortKeys(S \ {m})
Listing(f) == LET ks == SortKeys(DOMAIN f) IN [i \in 1..Len(ks) |-> <<ks[i][1], ks[i][2], f[ks[i]]>>]
Observe(op, r) ==
  [op |-> op.op, h |-> op.h, a |-> op.a, b |-> op.b, ret |-> r.ret,
   size |-> IF r.hd[op.h].open THEN r.files[Key(r.hd[op.h].d, r.hd[op.h].n)] ELSE -1,
   tell |-> IF r.hd[op.h].open THEN r.hd[op.h].pos ELSE -1,
   used |-> [d \in Disks |-> r.used[d]],
   files |-> Listing(r.files)]

Do(op) == /\ En(op)
          /\ LET r == Apply(op) IN
             /\ files' = r.files /\ used' = r.used /\ hd' = r.hd
             /\ last' = [op |-> op.op, h |-> op.h, a |-> op.a, b |-> op.b, ret |-> r.ret]
             /\ hist' = IF Record THEN Append(hist, Observe(op, r)) ELSE hist
          /\ steps' = steps + 1 /\ UNCHANGED done
Finish == /\ Record /\ steps = MaxSteps /\ ~done /\ done' = TRUE /\ UNCHANGED <<files, used, hd, last, steps, hist>>
          /\ PrintT(<<"SEQ", ToJson(hist)>>)
Next == \/ steps < MaxSteps /\ \E op \in Candidates : Do(op)
        \/ Finish
Spec == Init /\ [][Next]_vars

\* --------------------------------------------------------------------- the property
\* the used size of a disk equals the total size of the files stored on it
UsedIsSum == \A d \in Disks : used[d] = TotalOn(files, d)
\* an open handle designates a stored file and its position lies inside the file
HandlesSound == \A h \in Handles : hd[h].open => Stored(hd[h].d, hd[h].n) /\ hd[h].pos >= 0 /\ hd[h].pos <= SizeOf(h)
NoNegative == \A k \in DOMAIN files : files[k] >= 0
Inv == UsedIsSum /\ HandlesSound /\ NoNegative

\* a read never returns more than the bytes between the position and the end of the file
ReadBounded == [][last'.op = "read" /\ steps' = steps + 1 =>
                   LET h == last'.h IN last'.ret >= 0 /\ last'.ret <= SizeOf(h) - hd[h].pos /\ hd'[h].pos = hd[h].pos + last'.ret]_vars
\* unlinking a file gives back exactly its size, and nothing else changes on the disks
UnlinkGivesBack == [][last'.op = "unlink" /\ steps' = steps + 1 =>
                       LET h == last'.h  d == hd[h].d IN
                       /\ used'[d] = used[d] - SizeOf(h)
                       /\ \A e \in Disks \ {d} : used'[e] = used[e]
                       /\ ~(Key(d, hd[h].n) \in DOMAIN files')]_vars
\* writes, seeks, reads, moves and closes never change the size of another file
OthersUntouched == [][steps' = steps + 1 /\ last'.op # "open" =>
                       LET h == last'.h  k == Key(hd[h].d, hd[h].n) IN
                       \A x \in DOMAIN files \ {k} : x \in DOMAIN files' /\ files'[x] = files[x]]_vars
=============================================================================
