--------------------------------- MODULE Paje ---------------------------------
(* The Paje trace format as a state machine (what a Paje reader keeps while reading a trace file, and what SimGrid's     *)
(* src/instr writes): type hierarchy, entity values, containers, per-(container, state type) stacks, last timestamp.     *)
(* One action per Paje event kind; Why(p, ev) names the first condition of the event that does not hold ("ok" if the     *)
(* event is enabled), Apply(p, ev) is its effect.  Property C47 = every event of a produced trace is enabled:             *)
(*   declare-before-use  : the types, entity values and containers an event refers to have been defined / created         *)
(*   monotone time       : timestamps never decrease in file order                                                        *)
(*   no use after destroy: the containers it refers to have not been destroyed                                            *)
(*   balanced states     : PopState only on a non-empty stack                                                              *)
(* An event ev is a record [e, t, alias, type, container, value, name, start, end, key] (strings; t = rank of the         *)
(* timestamp among the distinct timestamps of the file, -1 for definitions); fields that an event kind does not have      *)
(* are "".  The root container type and the root container are both called "0" and exist from the start.                  *)
EXTENDS Naturals, Integers, Sequences, FiniteSets

Root == "0"

P0 == [ ctype |-> {Root},          \* defined container types
        tparent |-> [x \in {Root} |-> ""],   \* parent container type of every defined type (any kind)
        vtype |-> {}, stype |-> {}, etype |-> {}, ltype |-> {},     \* variable / state / event / link types
        values |-> {},             \* declared entity values, pairs <<type, alias>>
        live  |-> [x \in {Root} |-> Root],   \* containers alive: alias -> container type
        dead  |-> {},              \* aliases of destroyed containers
        depth |-> [x \in {} |-> 0],   \* <<container, state type>> -> depth of the state stack (absent = 0)
        setv  |-> {},              \* <<container, variable type>> that received a SetVariable (ghost)
        names |-> {},              \* names of all containers ever created (diagnostic)
        reinc |-> {},              \* live containers whose name was already borne by an earlier container (diagnostic:
                                   \* SimGrid destroys and re-creates the container of an actor that migrates)
        last  |-> 0,               \* last timestamp (rank)
        lastk |-> "" ]             \* kind of the event that carried it (diagnostic)

AllTypes(p) == DOMAIN p.tparent
Alive(p, c) == c \in DOMAIN p.live
Depth(p, c, ty) == IF <<c, ty>> \in DOMAIN p.depth THEN p.depth[<<c, ty>>] ELSE 0

Defs   == {"DefineContainerType", "DefineVariableType", "DefineStateType", "DefineEventType", "DefineLinkType",
           "DefineEntityValue"}
Timed  == {"CreateContainer", "DestroyContainer", "SetVariable", "AddVariable", "SubVariable", "SetState", "PushState",
           "PopState", "ResetState", "StartLink", "EndLink", "NewEvent"}
VarEv  == {"SetVariable", "AddVariable", "SubVariable"}
StateEv == {"SetState", "PushState", "PopState", "ResetState"}

\* first failing condition of a reference to a container
ContWhy(p, c) == IF Alive(p, c) THEN "ok" ELSE IF c \in p.dead THEN "use-after-destroy" ELSE "container-not-created"

Why(p, ev) ==
  LET k == ev.e IN
  IF k \notin Defs \cup Timed THEN "unknown-event-kind"
  ELSE IF k \in Timed /\ ev.t < p.last THEN "time-decreases"
  ELSE CASE k = "DefineContainerType" ->
              IF ev.type \notin p.ctype THEN "parent-type-not-declared"
              ELSE IF ev.alias \in AllTypes(p) THEN "type-alias-redefined" ELSE "ok"
         [] k \in {"DefineVariableType", "DefineStateType", "DefineEventType"} ->
              IF ev.type \notin p.ctype THEN "container-type-not-declared"
              ELSE IF ev.alias \in AllTypes(p) THEN "type-alias-redefined" ELSE "ok"
         [] k = "DefineLinkType" ->
              IF ev.type \notin p.ctype THEN "container-type-not-declared"
              ELSE IF ev.start \notin p.ctype \/ ev.end \notin p.ctype THEN "link-endpoint-type-not-declared"
              ELSE IF ev.alias \in AllTypes(p) THEN "type-alias-redefined" ELSE "ok"
         [] k = "DefineEntityValue" ->
              IF ev.type \notin (p.stype \cup p.etype \cup p.ltype \cup p.vtype) THEN "value-for-undeclared-type"
              ELSE IF <<ev.type, ev.alias>> \in p.values THEN "value-redefined" ELSE "ok"
         [] k = "CreateContainer" ->
              IF ev.type \notin p.ctype THEN "container-type-not-declared"
              ELSE IF ContWhy(p, ev.container) # "ok" THEN "parent-" \o ContWhy(p, ev.container)
              ELSE IF Alive(p, ev.alias) THEN "container-alias-in-use" ELSE "ok"
         [] k = "DestroyContainer" ->
              IF ContWhy(p, ev.container) # "ok" THEN ContWhy(p, ev.container)
              ELSE IF ev.type \notin p.ctype THEN "container-type-not-declared"
              ELSE IF p.live[ev.container] # ev.type THEN "destroy-with-wrong-type" ELSE "ok"
         [] k \in VarEv ->
              IF ev.type \notin p.vtype THEN "variable-type-not-declared"
              ELSE ContWhy(p, ev.container)
         [] k \in StateEv ->
              IF ev.type \notin p.stype THEN "state-type-not-declared"
              ELSE IF ContWhy(p, ev.container) # "ok" THEN ContWhy(p, ev.container)
              ELSE IF k \in {"SetState", "PushState"} /\ <<ev.type, ev.value>> \notin p.values THEN "state-value-not-declared"
              ELSE IF k = "PopState" /\ Depth(p, ev.container, ev.type) = 0 THEN "pop-without-push"
              ELSE "ok"
         [] k \in {"StartLink", "EndLink"} ->
              IF ev.type \notin p.ltype THEN "link-type-not-declared"
              ELSE IF ContWhy(p, ev.container) # "ok" THEN ContWhy(p, ev.container)
              ELSE IF ContWhy(p, ev.start) # "ok" THEN "endpoint-" \o ContWhy(p, ev.start)
              ELSE "ok"
         [] k = "NewEvent" ->
              IF ev.type \notin p.etype THEN "event-type-not-declared"
              ELSE IF ContWhy(p, ev.container) # "ok" THEN ContWhy(p, ev.container)
              ELSE IF <<ev.type, ev.value>> \notin p.values THEN "event-value-not-declared"
              ELSE "ok"

En(p, ev) == Why(p, ev) = "ok"
\* the same, the date apart (used to go on after a misplaced timestamp: the event is applied, the clock keeps its maximum)
WhyUntimed(p, ev) == Why([p EXCEPT !.last = -1], ev)

SetDepth(p, c, ty, d) == [p EXCEPT !.depth = [x \in (DOMAIN p.depth) \cup {<<c, ty>>} |-> IF x = <<c, ty>> THEN d ELSE p.depth[x]]]
AddType(p, a, parent) == [x \in AllTypes(p) \cup {a} |-> IF x = a THEN parent ELSE p.tparent[x]]

Apply(p, ev) ==
  LET k == ev.e
      q == IF k \in Timed /\ ev.t >= p.last THEN [p EXCEPT !.last = ev.t, !.lastk = k] ELSE p IN
  CASE k = "DefineContainerType" -> [q EXCEPT !.ctype = @ \cup {ev.alias}, !.tparent = AddType(p, ev.alias, ev.type)]
    [] k = "DefineVariableType"  -> [q EXCEPT !.vtype = @ \cup {ev.alias}, !.tparent = AddType(p, ev.alias, ev.type)]
    [] k = "DefineStateType"     -> [q EXCEPT !.stype = @ \cup {ev.alias}, !.tparent = AddType(p, ev.alias, ev.type)]
    [] k = "DefineEventType"     -> [q EXCEPT !.etype = @ \cup {ev.alias}, !.tparent = AddType(p, ev.alias, ev.type)]
    [] k = "DefineLinkType"      -> [q EXCEPT !.ltype = @ \cup {ev.alias}, !.tparent = AddType(p, ev.alias, ev.type)]
    [] k = "DefineEntityValue"   -> [q EXCEPT !.values = @ \cup {<<ev.type, ev.alias>>}]
    [] k = "CreateContainer"     -> [q EXCEPT !.live = [x \in (DOMAIN p.live) \cup {ev.alias} |-> IF x = ev.alias THEN ev.type ELSE p.live[x]],
                                              !.dead = @ \ {ev.alias},
                                              !.names = @ \cup {ev.name},
                                              !.reinc = IF ev.name \in p.names THEN @ \cup {ev.alias} ELSE @ \ {ev.alias}]
    [] k = "DestroyContainer"    -> [q EXCEPT !.live = [x \in (DOMAIN p.live) \ {ev.container} |-> p.live[x]],
                                              !.dead = @ \cup {ev.container},
                                              !.reinc = @ \ {ev.container},
                                              !.depth = [x \in { y \in DOMAIN p.depth : y[1] # ev.container } |-> p.depth[x]]]
    [] k = "SetVariable"         -> [q EXCEPT !.setv = @ \cup {<<ev.container, ev.type>>}]
    [] k \in {"AddVariable", "SubVariable"} -> q
    [] k = "SetState"            -> SetDepth(q, ev.container, ev.type, 1)
    [] k = "PushState"           -> SetDepth(q, ev.container, ev.type, Depth(p, ev.container, ev.type) + 1)
    [] k = "PopState"            -> SetDepth(q, ev.container, ev.type, Depth(p, ev.container, ev.type) - 1)
    [] k = "ResetState"          -> SetDepth(q, ev.container, ev.type, 0)
    [] k \in {"StartLink", "EndLink", "NewEvent"} -> q

\* ------------------------------------------------------------------------------------------------ invariants
PajeInv(p) ==
  /\ p.ctype \subseteq AllTypes(p) /\ p.vtype \subseteq AllTypes(p) /\ p.stype \subseteq AllTypes(p)
  /\ p.etype \subseteq AllTypes(p) /\ p.ltype \subseteq AllTypes(p)
  /\ \A x \in AllTypes(p) \ {Root} : p.tparent[x] \in p.ctype                   \* every type hangs below a declared container type
  /\ \A v \in p.values : v[1] \in AllTypes(p)                                      \* values belong to declared types
  /\ \A c \in DOMAIN p.live : p.live[c] \in p.ctype                                \* live containers have declared types
  /\ (DOMAIN p.live) \cap p.dead = {}                                              \* alive and destroyed are exclusive
  /\ \A x \in DOMAIN p.depth : p.depth[x] >= 0 /\ x[1] \in DOMAIN p.live /\ x[2] \in p.stype   \* balanced stacks, of live containers
  /\ p.last >= 0
=============================================================================
