CONSTANTS MaxSteps = 6  MaxT = 1
SPECIFICATION Spec
INVARIANT Inv
INVARIANT Forbidden
CHECK_DEADLOCK FALSE
