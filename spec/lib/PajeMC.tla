-------------------------------- MODULE PajeMC --------------------------------
(* Exhaustive exploration of module Paje over a small universe of aliases and dates: every sequence of at most MaxSteps   *)
(* enabled events.  Checks that PajeInv is preserved by every enabled event (so that the invariants evaluated during      *)
(* trace validation can only be broken by the trace), that Apply is defined wherever Why says "ok", and that the           *)
(* events the property forbids are indeed disabled in the states where they should be (Forbidden).                         *)
EXTENDS Paje, TLC

CONSTANTS MaxSteps, MaxT

VARIABLES p, n
vars == <<p, n>>

TA == {"1", "2"}             \* type aliases that can be defined (the root type "0" exists)
TT == {"0", "1", "2"}
CC == {"0", "1"}             \* container aliases ("0" = root, "1" can be created / destroyed)
T  == 0..MaxT
E0 == [e |-> "", t |-> -1, alias |-> "", type |-> "", container |-> "", value |-> "", name |-> "", start |-> "", end |-> "", key |-> ""]

Events ==
  { [E0 EXCEPT !.e = k, !.alias = a, !.type = ty] :
        k \in {"DefineContainerType", "DefineVariableType", "DefineStateType", "DefineEventType"}, a \in TA, ty \in TT }
  \cup { [E0 EXCEPT !.e = "DefineLinkType", !.alias = "2", !.type = ty, !.start = s, !.end = s] : ty \in {"0", "1"}, s \in {"0", "1"} }
  \cup { [E0 EXCEPT !.e = "DefineEntityValue", !.alias = "7", !.type = ty] : ty \in TA }
  \cup { [E0 EXCEPT !.e = "CreateContainer", !.alias = "1", !.type = ty, !.container = c, !.t = t] : ty \in TA, c \in CC, t \in T }
  \cup { [E0 EXCEPT !.e = "DestroyContainer", !.container = "1", !.type = ty, !.t = t] : ty \in TA, t \in T }
  \cup { [E0 EXCEPT !.e = k, !.type = ty, !.container = c, !.t = t] :
        k \in {"SetVariable", "AddVariable", "PopState", "ResetState"}, ty \in TA, c \in CC, t \in T }
  \cup { [E0 EXCEPT !.e = k, !.type = ty, !.container = c, !.value = "7", !.t = t] :
        k \in {"SetState", "PushState", "NewEvent"}, ty \in TA, c \in CC, t \in T }
  \cup { [E0 EXCEPT !.e = k, !.type = "2", !.container = c, !.start = s, !.t = t] : k \in {"StartLink", "EndLink"}, c \in CC, s \in CC, t \in T }

Init == p = P0 /\ n = 0
Next == /\ n < MaxSteps
        /\ \E ev \in Events : En(p, ev) /\ p' = Apply(p, ev) /\ n' = n + 1
Spec == Init /\ [][Next]_vars

Inv == PajeInv(p)

\* what C47 forbids is disabled: use of a destroyed or never created container, of an undeclared type or value, a pop on an
\* empty stack, a date in the past
Forbidden ==
  \A ev \in Events :
     /\ (ev.e \in Timed /\ ev.t < p.last => ~En(p, ev))
     /\ (ev.e \in VarEv \cup StateEv \cup {"NewEvent", "StartLink", "EndLink", "DestroyContainer"} /\ ~Alive(p, ev.container) => ~En(p, ev))
     /\ (ev.e \in VarEv \cup StateEv \cup {"NewEvent", "StartLink", "EndLink"} /\ ev.type \notin AllTypes(p) => ~En(p, ev))
     /\ (ev.e \in {"SetState", "PushState", "NewEvent"} /\ <<ev.type, ev.value>> \notin p.values => ~En(p, ev))
     /\ (ev.e = "PopState" /\ Depth(p, ev.container, ev.type) = 0 => ~En(p, ev))
     /\ (ev.e = "CreateContainer" /\ ev.type \notin p.ctype => ~En(p, ev))
=============================================================================
