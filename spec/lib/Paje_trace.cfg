SPECIFICATION Spec
INVARIANT Inv
INVARIANT ProgressInv
POSTCONDITION AtEnd
