----------------------------- MODULE Paje_trace -----------------------------
(* Trace validation for C47: the events of Paje trace files written by real SimGrid runs (converted line by line by the   *)
(* generic %EventDef-driven converter of checks/C47.py) are replayed with the actions of module Paje.  An event that is   *)
(* enabled is applied; an event that is not is reported -- PrintT(<<"REJECT", line, reason, reason apart from the date,   *)
(* kind of the event holding the latest date, "reincarnated" if the container bears the name of an earlier one, event>>), the reasons being Why(p, ev), evaluated here by TLC -- and          *)
(* skipped, so that one pass reports every ill-formed event of every file.                                                  *)
(* TRACE = ndjson; a line {"e":"Reset"} starts a new file.  PajeInv is checked in every state.                            *)
EXTENDS Paje, Json, IOUtils, TLC

Tr == ndJsonDeserialize(IOEnv.TRACE)

VARIABLES p, l, nrej
tvars == <<p, l, nrej>>
Ln == Tr[l]
More == l <= Len(Tr)

Init == p = P0 /\ l = 1 /\ nrej = 0

TReset == /\ More /\ Ln.e = "Reset" /\ p' = P0 /\ l' = l + 1 /\ UNCHANGED nrej
TApply == /\ More /\ Ln.e # "Reset" /\ En(p, Ln) /\ p' = Apply(p, Ln) /\ l' = l + 1 /\ UNCHANGED nrej
\* an event whose only fault is its timestamp is applied all the same (otherwise a late PushState would make the next
\* PopState look unbalanced); any other ill-formed event is skipped
TStuck == /\ More /\ Ln.e # "Reset" /\ ~En(p, Ln)
          /\ PrintT(<<"REJECT", l, Why(p, Ln), WhyUntimed(p, Ln), p.lastk,
                     IF Ln.container \in p.reinc THEN "reincarnated" ELSE "", ToJson(Ln)>>)
          /\ p' = IF WhyUntimed(p, Ln) = "ok" THEN Apply(p, Ln) ELSE p
          /\ l' = l + 1 /\ nrej' = nrej + 1

Next == TReset \/ TApply \/ TStuck
Spec == Init /\ [][Next]_tvars

Inv == PajeInv(p)

Progress == TLCSet(1, IF TLCGet(1) > l THEN TLCGet(1) ELSE l)
ProgressInv == Progress
AtEnd == PrintT(<<"PROGRESS", TLCGet(1), Len(Tr)>>)
ASSUME TLCSet(1, 0)
=============================================================================
