\* safety: all interleavings; see checks/C49.py for the (Mode, N, MaxE, Steal) combinations that are run
CONSTANTS M = m  W = {w1, w2}  MaxE = 2  Applies = 2  Mode = "futex"  Steal = FALSE  Spurious = TRUE  Sizes = {0, 1, 2}  Bug = "none"
SPECIFICATION Spec
INVARIANT Inv
PROPERTY Refines
SYMMETRY Sym
CHECK_DEADLOCK TRUE
