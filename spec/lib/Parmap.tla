------------------------------- MODULE Parmap -------------------------------
(* The thread pool of src/xbt/parmap.hpp (simgrid::xbt::Parmap<T>), one TLA+ process per thread: thread 0 is the     *)
(* master (the caller of apply(), which also works), threads 1..N-1 are the workers (worker_main).  One TLA+ step    *)
(* = one atomic operation of the code (load / store / fetch_add on work_round, thread_counter, common_index; a       *)
(* futex system call; a mutex acquisition / release; a condition-variable wait = "release the mutex and sleep",      *)
(* atomically; a notify).  The three Synchro classes differ only in master_signal / master_wait / worker_signal /    *)
(* worker_wait:                                                                                                       *)
(*   futex : futex_wait(addr, val) blocks iff *addr = val (checked atomically by the kernel); futex_wake(addr, all)  *)
(*   posix : ready_mutex + ready_cond (workers wait for the round), done_mutex + done_cond (master waits for count)  *)
(*   busy  : spinning on the atomics (a spin is a step that is enabled only once the awaited value is there)         *)
(* Steal = TRUE models the way SwappedContextFactory::run_all uses the parmap: fun() does not return before the      *)
(* vector is drained, it fetches further elements itself through Parmap::next().                                      *)
(* Ghost variables (napply, active, cnt, sig) record what the caller can observe; TLC checks that the algorithm      *)
(* implements module ParmapAbs (every element exactly once per apply, return only when all are processed), that      *)
(* apply() returns only after every worker has signalled and left work(), that nothing deadlocks (no lost wake-up)   *)
(* and, in FairSpec, that every apply and the destructor terminate under weak fairness of each thread.                *)
(* Memory model: sequentially consistent atomics (the code uses seq_cst everywhere except the relaxed fetch_add on   *)
(* common_index, which is ordered by the seq_cst operations on work_round / thread_counter around it).               *)
EXTENDS Naturals, Integers, FiniteSets, TLC

CONSTANTS M,         \* the master thread (the caller of apply)
          W,         \* the set of worker threads (model values: TLC exploits their symmetry)
          MaxE,      \* largest data vector
          Applies,   \* number of successive apply() before the destructor runs
          Mode,      \* "futex" | "posix" | "busy"
          Steal,     \* BOOLEAN
          Spurious,  \* BOOLEAN: futex_wait / condition_variable::wait may return without a wake
          Sizes,     \* set of vector sizes an apply may be given (subset of 0..MaxE)
          Bug        \* "none"; or a seeded design error, used by the check to show that the properties are not vacuous:
                     \* "noround" = worker_wait does not compare the round, "earlyret" = master_wait is satisfied
                     \* with one signal less, "nowake" = the last worker does not wake the master

ASSUME M \notin W /\ IsFiniteSet(W) /\ Mode \in {"futex", "posix", "busy"} /\ Sizes \subseteq 0..MaxE

Threads == {M} \cup W
Workers == W
N == Cardinality(W) + 1     \* num_workers of the code: number of threads, master included
Free == "free"              \* value of a mutex that nobody holds
Need == IF Bug = "earlyret" THEN N - 1 ELSE N

VARIABLES round,       \* work_round
          counter,     \* thread_counter
          index,       \* common_index
          len,         \* common_data->size()
          destroying,
          pc,          \* pc[t]: label of the next atomic operation of thread t
          exp,         \* exp[t]: local variable `round` of worker_main
          loc,         \* loc[t]: value loaded by the last load / fetch_add on a synchronisation word
          llen,        \* llen[t]: local copy `length` in work()
          idx,         \* idx[t]: index obtained by the last fetch_add on common_index
          slp,         \* slp[t]: "no", or what the thread sleeps on: "round" / "counter" (futex), "ready" / "done" (condvar)
          rmx, dmx,    \* owner of ready_mutex / done_mutex (or Free)
          napply, active, cnt, sig     \* ghosts
vars == <<round, counter, index, len, destroying, pc, exp, loc, llen, idx, slp, rmx, dmx, napply, active, cnt, sig>>

Abs == INSTANCE ParmapAbs WITH aN <- napply, aActive <- active, aLen <- len, aCnt <- cnt

Init == /\ round = 0 /\ counter = 0 /\ index = 0 /\ len = 0 /\ destroying = FALSE
        /\ pc = [t \in Threads |-> IF t = M THEN "m_idle" ELSE "w_top"]
        /\ exp = [t \in Threads |-> 0] /\ loc = [t \in Threads |-> 0] /\ llen = [t \in Threads |-> 0]
        /\ idx = [t \in Threads |-> 0] /\ slp = [t \in Threads |-> "no"]
        /\ rmx = Free /\ dmx = Free
        /\ napply = 0 /\ active = FALSE /\ cnt = [i \in 0..-1 |-> 0] /\ sig = {}

RoundOK(t) == Bug = "noround" \/ round = exp[t]
Awake(t) == slp[t] = "no"
At(t, l) == pc[t] = l /\ slp[t] = "no"      \* thread t is at label l and not asleep
Goto(t, l) == pc' = [pc EXCEPT ![t] = l]
WakeAll(what) == slp' = [t \in Threads |-> IF slp[t] = what THEN "no" ELSE slp[t]]

\* first label of each synchronisation primitive, per mode
MasterSignal == IF Mode = "posix" THEN "ms_lock" ELSE "ms_cnt"
MasterWait   == IF Mode = "posix" THEN "mw_lock" ELSE "mw_load"
WorkerWait   == IF Mode = "posix" THEN "ww_lock" ELSE "ww_load"
WorkerSignal == IF Mode = "posix" THEN "ws_lock" ELSE "ws_inc"
AfterWork(t) == IF t = M THEN MasterWait ELSE WorkerSignal
WorkPcs == {"wk_len", "wk_fetch", "wk_fun", "st_fetch", "st_fun"}

U(keep) == UNCHANGED keep   \* readability

\* ----------------------------------------------------------------------------------------------- master: apply()
\* worker_fun = fun; common_data = &data   (the ghost Begin records the call)
MBegin(n) == /\ At(M, "m_idle") /\ napply < Applies
             /\ len' = n /\ active' = TRUE /\ napply' = napply + 1 /\ cnt' = [i \in 0..(n - 1) |-> 0] /\ sig' = {}
             /\ Goto(M, "m_idx")
             /\ U(<<round, counter, index, destroying, exp, loc, llen, idx, slp, rmx, dmx>>)
\* common_index = 0
MIndex == /\ At(M, "m_idx") /\ index' = 0 /\ Goto(M, MasterSignal)
          /\ U(<<round, counter, len, destroying, exp, loc, llen, idx, slp, rmx, dmx, napply, active, cnt, sig>>)
\* ~Parmap(): destroying = true; master_signal(); join
MDestroy == /\ At(M, "m_idle") /\ napply = Applies
            /\ destroying' = TRUE /\ Goto(M, MasterSignal)
            /\ U(<<round, counter, index, len, exp, loc, llen, idx, slp, rmx, dmx, napply, active, cnt, sig>>)
MJoin == /\ At(M, "m_join") /\ \A w \in Workers : pc[w] = "w_done"
         /\ Goto(M, "m_done")
         /\ U(<<round, counter, index, len, destroying, exp, loc, llen, idx, slp, rmx, dmx, napply, active, cnt, sig>>)
\* apply() returns
MReturn == /\ At(M, "m_ret") /\ active' = FALSE /\ Goto(M, "m_idle")
           /\ U(<<round, counter, index, len, destroying, exp, loc, llen, idx, slp, rmx, dmx, napply, cnt, sig>>)

\* ----------------------------------------------------------------------------------------------- master_signal
MsLock == /\ At(M, "ms_lock") /\ rmx = Free /\ rmx' = M /\ Goto(M, "ms_cnt")
          /\ U(<<round, counter, index, len, destroying, exp, loc, llen, idx, slp, dmx, napply, active, cnt, sig>>)
MsCnt == /\ At(M, "ms_cnt") /\ counter' = 1 /\ Goto(M, "ms_rnd")
         /\ U(<<round, index, len, destroying, exp, loc, llen, idx, slp, rmx, dmx, napply, active, cnt, sig>>)
AfterSignal == IF destroying THEN "m_join" ELSE "wk_len"
MsRnd == /\ At(M, "ms_rnd") /\ round' = round + 1
         /\ Goto(M, IF Mode = "busy" THEN AfterSignal ELSE "ms_wake")
         /\ U(<<counter, index, len, destroying, exp, loc, llen, idx, slp, rmx, dmx, napply, active, cnt, sig>>)
\* futex_wake(&work_round, INT_MAX)  /  ready_cond.notify_all()
MsWake == /\ At(M, "ms_wake") /\ WakeAll(IF Mode = "futex" THEN "round" ELSE "ready")
          /\ Goto(M, IF Mode = "posix" THEN "ms_unlock" ELSE AfterSignal)
          /\ U(<<round, counter, index, len, destroying, exp, loc, llen, idx, rmx, dmx, napply, active, cnt, sig>>)
MsUnlock == /\ At(M, "ms_unlock") /\ rmx' = Free /\ Goto(M, AfterSignal)
            /\ U(<<round, counter, index, len, destroying, exp, loc, llen, idx, slp, dmx, napply, active, cnt, sig>>)

\* ----------------------------------------------------------------------------------------------- work() and next()
WkLen(t) == /\ At(t, "wk_len") /\ llen' = [llen EXCEPT ![t] = len] /\ Goto(t, "wk_fetch")
            /\ U(<<round, counter, index, len, destroying, exp, loc, idx, slp, rmx, dmx, napply, active, cnt, sig>>)
\* index = common_index.fetch_add(1); while (index < length) ...
WkFetch(t) == /\ At(t, "wk_fetch") /\ index' = index + 1
              /\ IF index < llen[t]
                 THEN idx' = [idx EXCEPT ![t] = index] /\ Goto(t, "wk_fun") /\ U(llen)
                 ELSE idx' = [idx EXCEPT ![t] = 0] /\ Goto(t, AfterWork(t)) /\ llen' = [llen EXCEPT ![t] = 0]   \* dead locals
              /\ U(<<round, counter, len, destroying, exp, loc, slp, rmx, dmx, napply, active, cnt, sig>>)
\* worker_fun((*common_data)[index])
Fun(t, here, next) ==
           /\ At(t, here)
           /\ cnt' = IF idx[t] \in DOMAIN cnt THEN [cnt EXCEPT ![idx[t]] = @ + 1] ELSE cnt
           /\ idx' = [idx EXCEPT ![t] = 0]                                                    \* dead local
           /\ Goto(t, next)
           /\ U(<<round, counter, index, len, destroying, exp, loc, llen, slp, rmx, dmx, napply, active, sig>>)
WkFun(t) == Fun(t, "wk_fun", IF Steal THEN "st_fetch" ELSE "wk_fetch")
\* next(): index = common_index.fetch_add(1); if (index < common_data->size()) return element; else none
StFetch(t) == /\ At(t, "st_fetch") /\ idx' = [idx EXCEPT ![t] = IF index < len THEN index ELSE 0] /\ index' = index + 1
              /\ Goto(t, IF index < len THEN "st_fun" ELSE "wk_fetch")
              /\ U(<<round, counter, len, destroying, exp, loc, llen, slp, rmx, dmx, napply, active, cnt, sig>>)
StFun(t) == Fun(t, "st_fun", "st_fetch")

\* ----------------------------------------------------------------------------------------------- master_wait
\* futex: count = load(thread_counter); while (count < num_workers) { futex_wait(&thread_counter, count); count = load }
\* busy : while (load(thread_counter) < num_workers) yield
MwLoad == /\ At(M, "mw_load")
          /\ IF Mode = "busy"
             THEN /\ counter >= Need /\ Goto(M, "m_ret") /\ U(loc)
             ELSE /\ loc' = [loc EXCEPT ![M] = IF counter < Need THEN counter ELSE 0]
                  /\ Goto(M, IF counter < Need THEN "mw_fwait" ELSE "m_ret")
          /\ U(<<round, counter, index, len, destroying, exp, llen, idx, slp, rmx, dmx, napply, active, cnt, sig>>)
MwFwait == /\ At(M, "mw_fwait")
           /\ slp' = IF counter = loc[M] THEN [slp EXCEPT ![M] = "counter"] ELSE slp
           /\ loc' = [loc EXCEPT ![M] = 0]                                                     \* dead local
           /\ Goto(M, "mw_load")
           /\ U(<<round, counter, index, len, destroying, exp, llen, idx, rmx, dmx, napply, active, cnt, sig>>)
\* posix: unique_lock(done_mutex); done_cond.wait(lock, counter >= num_workers)
MwLock == /\ At(M, "mw_lock") /\ dmx = Free /\ dmx' = M /\ Goto(M, "mw_chk")
          /\ U(<<round, counter, index, len, destroying, exp, loc, llen, idx, slp, rmx, napply, active, cnt, sig>>)
MwChk == /\ At(M, "mw_chk")
         /\ IF counter >= Need
            THEN Goto(M, "mw_unlock") /\ U(<<dmx, slp>>)
            ELSE dmx' = Free /\ slp' = [slp EXCEPT ![M] = "done"] /\ Goto(M, "mw_lock")
         /\ U(<<round, counter, index, len, destroying, exp, loc, llen, idx, rmx, napply, active, cnt, sig>>)
MwUnlock == /\ At(M, "mw_unlock") /\ dmx' = Free /\ Goto(M, "m_ret")
            /\ U(<<round, counter, index, len, destroying, exp, loc, llen, idx, slp, rmx, napply, active, cnt, sig>>)

\* ----------------------------------------------------------------------------------------------- worker_main
WTop(t) == /\ At(t, "w_top") /\ exp' = [exp EXCEPT ![t] = @ + 1] /\ Goto(t, WorkerWait)
           /\ U(<<round, counter, index, len, destroying, loc, llen, idx, slp, rmx, dmx, napply, active, cnt, sig>>)
WChk(t) == /\ At(t, "w_chk") /\ Goto(t, IF destroying THEN "w_done" ELSE "wk_len")
           /\ U(<<round, counter, index, len, destroying, exp, loc, llen, idx, slp, rmx, dmx, napply, active, cnt, sig>>)

\* ----------------------------------------------------------------------------------------------- worker_wait(exp)
WwLoad(t) == /\ At(t, "ww_load")
             /\ IF Mode = "busy"
                THEN /\ RoundOK(t) /\ Goto(t, "w_chk") /\ U(loc)
                ELSE /\ loc' = [loc EXCEPT ![t] = IF ~RoundOK(t) THEN round ELSE 0]
                     /\ Goto(t, IF ~RoundOK(t) THEN "ww_fwait" ELSE "w_chk")
             /\ U(<<round, counter, index, len, destroying, exp, llen, idx, slp, rmx, dmx, napply, active, cnt, sig>>)
WwFwait(t) == /\ At(t, "ww_fwait")
              /\ slp' = IF round = loc[t] THEN [slp EXCEPT ![t] = "round"] ELSE slp
              /\ loc' = [loc EXCEPT ![t] = 0]                                                  \* dead local
              /\ Goto(t, "ww_load")
              /\ U(<<round, counter, index, len, destroying, exp, llen, idx, rmx, dmx, napply, active, cnt, sig>>)
WwLock(t) == /\ At(t, "ww_lock") /\ rmx = Free /\ rmx' = t /\ Goto(t, "ww_chk")
             /\ U(<<round, counter, index, len, destroying, exp, loc, llen, idx, slp, dmx, napply, active, cnt, sig>>)
WwChk(t) == /\ At(t, "ww_chk")
            /\ IF RoundOK(t)
               THEN Goto(t, "ww_unlock") /\ U(<<rmx, slp>>)
               ELSE rmx' = Free /\ slp' = [slp EXCEPT ![t] = "ready"] /\ Goto(t, "ww_lock")
            /\ U(<<round, counter, index, len, destroying, exp, loc, llen, idx, dmx, napply, active, cnt, sig>>)
WwUnlock(t) == /\ At(t, "ww_unlock") /\ rmx' = Free /\ Goto(t, "w_chk")
               /\ U(<<round, counter, index, len, destroying, exp, loc, llen, idx, slp, dmx, napply, active, cnt, sig>>)

\* ----------------------------------------------------------------------------------------------- worker_signal
WsLock(t) == /\ At(t, "ws_lock") /\ dmx = Free /\ dmx' = t /\ Goto(t, "ws_inc")
             /\ U(<<round, counter, index, len, destroying, exp, loc, llen, idx, slp, rmx, napply, active, cnt, sig>>)
\* count = thread_counter.fetch_add(1) + 1   (posix: thread_counter++ under done_mutex)
WsInc(t) == /\ At(t, "ws_inc") /\ counter' = counter + 1
            /\ sig' = sig \cup {t}
            /\ Goto(t, CASE Mode = "busy"  -> "w_top"
                         [] Mode = "futex" -> IF counter + 1 = N THEN "ws_wake" ELSE "w_top"
                         [] Mode = "posix" -> "ws_tst")
            /\ U(<<round, index, len, destroying, exp, loc, llen, idx, slp, rmx, dmx, napply, active, cnt>>)
\* posix: if (thread_counter == num_workers) done_cond.notify_one()
WsTst(t) == /\ At(t, "ws_tst") /\ Goto(t, IF counter = N THEN "ws_wake" ELSE "ws_unlock")
            /\ U(<<round, counter, index, len, destroying, exp, loc, llen, idx, slp, rmx, dmx, napply, active, cnt, sig>>)
\* futex_wake(&thread_counter, INT_MAX) / done_cond.notify_one(): only the master ever sleeps there
WsWake(t) == /\ At(t, "ws_wake") /\ (IF Bug = "nowake" THEN U(slp) ELSE WakeAll(IF Mode = "futex" THEN "counter" ELSE "done"))
             /\ Goto(t, IF Mode = "posix" THEN "ws_unlock" ELSE "w_top")
             /\ U(<<round, counter, index, len, destroying, exp, loc, llen, idx, rmx, dmx, napply, active, cnt, sig>>)
WsUnlock(t) == /\ At(t, "ws_unlock") /\ dmx' = Free /\ Goto(t, "w_top")
               /\ U(<<round, counter, index, len, destroying, exp, loc, llen, idx, slp, rmx, napply, active, cnt, sig>>)

\* a sleeping thread may be woken for no reason (EINTR, spurious condvar wake-up): it re-checks its condition
SpuriousWake(t) == /\ Spurious /\ slp[t] # "no" /\ slp' = [slp EXCEPT ![t] = "no"]
                   /\ U(<<round, counter, index, len, destroying, pc, exp, loc, llen, idx, rmx, dmx, napply, active, cnt, sig>>)

MasterStep == \/ \E n \in Sizes : MBegin(n)
              \/ MIndex \/ MDestroy \/ MJoin \/ MReturn \/ MsLock \/ MsCnt \/ MsRnd \/ MsWake \/ MsUnlock
              \/ MwLoad \/ MwFwait \/ MwLock \/ MwChk \/ MwUnlock
WorkStep(t) == WkLen(t) \/ WkFetch(t) \/ WkFun(t) \/ StFetch(t) \/ StFun(t)
WorkerStep(t) == \/ WTop(t) \/ WChk(t) \/ WwLoad(t) \/ WwFwait(t) \/ WwLock(t) \/ WwChk(t) \/ WwUnlock(t)
                 \/ WsLock(t) \/ WsInc(t) \/ WsTst(t) \/ WsWake(t) \/ WsUnlock(t)
ThreadStep(t) == WorkStep(t) \/ IF t = M THEN MasterStep ELSE WorkerStep(t)      \* used by the fairness conditions

AllDone == pc[M] = "m_done" /\ \A w \in Workers : pc[w] = "w_done"
\* flat disjunction of the named actions, so that TLC's coverage reports each of them
Next == \/ \E n \in Sizes : MBegin(n)
        \/ MIndex \/ MDestroy \/ MJoin \/ MReturn \/ MsLock \/ MsCnt \/ MsRnd \/ MsWake \/ MsUnlock
        \/ MwLoad \/ MwFwait \/ MwLock \/ MwChk \/ MwUnlock
        \/ \E t \in Threads : WkLen(t)
        \/ \E t \in Threads : WkFetch(t)
        \/ \E t \in Threads : WkFun(t)
        \/ \E t \in Threads : StFetch(t)
        \/ \E t \in Threads : StFun(t)
        \/ \E t \in Workers : WTop(t)
        \/ \E t \in Workers : WChk(t)
        \/ \E t \in Workers : WwLoad(t)
        \/ \E t \in Workers : WwFwait(t)
        \/ \E t \in Workers : WwLock(t)
        \/ \E t \in Workers : WwChk(t)
        \/ \E t \in Workers : WwUnlock(t)
        \/ \E t \in Workers : WsLock(t)
        \/ \E t \in Workers : WsInc(t)
        \/ \E t \in Workers : WsTst(t)
        \/ \E t \in Workers : WsWake(t)
        \/ \E t \in Workers : WsUnlock(t)
        \/ \E t \in Threads : SpuriousWake(t)
        \/ AllDone /\ UNCHANGED vars            \* the only legal terminal state (everything else is a deadlock)

Spec == Init /\ [][Next]_vars
Sym == Permutations(Workers)      \* the workers are interchangeable (safety runs only)
\* Fairness: every thread that can take a step eventually does (weak fairness).  For the posix mode this is not enough
\* and not what a mutex gives: under WF alone TLC exhibits a run where a worker that is woken spuriously again and again
\* re-takes ready_mutex each time, so that the master's lock() is never *continuously* enabled and never happens.
\* Mutex acquisitions are therefore strongly fair (a thread that keeps finding the mutex free eventually gets it).
LockStep(t) == (IF t = M THEN MsLock \/ MwLock ELSE WwLock(t) \/ WsLock(t))
FairSpec == Spec /\ \A t \in Threads : WF_vars(ThreadStep(t)) /\ SF_vars(LockStep(t))

\* ----------------------------------------------------------------------------------------------- properties
TypeOK == /\ round \in 0..(Applies + 1) /\ counter \in 0..(N + 1) /\ index \in 0..(MaxE + 2 * N + 1) /\ len \in 0..MaxE
          /\ \A t \in Threads : slp[t] \in {"no", "round", "counter", "ready", "done"}
          /\ rmx \in Threads \cup {Free} /\ dmx \in Threads \cup {Free} /\ sig \subseteq Workers

\* C49: never twice
AtMostOnce == \A i \in DOMAIN cnt : cnt[i] <= 1
\* apply() returns only when every element is processed, every worker has signalled and is out of work(); the
\* shared words then hold the values the driver reads from the real object
ReturnOK == pc[M] = "m_ret" =>
              /\ Abs!AllProcessed
              /\ sig = Workers
              /\ \A w \in Workers : pc[w] \notin WorkPcs
              /\ Abs!ReturnObsOK(N, Steal, len, napply, counter, round, index)
\* nothing is processed, and nobody is in work(), outside an apply
QuietOutside == ~active => \A t \in Threads : pc[t] \notin WorkPcs
MutexOK == (rmx # Free => pc[rmx] \in {"ms_cnt", "ms_rnd", "ms_wake", "ms_unlock", "ww_chk", "ww_unlock"})
           /\ (dmx # Free => pc[dmx] \in {"mw_chk", "mw_unlock", "ws_inc", "ws_tst", "ws_wake", "ws_unlock"})
Inv == TypeOK /\ AtMostOnce /\ ReturnOK /\ QuietOutside /\ MutexOK

\* the algorithm implements the abstract parallel map
Refines == [][Abs!AbsNext(MaxE)]_<<napply, active, len, cnt>>
\* liveness (FairSpec): the destructor returns, hence every apply returned
Terminates == <>AllDone
EveryApplyReturns == [](active => <>~active)
=============================================================================
