------------------------------ MODULE ParmapAbs ------------------------------
(* What xbt::Parmap<T> promises to its caller (property C49), independently of threads and of the synchronisation  *)
(* mode: between the call of apply(fun, data) and its return, fun is called on every element of data exactly once;  *)
(* nothing is processed outside an apply.                                                                            *)
(* The algorithm of src/xbt/parmap.hpp is module Parmap, which TLC shows to implement this module (refinement        *)
(* mapping checked as a property); the logs of the real Parmap are validated against this module by Parmap_trace.    *)
EXTENDS Naturals, Integers

VARIABLES aN,       \* number of apply() calls begun so far on this parmap
          aActive,  \* an apply() is in progress
          aLen,     \* size of the data vector of the current / last apply
          aCnt      \* aCnt[i] = number of calls of fun on element i during the current / last apply
absvars == <<aN, aActive, aLen, aCnt>>

AbsInit == aN = 0 /\ aActive = FALSE /\ aLen = 0 /\ aCnt = [i \in 0..-1 |-> 0]

Begin(n) == /\ ~aActive
            /\ aActive' = TRUE /\ aLen' = n /\ aCnt' = [i \in 0..(n - 1) |-> 0] /\ aN' = aN + 1

\* fun(data[i]) is called: only during an apply, only on an element of the vector, only if not yet done in this apply
Process(i) == /\ aActive /\ i \in 0..(aLen - 1) /\ aCnt[i] = 0
              /\ aCnt' = [aCnt EXCEPT ![i] = 1]
              /\ UNCHANGED <<aN, aActive, aLen>>

AllProcessed == \A i \in 0..(aLen - 1) : aCnt[i] = 1

\* apply() returns: only when every element has been processed
Return == /\ aActive /\ AllProcessed
          /\ aActive' = FALSE
          /\ UNCHANGED <<aN, aLen, aCnt>>

\* maxn bounds the vector sizes (TLC cannot enumerate Nat)
AbsNext(maxn) == (\E n \in 0..maxn : Begin(n)) \/ (\E i \in 0..(aLen - 1) : Process(i)) \/ Return
AbsSpec(maxn) == AbsInit /\ [][AbsNext(maxn)]_absvars

\* What the shared words of the implementation hold when apply() number k over n elements returns, with nthreads
\* threads (master included).  Invariant of module Parmap at label m_ret (checked by TLC), compared with the values
\* read from the real object by the driver:  thread_counter = all threads have signalled; work_round = k;
\* common_index = n successful fetches + one failing fetch per call of work() (+ one per thread whose fun() drained
\* the vector through next(), as SwappedContext does).
ReturnObsOK(nthreads, steal, n, k, counter, round, index) ==
    /\ counter = nthreads
    /\ round = k
    /\ index >= n + nthreads
    /\ index <= n + (IF steal THEN 2 * nthreads ELSE nthreads)
=============================================================================
