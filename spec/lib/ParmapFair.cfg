\* liveness under weak fairness of every thread
CONSTANTS M = m  W = {w1, w2}  MaxE = 2  Applies = 2  Mode = "futex"  Steal = FALSE  Spurious = TRUE  Sizes = {0, 2}  Bug = "none"
SPECIFICATION FairSpec
PROPERTY Terminates
PROPERTY EveryApplyReturns
CHECK_DEADLOCK TRUE
