----------------------------- MODULE Parmap_trace -----------------------------
(* Trace validation for C49: the merged log of the real simgrid::xbt::Parmap (harness/parmap_driver.cpp) must be a     *)
(* behaviour of ParmapAbs: a proc line is accepted iff its element belongs to the vector of the apply in progress and   *)
(* has not been processed yet in this apply; a ret line iff every element has been processed, and the shared words the  *)
(* driver read from the object are those module Parmap has at label m_ret (ReturnObsOK).                                 *)
(* TRACE (environment) = ndjson file holding many parmap instances: new, (begin, proc*, ret)*, del.                      *)
(* Every line is consumed by exactly one action, so a trace is accepted iff the line counter reaches Len(Tr) + 1; the   *)
(* highest line reached is kept in TLC register 1 (-workers 1) and printed by the post-condition.                        *)
EXTENDS ParmapAbs, Sequences, Json, IOUtils, TLC

Tr == ndJsonDeserialize(IOEnv.TRACE)

VARIABLES l,        \* next line
          alive,    \* a parmap object exists
          nthr,     \* its number of threads (master included)
          steal     \* fun() drains the vector through next()
tvars == <<aN, aActive, aLen, aCnt, l, alive, nthr, steal>>
Ln == Tr[l]
More == l <= Len(Tr)
Consume == l' = l + 1

Init == AbsInit /\ l = 1 /\ alive = FALSE /\ nthr = 0 /\ steal = FALSE

TNew == /\ More /\ Ln.e = "new" /\ ~alive
        /\ alive' = TRUE /\ nthr' = Ln.n /\ steal' = Ln.steal
        /\ aN' = 0 /\ aActive' = FALSE /\ aLen' = 0 /\ aCnt' = [i \in 0..-1 |-> 0]
        /\ Consume
TBegin == /\ More /\ Ln.e = "begin" /\ alive /\ Ln.k = aN + 1
          /\ Begin(Ln.len)
          /\ Consume /\ UNCHANGED <<alive, nthr, steal>>
TProc == /\ More /\ Ln.e = "proc" /\ alive /\ Ln.k = aN /\ Ln.t \in 0..(nthr - 1)
         /\ Process(Ln.i)
         /\ Consume /\ UNCHANGED <<alive, nthr, steal>>
TRet == /\ More /\ Ln.e = "ret" /\ alive /\ Ln.k = aN
        /\ Return
        /\ ReturnObsOK(nthr, steal, aLen, aN, Ln.counter, Ln.round, Ln.index)
        /\ Consume /\ UNCHANGED <<alive, nthr, steal>>
TDel == /\ More /\ Ln.e = "del" /\ alive /\ ~aActive
        /\ alive' = FALSE
        /\ Consume /\ UNCHANGED <<aN, aActive, aLen, aCnt, nthr, steal>>

Next == TNew \/ TBegin \/ TProc \/ TRet \/ TDel
Spec == Init /\ [][Next]_tvars

\* C49 as a state predicate of the observed execution
Inv == \A i \in DOMAIN aCnt : aCnt[i] <= 1

Progress == TLCSet(1, IF TLCGet(1) > l THEN TLCGet(1) ELSE l)
ProgressInv == Progress
AtEnd == PrintT(<<"PROGRESS", TLCGet(1), Len(Tr)>>)
ASSUME TLCSet(1, 0)
=============================================================================
