------------------------------- MODULE Random -------------------------------
(* C45: the rejection sampler of simgrid::xbt::random::XbtRandom::uniform_int (src/xbt/random.cpp), transcribed.       *)
(*                                                                                                                   *)
(*   unsigned long range = (unsigned) max - (unsigned) min;          -- 0 .. 2^32-1                                   *)
(*   if (range == mt19937::max()) return gen() + min;                -- full range: the raw word itself               *)
(*   ++range;                                                        -- r = number of values, 1 .. 2^32-1             *)
(*   limit = mt19937::max() - mt19937::max() % range;                -- M = 2^32-1 (the generator yields 0..M)         *)
(*   do value = gen(); while (value >= limit);                       -- rejection                                     *)
(*   return value % range + min;                                                                                      *)
(*                                                                                                                   *)
(* M is the largest raw value.  The lemmas below are stated in RandomProof.tla, which Apalache checks symbolically;      *)
(* checks them symbolically for *all* states satisfying Init (apalache-mc check --length=0 --inv=LemmaN), i.e. for     *)
(* every range r in 1..2^32-1; RandomMC re-checks them by brute force with TLC for word sizes 4..12.                  *)
EXTENDS Integers

Limit(M, r)     == M - (M % r)
Accept(M, r, x) == x < Limit(M, r)          \* the loop leaves with the first accepted raw value
Off(r, x)       == x % r                    \* offset from min of the value returned
=============================================================================
