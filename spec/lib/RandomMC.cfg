SPECIFICATION Spec
CONSTANTS
  Wmin = 4
  Wmax = 8
  Wcount = 6
