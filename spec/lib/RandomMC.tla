------------------------------- MODULE RandomMC -------------------------------
(* Brute-force re-check (TLC) of the lemmas of Random.tla for small word sizes: M = 2^W - 1, every range r in 1..M,   *)
(* every raw value 0..M; unbiasedness is checked by *counting* the accepted preimages of every residue.              *)
EXTENDS Random, FiniteSets, TLC

CONSTANTS Wmin, Wmax, Wcount      \* preimages are counted up to word size Wcount, checked pointwise (bijection) above

\* number of accepted raw values mapped to residue k, counted
Preimages(M, r, k) == Cardinality({ x \in 0..M : Accept(M, r, x) /\ Off(r, x) = k })
CheckWord(W) ==
  LET M == 2^W - 1 IN
  \A r \in 1..M :
     /\ Limit(M, r) % r = 0 /\ Limit(M, r) > 0 /\ Limit(M, r) <= M /\ M - Limit(M, r) < r
     /\ (W <= Wcount => \A k \in 0..(r - 1) : Preimages(M, r, k) = Limit(M, r) \div r)
     \* the same fact as a bijection between accepted raw values and (residue, quotient) pairs
     /\ \A k \in 0..(r - 1) : \A q \in 0..((Limit(M, r) \div r) - 1) :
            Accept(M, r, k + q * r) /\ Off(r, k + q * r) = k /\ (k + q * r) \div r = q
     /\ \A x \in 0..M : Accept(M, r, x) => (x \div r) < Limit(M, r) \div r /\ Off(r, x) + (x \div r) * r = x
     /\ \A x \in 0..M : Accept(M, r, x) => Off(r, x) \in 0..(r - 1)
     /\ \E x \in 0..M : Accept(M, r, x)                       \* the loop can terminate
AllWords == \A W \in Wmin..Wmax : CheckWord(W) /\ PrintT(<<"WORD", W, "ok">>)

VARIABLE x
Init == x = 0 /\ AllWords
Next == UNCHANGED x
Spec == Init /\ [][Next]_x
=============================================================================
