----------------------------- MODULE RandomProof -----------------------------
(* The lemmas about the sampler of Random.tla, for 32-bit words, in the form that Apalache checks:                   *)
(*   apalache-mc check --length=0 --inv=Lemma1 RandomProof.tla      (idem Lemma2, Lemma3)                             *)
(* --length=0 checks the invariant in every state satisfying Init: a symbolic check over unbounded SMT integers of    *)
(* every range r in 1..2^32-1, every residue, quotient, raw value and pair of bounds.  (TLC cannot even read the      *)
(* constant 2^32-1: RandomMC re-checks the same statements by brute force for word sizes 4..12.)                      *)
EXTENDS Random

VARIABLES
  \* @type: Int;
  m,
  \* @type: Int;
  r,
  \* @type: Int;
  k,
  \* @type: Int;
  q,
  \* @type: Int;
  v,
  \* @type: Int;
  lo,
  \* @type: Int;
  hi

\* every 32-bit configuration: r values, a residue k, a quotient q, a raw value v, bounds lo <= hi of r values
Init == /\ m = 4294967295
        /\ r \in Int /\ k \in Int /\ q \in Int /\ v \in Int /\ lo \in Int /\ hi \in Int
        /\ r >= 1 /\ r <= m
        /\ k >= 0 /\ k < r
        /\ q >= 0 /\ q < Limit(m, r) \div r
        /\ v >= 0 /\ v <= m
        /\ lo >= -2147483648 /\ hi <= 2147483647 /\ hi - lo + 1 = r
Next == UNCHANGED <<m, r, k, q, v, lo, hi>>

\* (1) the limit is a positive multiple of the range, at most M, and fewer than r raw values are wasted
Lemma1 == /\ Limit(m, r) % r = 0
          /\ Limit(m, r) > 0 /\ Limit(m, r) <= m
          /\ m - Limit(m, r) < r
\* (2) unbiased: x |-> (x % r, x \div r) is a bijection between the accepted raw values 0..Limit-1 and
\*     (0..r-1) \X (0..Limit/r - 1): every residue k has exactly Limit/r accepted preimages k + q*r
Lemma2 == /\ k + q * r < Limit(m, r)
          /\ (k + q * r) % r = k
          /\ (k + q * r) \div r = q
          /\ (Accept(m, r, v) => /\ (v % r) + (v \div r) * r = v
                                 /\ v % r >= 0 /\ v % r < r
                                 /\ v \div r >= 0 /\ v \div r < Limit(m, r) \div r)
\* (3) the value returned for an accepted raw value lies in [lo, hi]
Lemma3 == Accept(m, r, v) => (lo + Off(r, v) >= lo /\ lo + Off(r, v) <= hi)
\* not a lemma: a state predicate that Init does NOT imply; the check expects Apalache to refute it (Init is satisfiable,
\* the lemmas are not vacuous)
Refutable == ~(r = 7 /\ v = 4294967290 /\ Accept(m, r, v))
=============================================================================
