------------------------------ MODULE RandomWide ------------------------------
(* The sampler of Random.tla on numbers wider than TLC's 32-bit integers: a natural number is a pair <<hi, lo>> in    *)
(* base B = 2^H (lo < B; hi may exceed B in intermediate results).  With H = 16 this evaluates the rule on the real  *)
(* 32-bit raw words of std::mt19937 (Random_trace); with H = 4, 5 RandomWideMC checks by brute force that these       *)
(* operators agree with the plain integer operators of Random.tla.                                                   *)
EXTENDS Integers, Sequences

CONSTANT H
B == 2^H
Val(x) == x[1] * B + x[2]                         \* only meaningful when it fits (small H)
W(n)   == <<n \div B, n % B>>                     \* idem
Geq(x, y) == x[1] > y[1] \/ (x[1] = y[1] /\ x[2] >= y[2])
Sub(x, y) == IF x[2] >= y[2] THEN <<x[1] - y[1], x[2] - y[2]>> ELSE <<x[1] - y[1] - 1, x[2] + B - y[2]>>     \* x >= y
Add(x, y) == LET l == x[2] + y[2] IN <<x[1] + y[1] + (l \div B), l % B>>
Dbl(x, bit) == LET l == 2 * x[2] + bit IN <<2 * x[1] + (l \div B), l % B>>
Bit(x, i) == IF i >= H THEN (x[1] \div (2^(i - H))) % 2 ELSE (x[2] \div (2^i)) % 2
\* x mod r by bit-serial long division over the 2H bits of x (x < B*B, r >= 1)
RECURSIVE ModStep(_, _, _, _)
ModStep(x, r, i, rem) == IF i < 0 THEN rem
                         ELSE LET t == Dbl(rem, Bit(x, i)) IN ModStep(x, r, i - 1, IF Geq(t, r) THEN Sub(t, r) ELSE t)
Mod(x, r) == ModStep(x, r, 2 * H - 1, <<0, 0>>)

WM == <<B - 1, B - 1>>                             \* the largest raw value, 2^(2H) - 1
WLimit(r)     == Sub(WM, Mod(WM, r))
WAccept(r, x) == ~Geq(x, WLimit(r))
WOff(r, x)    == Mod(x, r)
=============================================================================
