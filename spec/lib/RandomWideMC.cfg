SPECIFICATION Spec
CONSTANT H = 4
