----------------------------- MODULE RandomWideMC -----------------------------
(* The wide operators agree with Random.tla's on every range and raw value of a 2H-bit word (TLC, brute force).      *)
EXTENDS RandomWide, TLC
R == INSTANCE Random
M == B * B - 1
Agree == \A rr \in 1..M :
           /\ Val(WLimit(W(rr))) = R!Limit(M, rr)
           /\ \A x \in 0..M : /\ WAccept(W(rr), W(x)) = R!Accept(M, rr, x)
                              /\ Val(WOff(W(rr), W(x))) = R!Off(rr, x)
                              /\ Val(Add(W(rr), W(x))) = rr + x
                              /\ (x >= rr => Val(Sub(W(x), W(rr))) = x - rr)
VARIABLE z
Init == z = 0 /\ Agree /\ PrintT(<<"AGREE", H, M>>)
Next == UNCHANGED z
Spec == Init /\ [][Next]_z
=============================================================================
