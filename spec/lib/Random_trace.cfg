SPECIFICATION Spec
CONSTANT H = 16
INVARIANT ProgressInv
POSTCONDITION AtEnd
