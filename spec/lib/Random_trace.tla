----------------------------- MODULE Random_trace -----------------------------
(* Trace validation for C45: every draw logged by harness/c45drv.cpp must follow from the raw std::mt19937 words it     *)
(* consumed by the rule of Random.tla (evaluated on 16-bit halves: RandomWide with H = 16).                            *)
(* Line of kind "int":  min, max (32-bit signed, fit TLC), raws = the raw words consumed, each as [hi, lo], value       *)
(*                      returned, off = (unsigned) value - (unsigned) min as [hi, lo].                                  *)
(* Line of kind "real": min, max (integers, |.| <= 1000), raws, v8 = floor(8 * value returned).                         *)
(* The raw words are reproduced by the driver with its own std::mt19937 in the same state: "the sequence is fixed by    *)
(* SimGrid's own code" = the value is this function of the engine's output, no standard-library distribution involved. *)
EXTENDS RandomWide, Json, IOUtils, TLC

Tr == ndJsonDeserialize(IOEnv.TRACE)
VARIABLE l
Ln == Tr[l]

\* x + 2^31 as a wide number, for a 32-bit signed x (no intermediate leaves the 32-bit signed range)
Bias(x) == IF x >= 0 THEN <<32768 + (x \div 65536), x % 65536>>
           ELSE LET y == (x + 2147483647) + 1 IN <<y \div 65536, y % 65536>>
Raw(i) == <<Ln.raws[i][1], Ln.raws[i][2]>>
N == Len(Ln.raws)
WellFormed == N >= 1 /\ \A i \in 1..N : Raw(i)[1] \in 0..65535 /\ Raw(i)[2] \in 0..65535

IntRule ==
  /\ Ln.min <= Ln.max /\ WellFormed
  /\ LET rm1 == Sub(Bias(Ln.max), Bias(Ln.min))          \* number of values - 1
         off == <<Ln.off[1], Ln.off[2]>> IN
     /\ IF rm1 = WM
        THEN N = 1 /\ off = Raw(1)                         \* full 32-bit range: the raw word itself
        ELSE LET r == Add(rm1, <<0, 1>>) IN
             /\ \A i \in 1..(N - 1) : ~WAccept(r, Raw(i))   \* every raw word before the last was rejected ...
             /\ WAccept(r, Raw(N))                          \* ... the loop stops at the first accepted one
             /\ off = WOff(r, Raw(N))
     \* the value returned is min + off, inside [min, max]
     /\ Bias(Ln.value) = Add(Bias(Ln.min), off)
     /\ Ln.value >= Ln.min /\ Ln.value <= Ln.max

RealRule ==
  /\ Ln.min < Ln.max /\ WellFormed /\ Ln.min >= -1000 /\ Ln.max <= 1000
  /\ \A i \in 1..(N - 1) : Raw(i) = WM                     \* numerator = divisor is redrawn
  /\ Raw(N) # WM
  /\ LET d == Ln.max - Ln.min  h == Raw(N)[1]  w == Ln.v8 - 8 * Ln.min IN
     /\ Ln.v8 >= 8 * Ln.min /\ Ln.v8 <= 8 * Ln.max         \* value in [min, max]
     \* value = min + d * raw / (2^32 - 1), and raw / (2^32 - 1) lies in [h / 2^16, (h + 1) / 2^16]
     /\ (w + 1) * 65536 >= 8 * d * h - 1
     /\ w * 65536 <= 8 * d * (h + 1) + 1

Init == l = 1
Next == /\ l <= Len(Tr)
        /\ \/ Ln.e = "int" /\ IntRule
           \/ Ln.e = "real" /\ RealRule
        /\ l' = l + 1
Spec == Init /\ [][Next]_l

Progress == TLCSet(1, IF TLCGet(1) > l THEN TLCGet(1) ELSE l)
ProgressInv == Progress
AtEnd == PrintT(<<"PROGRESS", TLCGet(1), Len(Tr)>>)
ASSUME TLCSet(1, 0)
=============================================================================
