\* the module only evaluates its tables: TableSound is checked and the cases are printed while computing Init
SPECIFICATION Spec
