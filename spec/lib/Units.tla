------------------------------- MODULE Units -------------------------------
(* C27: values with units.  The documented unit tables of SimGrid as exact values, and the enumeration of          *)
(* (number format x unit x prefix) cases with their exact expected value.                                          *)
(*                                                                                                                 *)
(* A multiplier is exact: <<m, a, b>> stands for m * 10^a * 2^b.  Sources of the table:                             *)
(*   time       docs/source/XML_reference.rst (table of <link latency>) and the comment of src/kernel/xml/simgrid.dtd *)
(*   bandwidth  XML_reference.rst (<link bandwidth>, <disk read_bw>): bytes/bits, powers of 2 (Ki..Ei) and of 10      *)
(*              (written K, M..E there: "1 KBps = 1,000 Bps"); simgrid.dtd lists the same with k for 10^3            *)
(*   speed      simgrid.dtd: f / flops with kf..Yf and kiloflops..yottaflops ("zettaflops"); "20kf (= 20,000 flop/s)"*)
(*              in Configuring_SimGrid.rst                                                                           *)
(*   size       no table of its own: same convention as bandwidth without "ps" ("Append 'B' to get bytes (or 'b' for *)
(*              bits but 1B = 8b)", used for disk sizes such as 500GiB)                                              *)
(* class "doc" = written in one of these sources; class "ext" = accepted by the parser beyond the documented lists   *)
(* (Zi/Yi/Z/Y on sizes and bandwidths): may be rejected, but if accepted must have the SI / IEC magnitude.           *)
(*                                                                                                                 *)
(* Strings are atomic in TLC: a case is printed as its pieces (integer part, fractional digits, exponent, style,     *)
(* prefix, unit) and the harness renders the literal; the expected value is printed exactly as <<m, a, b>>.          *)
EXTENDS Naturals, Integers, Sequences, FiniteSets, TLC, Json, IOUtils

\* ------------------------------------------------------------------ unit tables
DecAbbr == <<"k", "M", "G", "T", "P", "E", "Z", "Y">>            \* 10^(3i)
BinAbbr == <<"Ki", "Mi", "Gi", "Ti", "Pi", "Ei", "Zi", "Yi">>    \* 2^(10i)
DecLong == <<"kilo", "mega", "giga", "tera", "peta", "exa", "zetta", "yotta">>

U(kind, prefix, unit, m, a, b, cls, src) ==
  [kind |-> kind, prefix |-> prefix, unit |-> unit, m |-> m, a |-> a, b |-> b, cls |-> cls, src |-> src]

TimeUnits ==
  { U("time", "", "ps", 1, -12, 0, "doc", "XML_reference"), U("time", "", "ns", 1, -9, 0, "doc", "XML_reference"),
    U("time", "", "us", 1, -6, 0, "doc", "XML_reference"),  U("time", "", "ms", 1, -3, 0, "doc", "XML_reference"),
    U("time", "", "s", 1, 0, 0, "doc", "XML_reference"),    U("time", "", "m", 6, 1, 0, "doc", "XML_reference"),
    U("time", "", "h", 36, 2, 0, "doc", "XML_reference"),   U("time", "", "d", 864, 2, 0, "doc", "XML_reference"),
    U("time", "", "w", 6048, 2, 0, "doc", "XML_reference") }

\* bytes (b2 = 0) or bits (b2 = -3: one eighth) with every prefix; documented up to E / Ei
ByteBitUnits(kind, suffix) ==
  UNION { { U(kind, "", base[1] \o suffix, 1, 0, base[2], "doc", "XML_reference") }
          \cup { U(kind, DecAbbr[i], base[1] \o suffix, 1, 3 * i, base[2], IF i <= 6 THEN "doc" ELSE "ext", "dtd") : i \in 1..8 }
          \cup { U(kind, BinAbbr[i], base[1] \o suffix, 1, 0, 10 * i + base[2], IF i <= 6 THEN "doc" ELSE "ext", "XML_reference") : i \in 1..8 }
          \cup { U(kind, "K", base[1] \o suffix, 1, 3, base[2], IF kind = "bandwidth" THEN "doc" ELSE "ext", "XML_reference:K") }  \* "1 KBps = 1,000 Bps"
        : base \in { <<"B", 0>>, <<"b", -3>> } }

SpeedUnits ==
  { U("speed", "", "f", 1, 0, 0, "doc", "dtd"), U("speed", "", "flops", 1, 0, 0, "doc", "dtd") }
  \cup { U("speed", DecAbbr[i], "f", 1, 3 * i, 0, "doc", "dtd") : i \in 1..8 }
  \cup { U("speed", DecLong[i], "flops", 1, 3 * i, 0, "doc", IF i = 7 THEN "dtd:zetta" ELSE "dtd") : i \in 1..8 }

Units == TimeUnits \cup ByteBitUnits("bandwidth", "ps") \cup ByteBitUnits("size", "") \cup SpeedUnits

\* the unit assumed for a value without unit ("they are still accepted", simgrid.dtd; "0 can remain unit-less")
DefaultUnit(kind) == CHOOSE u \in Units : u.kind = kind /\ u.prefix = "" /\
                        u.unit = (CASE kind = "time" -> "s" [] kind = "bandwidth" -> "Bps" [] kind = "size" -> "B" [] kind = "speed" -> "f")

\* ------------------------------------------------------------------ number formats
\* a number is ip "." fp (fd fractional digits) "e" ex, written in one of the styles below; its value is
\* (ip * 10^fd + fp) * 10^(ex - fd)
N(style, ip, fp, fd, ex) == [style |-> style, ip |-> ip, fp |-> fp, fd |-> fd, ex |-> ex]
Ints  == {0, 1, 7, 12, 250}
Fracs == { <<5, 1>>, <<25, 2>>, <<125, 3>>, <<1, 3>> }           \* .5 .25 .125 .001
Exps  == {-12, -3, 0, 2, 9, 15}
BuiltinNumbers ==
       { N("int", i, 0, 0, 0) : i \in Ints }                                        \* 12
  \cup { N("dec", i, f[1], f[2], 0) : i \in Ints, f \in Fracs }                      \* 12.25
  \cup { N("dec_noint", 0, f[1], f[2], 0) : f \in Fracs }                            \* .25
  \cup { N("dec_nofrac", i, 0, 0, 0) : i \in {1, 12} }                               \* 12.
  \cup { N(s, i, 0, 0, e) : s \in {"exp", "exp_E", "exp_plus"}, i \in {1, 12}, e \in Exps }          \* 12e9 12E9 12e+9
  \cup { N("exp_dec", i, f[1], f[2], e) : i \in {1, 250}, f \in { <<5, 1>>, <<125, 3>> }, e \in Exps } \* 2.5e-3
ExtraNumbers == LET j == JsonDeserialize(IOEnv.UNITS_NUMS) IN     \* seeded random numbers from the harness (may be empty)
                { N(j[i].style, j[i].ip, j[i].fp, j[i].fd, j[i].ex) : i \in 1..Len(j) }
Numbers == BuiltinNumbers \cup ExtraNumbers

Pow10(n) == IF n = 0 THEN 1 ELSE IF n = 1 THEN 10 ELSE IF n = 2 THEN 100 ELSE IF n = 3 THEN 1000 ELSE 10000
Mantissa(n) == n.ip * Pow10(n.fd) + n.fp
\* exact value of number n written with unit u
Expected(n, u) == << Mantissa(n) * u.m, n.ex - n.fd + u.a, u.b >>

Case(n, u) == [kind |-> u.kind, cls |-> u.cls, src |-> u.src, style |-> n.style, ip |-> n.ip, fp |-> n.fp, fd |-> n.fd, ex |-> n.ex,
               prefix |-> u.prefix, unit |-> u.unit, exp |-> Expected(n, u)]
\* unit-less values: any number for the kinds whose documentation accepts them; 0 for every kind
UnitlessCase(n, kind) ==
  [kind |-> kind, cls |-> "unitless", src |-> "dtd", style |-> n.style, ip |-> n.ip, fp |-> n.fp, fd |-> n.fd, ex |-> n.ex,
   prefix |-> "", unit |-> "", exp |-> Expected(n, DefaultUnit(kind))]
Kinds == {"time", "size", "bandwidth", "speed"}

\* ------------------------------------------------------------------ malformed literals (must be rejected)
\* pieces to concatenate: s1 \o s2 \o s3
M(kind, cls, s1, s2, s3) == [kind |-> kind, cls |-> cls, s1 |-> s1, s2 |-> s2, s3 |-> s3]
GoodUnit(kind) == CASE kind = "time" -> "ms" [] kind = "bandwidth" -> "MBps" [] kind = "size" -> "GiB" [] kind = "speed" -> "Gf"
ForeignUnits(kind) ==      \* units of the other kinds and nonsense
  CASE kind = "time"      -> {"Bps", "f", "B", "sec", "min", "ks", "Ms", "parsec"}
    [] kind = "bandwidth" -> {"s", "f", "B", "b", "Bpm", "bpS", "mBps", "kiBps", "MiBPS", "Hz"}
    [] kind = "size"      -> {"s", "f", "Bps", "o", "mB", "kiB", "Bytes", "bytes"}
    [] kind = "speed"     -> {"s", "B", "Bps", "Hz", "flop", "Flops", "mf", "Kif", "gigaflop", "kiloFlops"}
WrongCase(kind) ==
  CASE kind = "time"      -> {"S", "MS", "Us", "NS", "H", "D", "W"}
    [] kind = "bandwidth" -> {"BPS", "GBPS", "mbps", "gbps", "KIBps", "kibps"}
    [] kind = "size"      -> {"GIB", "gib", "gB", "kIB"}
    [] kind = "speed"     -> {"F", "GF", "gf", "FLOPS", "GigaFlops", "MEGAflops"}
Malformed ==
  UNION { { M(k, "unknown_unit", "12", u, "") : u \in ForeignUnits(k) }
          \cup { M(k, "unknown_unit", "1.5e3", u, "") : u \in ForeignUnits(k) }
          \cup { M(k, "wrong_case", "12", u, "") : u \in WrongCase(k) }
          \cup { M(k, "empty_number", "", GoodUnit(k), ""), M(k, "empty_number", "", "", ""), M(k, "empty_number", ".", GoodUnit(k), ""),
                 M(k, "empty_number", "e5", GoodUnit(k), ""), M(k, "empty_number", "-", GoodUnit(k), "") }
          \cup { M(k, "trailing_garbage", "12", GoodUnit(k), g) : g \in {"x", "s", " ", "2", ";", ",5"} }
          \cup { M(k, "bad_number", n, GoodUnit(k), "") : n \in {"1.2.3", "1,5", "1e", "1e+", "12_000", "1..5", "one", "1e5e5"} }
        : k \in Kinds }

\* ------------------------------------------------------------------ printing (the module has no behaviour of interest)
PrintAll ==
  /\ \A u \in Units : \A n \in Numbers : PrintT(<<"CASE", ToJson(Case(n, u))>>)
  /\ \A k \in Kinds : \A n \in { x \in Numbers : x.ip = 0 /\ x.fp = 0 } : PrintT(<<"CASE", ToJson(UnitlessCase(n, k))>>)
  /\ \A k \in {"time", "bandwidth", "speed"} : \A n \in { x \in BuiltinNumbers : x.style \in {"int", "dec", "exp"} } :
        PrintT(<<"CASE", ToJson(UnitlessCase(n, k))>>)
  /\ \A m \in Malformed : PrintT(<<"BAD", ToJson(m)>>)
  /\ PrintT(<<"COUNT", Cardinality(Units), Cardinality(Numbers), Cardinality(Malformed)>>)

\* sanity of the table: one multiplier per literal of a kind, except where two documents disagree on nothing
TableSound ==
  /\ \A u, v \in Units : (u.kind = v.kind /\ u.prefix = v.prefix /\ u.unit = v.unit) => (u.m = v.m /\ u.a = v.a /\ u.b = v.b)
  /\ \A u \in Units : u.m > 0
  /\ \A n \in Numbers : n.fd \in 0..4 /\ n.fp < Pow10(n.fd) /\ n.ip >= 0 /\ n.fp >= 0
  /\ \A n \in Numbers : \A u \in Units : Mantissa(n) * u.m < 2000000000

VARIABLE x
Init == x = 0 /\ TableSound /\ PrintAll
Next == UNCHANGED x
Spec == Init /\ [][Next]_x
=============================================================================
