-------------------------------- MODULE Lmm --------------------------------
(* Abstract linear max-min (LMM) sharing system of SimGrid (src/kernel/lmm/System.{hpp,cpp}, maxmin.cpp, bmf.cpp,  *)
(* fair_bottleneck.cpp), written with a functional core: the whole abstract system is one record s; every          *)
(* operation of the public API of lmm::System is an operator from a system to the *set* of systems it may yield     *)
(* (the only nondeterminism: which staged variable takes a freed concurrency slot).                                  *)
(*                                                                                                                    *)
(*  constraints c \in 1..Len(s.cb) : cb (bound), cpol (1 = SHARED, 0 = FATPIPE), clim (concurrency limit, -1 = none)  *)
(*  variables   v \in 1..Len(s.alive), numbered in creation order, never reused:                                     *)
(*              alive, pen (sharing_penalty_, 0 = disabled / suspended / staged), stg (staged_sharing_penalty_),     *)
(*              vb (bound, <= 0 = none), cap (maximal number of elements), el (sequence of elements [c, w, m]: w the  *)
(*              consumption weight, m the largest single weight ever expanded = max_consumption_weight),             *)
(*              young (created since the last solve)                                                                 *)
(*  weights are counted in halves: an element [c, w] has consumption_weight w/2 (so 1 = 0.5, 2 = 1.0, ...), which     *)
(*  exercises Element::get_concurrency (1 iff consumption_weight >= 1) with integers only.                           *)
(*  val : the value of every variable after the last Solve, as the *reference* defines it: MaxMin(s), weighted       *)
(*        progressive filling over exact rationals with variable bounds and the FATPIPE max-usage rule, structured   *)
(*        as MaxMin::maxmin_solve.                                                                                   *)
(*  Bookkeeping mirrors of the code (guidance and cause attribution only; never an oracle):                          *)
(*    mod     : modified_constraint_set_ as System.cpp maintains it (update_modified_cnst_set[_rec|_from_variable],  *)
(*              visit stamps abstracted away: see Visited.tla)                                                       *)
(*    touched : the constraints whose allocation may have changed since the last solve (what *must* be re-solved)    *)
(*    act     : active_constraint_set (what a non-selective solve looks at)                                          *)
(*    dirty   : modified_                                                                                            *)
(*    ffc     : dirty solves left before visited_counter_ is 0 (-1: not tracked), set by FastForward                 *)
(*    flags   : sticky cause tags: situations in which the implementation at the pinned commit is known to deviate   *)
(*              (used to attribute a rejection to a recorded finding; see KNOWN_FINDINGS.jsonl)                      *)
EXTENDS Rat, Sequences, FiniteSets, TLC

S0 == [ cb |-> <<>>, cpol |-> <<>>, clim |-> <<>>,
        alive |-> <<>>, pen |-> <<>>, stg |-> <<>>, vb |-> <<>>, cap |-> <<>>, el |-> <<>>, young |-> <<>>,
        val |-> <<>>, mod |-> {}, touched |-> {}, act |-> {}, dirty |-> FALSE, ffc |-> -1, flags |-> {} ]

\* ------------------------------------------------------------------ accessors
Cons(s)    == 1..Len(s.cb)
Ids(s)     == 1..Len(s.alive)
Vars(s)    == { v \in Ids(s) : s.alive[v] }
Enabled(s) == { v \in Vars(s) : s.pen[v] > 0 }
Staged(s)  == { v \in Vars(s) : s.stg[v] > 0 }
ElIdx(s, v, c) == { i \in 1..Len(s.el[v]) : s.el[v][i].c = c }
OnC(s, v, c)   == ElIdx(s, v, c) # {}
W(s, v, c)     == LET I == ElIdx(s, v, c) IN IF I = {} THEN 0 ELSE s.el[v][CHOOSE i \in I : TRUE].w
MW(s, v, c)    == LET I == ElIdx(s, v, c) IN IF I = {} THEN 0 ELSE s.el[v][CHOOSE i \in I : TRUE].m
VCons(s, v)    == { s.el[v][i].c : i \in 1..Len(s.el[v]) }
Consuming(s)   == { v \in Enabled(s) : \E c \in VCons(s, v) : W(s, v, c) > 0 }
IMin(S) == CHOOSE x \in S : \A y \in S : x <= y
IMax(S) == CHOOSE x \in S : \A y \in S : x >= y

\* ------------------------------------------------------------------ concurrency (C18)
Inf == 1000000
Conc(s, c)     == Cardinality({ v \in Enabled(s) : W(s, v, c) >= 2 })     \* Element::get_concurrency: weight >= 1
Slack(s, c)    == IF s.clim[c] < 0 THEN Inf ELSE s.clim[c] - Conc(s, c)
MinSlack(s, v) == IF VCons(s, v) = {} THEN Inf ELSE IMin({ Slack(s, c) : c \in VCons(s, v) })
CanEnable(s, v) == s.alive[v] /\ s.stg[v] > 0 /\ MinSlack(s, v) > 0

ConcurrencyOk(s) == \A c \in Cons(s) : s.clim[c] >= 0 => Conc(s, c) <= s.clim[c]
\* a staged variable is disabled and uses at least one constraint without a free slot
NoStarvation(s)  == \A v \in Vars(s) : s.stg[v] > 0 => (s.pen[v] = 0 /\ MinSlack(s, v) <= 0)

\* ------------------------------------------------------------------ mirror of the selective-update bookkeeping
RECURSIVE Reach(_, _, _)
Reach(s, front, acc) ==      \* update_modified_cnst_set_rec: does not go through constraints already in the set
  IF front = {} THEN acc
  ELSE LET new == { c2 \in Cons(s) : c2 \notin acc /\
                        \E c \in front : \E v \in Enabled(s) : OnC(s, v, c) /\ OnC(s, v, c2) } IN
       Reach(s, new, acc \cup new)
UMS(s, c)    == IF c \in s.mod THEN s ELSE [s EXCEPT !.mod = Reach(s, {c}, s.mod \cup {c})]
UMSVar(s, v) == IF Len(s.el[v]) = 0 \/ s.pen[v] <= 0 THEN s ELSE UMS(s, s.el[v][1].c)   \* ..._from_variable: cnsts_[0] only
RECURSIVE UMSAll(_, _)
UMSAll(s, C) == IF C = {} THEN s ELSE LET c == CHOOSE x \in C : TRUE IN UMSAll(UMS(s, c), C \ {c})

Touch(s, C)    == [s EXCEPT !.touched = @ \cup C]
TouchVar(s, v) == Touch(s, { c \in VCons(s, v) : W(s, v, c) > 0 })

\* what a selective solve needs: every touched constraint that still has an enabled element is in the set, and the set
\* is closed under "an enabled variable uses both" (maxmin_solve resets every enabled variable of a listed constraint)
ModifiedSetComplete(s) ==
  /\ \A c \in s.touched : (\E v \in Enabled(s) : OnC(s, v, c)) => c \in s.mod
  /\ \A c \in s.mod : \A v \in Enabled(s) : OnC(s, v, c) => VCons(s, v) \subseteq s.mod

\* ------------------------------------------------------------------ the reference allocation: MaxMin(s)
UsageOf(s, v, c) == Frac(W(s, v, c), 2 * s.pen[v])                 \* consumption_weight / sharing_penalty
RMax(S) == CHOOSE x \in S : \A y \in S : ~Less(x, y)
CUsage(s, c, U) ==
  LET A == { v \in U : W(s, v, c) > 0 } IN
  IF A = {} THEN R0
  ELSE IF s.cpol[c] = 1 THEN SumF([v \in A |-> UsageOf(s, v, c)], A)
  ELSE RMax({ UsageOf(s, v, c) : v \in A })

AllNaN(s) == [v \in Ids(s) |-> NaN]

RECURSIVE MMRec(_, _, _, _)
MMRec(s, rem, fixed, val) ==
  LET U    == Consuming(s) \ fixed
      live == { c \in Cons(s) : s.cb[c] > 0 /\ IsPos(rem[c]) /\ \E v \in U : W(s, v, c) > 0 } IN
  IF \E c \in Cons(s) : IsNaN(rem[c]) THEN AllNaN(s)
  ELSE IF live = {} THEN val
  ELSE LET ratio == [c \in live |-> Div(rem[c], CUsage(s, c, U))] IN
       IF \E c \in live : IsNaN(ratio[c]) THEN AllNaN(s)
       ELSE LET rho  == RMin({ ratio[c] : c \in live })
                sat  == { c \in live : ratio[c] = rho }                                  \* saturated_constraints
                cand == { v \in U : \E c \in sat : W(s, v, c) > 0 }                        \* saturated_variable_set
                bnd  == { v \in cand : s.vb[v] > 0 /\ Less(R(s.vb[v] * s.pen[v]), rho) }  \* reach their bound first
                beta == IMin({ s.vb[v] * s.pen[v] : v \in bnd })
                fix  == IF bnd = {} THEN cand ELSE { v \in cand : s.vb[v] > 0 /\ s.vb[v] * s.pen[v] = beta }
                nv   == [v \in fix |-> IF bnd = {} THEN Div(rho, R(s.pen[v])) ELSE R(s.vb[v])]
                val2 == [v \in Ids(s) |-> IF v \in fix THEN nv[v] ELSE val[v]]
                rem2 == [c \in Cons(s) |->
                           IF s.cpol[c] = 1
                           THEN Sub(rem[c], SumF([v \in fix |-> Mul(Frac(W(s, v, c), 2), nv[v])], fix))
                           ELSE rem[c]] IN                          \* a FATPIPE constraint is never consumed
            IF \E v \in fix : IsNaN(nv[v]) THEN AllNaN(s) ELSE MMRec(s, rem2, fixed \cup fix, val2)

\* variables that consume a constraint of capacity 0 get 0; variables that consume nothing keep 0 (left open by C15)
MaxMin(s) ==
  LET Z == { v \in Consuming(s) : \E c \in VCons(s, v) : W(s, v, c) > 0 /\ s.cb[c] <= 0 } IN
  MMRec(s, [c \in Cons(s) |-> R(s.cb[c])], Z, [v \in Ids(s) |-> R0])

AnyNaN(val) == \E v \in DOMAIN val : IsNaN(val[v])

\* the allocation is unique (and MaxMin(s) is it) when only SHARED constraints are consumed
SharedOnly(s) == \A c \in Cons(s) : (\E v \in Enabled(s) : W(s, v, c) > 0) => s.cpol[c] = 1

\* ------------------------------------------------------------------ C15 / C16 over exact rationals (for the reference itself)
LoadR(s, val, c) == SumF([v \in Enabled(s) |-> Mul(Frac(W(s, v, c), 2), val[v])], Enabled(s))
FeasibleR(s, val) ==
  /\ \A v \in Vars(s) : s.pen[v] = 0 => val[v] = R0
  /\ \A v \in Consuming(s) : Leq(R0, val[v]) /\ (s.vb[v] > 0 => Leq(val[v], R(s.vb[v])))
  /\ \A c \in Cons(s) :
       IF s.cpol[c] = 1 THEN Leq(LoadR(s, val, c), R(s.cb[c]))
       ELSE \A v \in Enabled(s) : Leq(Mul(Frac(W(s, v, c), 2), val[v]), R(s.cb[c]))
SatR(s, val, c) ==
  IF s.cpol[c] = 1 THEN LoadR(s, val, c) = R(IF s.cb[c] > 0 THEN s.cb[c] ELSE 0)
  ELSE s.cb[c] <= 0 \/ \E v \in Enabled(s) : Mul(Frac(W(s, v, c), 2), val[v]) = R(s.cb[c])
MaxMinFairR(s, val) ==
  \A v \in Consuming(s) :
     \/ s.vb[v] > 0 /\ val[v] = R(s.vb[v])
     \/ \E c \in VCons(s, v) :
          /\ W(s, v, c) > 0 /\ SatR(s, val, c)
          /\ \A u \in Enabled(s) : W(s, u, c) > 0 => Leq(Mul(val[u], R(s.pen[u])), Mul(val[v], R(s.pen[v])))

\* ------------------------------------------------------------------ C15 / C16 / C17 over implementation values
\* val: integers = value * 10^SK rounded (|val| clamped by the driver); EpsS = tolerance in units per 1.0 of magnitude,
\* derived from precision/work-amount (sg_precision_workamount): EpsS = 10^SK * precision
HalfSum(s, c)  == LET A == { v \in Enabled(s) : W(s, v, c) > 0 } IN              \* rounding slack: >= sum(w) / 2
                  IF A = {} THEN 0 ELSE Cardinality(A) * IMax({ W(s, v, c) : v \in A })
LoadI(s, val, c) ==
  LET RECURSIVE Acc(_)
      Acc(S) == IF S = {} THEN 0 ELSE LET v == CHOOSE x \in S : TRUE IN W(s, v, c) * val[v] + Acc(S \ {v}) IN
  Acc({ v \in Enabled(s) : W(s, v, c) > 0 })                                 \* in half-units: 2 * sum(weight * value)
CapI(s, c, scale) == 2 * (IF s.cb[c] > 0 THEN s.cb[c] ELSE 0) * scale
FeasibleI(s, val, scale, eps) ==
  /\ \A v \in Vars(s) : s.pen[v] = 0 => (val[v] >= -1 /\ val[v] <= 1)
  /\ \A v \in Consuming(s) : val[v] >= -1 /\ (s.vb[v] > 0 => val[v] <= s.vb[v] * scale + s.vb[v] * eps + 1)
  /\ \A c \in Cons(s) :
       IF s.cpol[c] = 1 THEN LoadI(s, val, c) <= CapI(s, c, scale) + 2 * s.cb[c] * eps + HalfSum(s, c) + 2
       ELSE \A v \in Enabled(s) : W(s, v, c) > 0 =>
              W(s, v, c) * val[v] <= CapI(s, c, scale) + 2 * s.cb[c] * eps + W(s, v, c) + 2
SatI(s, val, c, scale, eps) ==
  IF s.cpol[c] = 1 THEN LoadI(s, val, c) >= CapI(s, c, scale) - 2 * s.cb[c] * eps - HalfSum(s, c) - 2
  ELSE s.cb[c] <= 0 \/ \E v \in Enabled(s) : W(s, v, c) > 0 /\
          W(s, v, c) * val[v] >= CapI(s, c, scale) - 2 * s.cb[c] * eps - W(s, v, c) - 2
AtBoundI(s, val, v, scale, eps) == s.vb[v] > 0 /\ val[v] >= s.vb[v] * scale - s.vb[v] * eps - 1
\* tolerance on a product p * value: rounding (p) + eps * magnitude
TolI(x, p, scale, eps) == p + 1 + eps * ((IF x < 0 THEN -x ELSE x) \div scale + 1)
MaxMinFairI(s, val, scale, eps) ==
  \A v \in Consuming(s) :
     \/ AtBoundI(s, val, v, scale, eps)
     \/ \E c \in VCons(s, v) :
          /\ W(s, v, c) > 0 /\ SatI(s, val, c, scale, eps)
          /\ \A u \in Enabled(s) : W(s, u, c) > 0 =>
                s.pen[u] * val[u] <= s.pen[v] * val[v] + TolI(s.pen[v] * val[v], s.pen[u] + s.pen[v], scale, eps)
\* BMF: the share of u on c is (largest single weight) * penalty * value (BmfSolver::is_bmf: maxA_ji * rho_i, "due to
\* subflows, compare with the maximum consumption")
BmfFairI(s, val, scale, eps) ==
  \A v \in Consuming(s) :
     \/ AtBoundI(s, val, v, scale, eps)
     \/ \E c \in VCons(s, v) :
          /\ W(s, v, c) > 0 /\ SatI(s, val, c, scale, eps)
          /\ \A u \in Enabled(s) : W(s, u, c) > 0 =>
                MW(s, u, c) * s.pen[u] * val[u] <= MW(s, v, c) * s.pen[v] * val[v]
                   + TolI(MW(s, v, c) * s.pen[v] * val[v], MW(s, u, c) * s.pen[u] + MW(s, v, c) * s.pen[v], scale, eps)
CloseI(a, b, scale, eps) == LET d == IF a < b THEN b - a ELSE a - b IN d <= 2 + eps * ((IF b < 0 THEN -b ELSE b) \div scale + 1)
\* equality with an exact allocation given as rationals (exp[v] = <<n, d>>); NaN entries are skipped
EqualsExactI(s, val, exp, sk, scale, eps) ==
  \A v \in Consuming(s) : ~IsNaN(exp[v]) =>
       LET e == ScaleFloor(exp[v], sk) IN e < 0 \/ CloseI(val[v], e, scale, eps)
\* C17: two allocations of the same system agree on every enabled variable that consumes something
SameI(s, a, b, scale, eps) == \A v \in Consuming(s) : CloseI(a[v], b[v], scale, eps)
\* the allocation of the selective system is the one of the non-selective system and of a fresh system holding the same
\* activities (LmmTrace reports the two halves separately: SelFull, SelFresh)
SelectiveEqualsFull(s, sel, full, fresh, scale, eps) == SameI(s, sel, full, scale, eps) /\ SameI(s, sel, fresh, scale, eps)

\* ------------------------------------------------------------------ the API of lmm::System (sets of successors)
EnableVar(s, v)  == LET t == [s EXCEPT !.pen[v] = s.stg[v], !.stg[v] = 0] IN TouchVar(UMSVar(t, v), v)
DisableVar(s, v) == LET t == TouchVar(UMSVar(s, v), v) IN [t EXCEPT !.pen[v] = 0, !.stg[v] = 0, !.val[v] = R0]

\* freed slots are taken by staged variables that fit, in any order, until none fits (on_disabled_var).
\* SettleL is the same with a licence that only the attribution of a rejection to a recorded finding uses (Pinned below;
\* L = TC = {} everywhere else): the variables of L, which already starved before the operation, may be left waiting as
\* long as they use none of the constraints TC that the operation scans.
RECURSIVE SettleL(_, _, _)
SettleL(s, L, TC) ==
  LET E == { v \in Vars(s) : CanEnable(s, v) } IN
  (IF \A v \in E : v \in L /\ VCons(s, v) \cap TC = {} THEN {s} ELSE {})
  \cup UNION { SettleL(EnableVar(s, v), L, TC) : v \in E }
SettleSet(s) == SettleL(s, {}, {})
\* the constraints on which on_disabled_var looks for staged variables when v leaves (it returns at once without limit)
Scanned(s, v) == { c \in VCons(s, v) : s.clim[c] >= 0 }

ConstraintNew(s, b, p, l) ==
  { [s EXCEPT !.cb = Append(@, b), !.cpol = Append(@, p), !.clim = Append(@, l)] }

VariableNew(s, p, b, n) ==
  { [s EXCEPT !.alive = Append(@, TRUE), !.pen = Append(@, p), !.stg = Append(@, 0), !.vb = Append(@, b),
              !.cap = Append(@, n), !.el = Append(@, <<>>), !.young = Append(@, TRUE), !.val = Append(@, R0)] }

ExpandEnabled(s, c, v) == s.alive[v] /\ c \in Cons(s) /\ (OnC(s, v, c) \/ Len(s.el[v]) < s.cap[v])
ExpandL(s, c, v, w, L) ==
  LET I  == ElIdx(s, v, c)
      s1 == IF I = {}                                 \* expand_create_elem (activates the constraint under a condition)
            THEN [s EXCEPT !.el[v] = Append(@, [c |-> c, w |-> w, m |-> w]), !.dirty = TRUE,
                           !.act = IF w > 0 \/ s.pen[v] > 0 THEN @ \cup {c} ELSE @]
            ELSE LET i == CHOOSE x \in I : TRUE IN       \* expand_add_to_elem: sum, or max on a FATPIPE constraint
                 [s EXCEPT !.el[v][i].w = IF s.cpol[c] = 1 THEN @ + w ELSE IF @ > w THEN @ ELSE w,
                           !.el[v][i].m = IF @ > w THEN @ ELSE w, !.dirty = TRUE]
      Fin(t) == IF W(t, v, c) > 0 \/ t.pen[v] > 0
                THEN (IF t.pen[v] > 0 /\ W(t, v, c) > 0 THEN Touch(UMS(t, c), {c}) ELSE UMS(t, c)) ELSE t IN
  IF s.pen[v] > 0 /\ Slack(s1, c) < 0
  THEN { Fin([t EXCEPT !.stg[v] = s.pen[v]]) : t \in SettleL(DisableVar(s1, v), L, Scanned(s1, v)) }  \* no room: staged
  ELSE { Fin(s1) }
Expand(s, c, v, w) == ExpandL(s, c, v, w, {})

VariableFreeL(s, v, L) ==
  LET s1   == TouchVar(UMSVar(s, v), v)
      gone == { c \in VCons(s, v) : \A u \in Vars(s) \ {v} : ~OnC(s, u, c) }     \* make_constraint_inactive
      s2   == [s1 EXCEPT !.alive[v] = FALSE, !.el[v] = <<>>, !.pen[v] = 0, !.stg[v] = 0, !.val[v] = R0,
                         !.mod = @ \ gone, !.act = @ \ gone, !.dirty = TRUE] IN
  SettleL(s2, L, Scanned(s, v))
VariableFree(s, v) == VariableFreeL(s, v, {})

UpdateVariableBound(s, v, b) ==
  LET t == UMSAll([s EXCEPT !.vb[v] = b, !.dirty = TRUE], VCons(s, v)) IN
  { IF s.pen[v] > 0 THEN TouchVar(t, v) ELSE t }

\* penalty 0 = suspend (also withdraws a staged request); > 0 on a disabled variable = resume: enabled if every
\* constraint of the variable has a free slot, staged otherwise
UpdateVariablePenalty(s, v, p) ==
  IF p = s.pen[v] /\ ~(p = 0 /\ s.stg[v] > 0) THEN {s}
  ELSE IF p = 0 /\ s.pen[v] = 0 THEN { [s EXCEPT !.stg[v] = 0] }
  ELSE IF p > 0 /\ s.pen[v] = 0 THEN
         LET t == [s EXCEPT !.stg[v] = p, !.dirty = TRUE] IN
         IF MinSlack(t, v) > 0 THEN { EnableVar(t, v) } ELSE {t}
  ELSE IF p = 0 THEN SettleSet(DisableVar([s EXCEPT !.dirty = TRUE], v))
  ELSE { TouchVar(UMSVar([s EXCEPT !.pen[v] = p, !.dirty = TRUE], v), v) }

UpdateConstraintBound(s, c, b) == { Touch([UMS(s, c) EXCEPT !.cb[c] = b, !.dirty = TRUE], {c}) }

\* cause tags raised by the state in which a solve happens: sticky ones (their effect, stale values, outlives the solve)
SolveFlags(s) ==
  (IF \E c \in Cons(s) : s.cb[c] <= 0 /\ \E v \in Enabled(s) : W(s, v, c) > 0 THEN {"zerocap"} ELSE {})
  \cup (IF s.dirty /\ ~ModifiedSetComplete(s) THEN {"modset"} ELSE {})
  \cup (IF s.dirty /\ s.ffc = 0 THEN {"wrap"} ELSE {})
\* ... and the ones that only concern this solve
NowFlags(s) ==
  (IF \E c \in Cons(s) : s.cpol[c] = 0 /\ \E v \in Enabled(s) : OnC(s, v, c) THEN {"fatpipe"} ELSE {})
  \cup (IF \E c \in Cons(s) : c \notin s.act /\ \E v \in Enabled(s) : W(s, v, c) > 0 THEN {"inactive"} ELSE {})
  \* BMF: a sharing penalty other than 1 together with a per-variable limit (a bound, or a consumed FATPIPE constraint)
  \cup (IF /\ \E u \in Consuming(s) : s.pen[u] # 1
           /\ \/ \E v \in Consuming(s) : s.vb[v] > 0
              \/ \E c \in Cons(s) : s.cpol[c] = 0 /\ \E v \in Enabled(s) : W(s, v, c) > 0
        THEN {"penbound"} ELSE {})

Solve(s) ==
  { [s EXCEPT !.val = MaxMin(s), !.flags = @ \cup SolveFlags(s),
              !.mod = IF s.dirty THEN {} ELSE @, !.touched = IF s.dirty THEN {} ELSE @,
              !.young = [v \in Ids(s) |-> FALSE], !.dirty = FALSE,
              !.ffc = IF s.dirty /\ s.ffc >= 0 THEN (IF s.ffc = 0 THEN -2 ELSE s.ffc - 1) ELSE s.ffc] }

\* as if (UINT_MAX - k - visited_counter_) solves of modifications unrelated to every variable had happened: nothing
\* changes in the abstract system (only allowed right after a solve)
FastForwardEnabled(s) == ~s.dirty /\ s.ffc = -1
FastForward(s, k) == { [s EXCEPT !.ffc = k + 1] }

\* cause tags raised by an operation (evaluated in the state before it)
OpFlags(s, o) ==
  IF o.op = "vpen" /\ o.b = 0 /\ s.stg[o.a] > 0 THEN {"suspstaged"}
  ELSE IF o.op = "vpen" /\ o.b = 0 /\ s.pen[o.a] > 0 /\
          (\E t \in SettleSet(DisableVar(s, o.a)) : t.pen # DisableVar(s, o.a).pen) THEN {"suspnorelease"}
  ELSE {}

\* an operation as data: [op, a, b, c]
OpEnabled(s, o) ==
  CASE o.op = "cnew"   -> TRUE
    [] o.op = "vnew"   -> TRUE
    [] o.op = "expand" -> o.a \in Cons(s) /\ o.b \in Ids(s) /\ ExpandEnabled(s, o.a, o.b)
    [] o.op = "free"   -> o.a \in Vars(s)
    [] o.op = "vbound" -> o.a \in Vars(s)
    [] o.op = "vpen"   -> o.a \in Vars(s)
    [] o.op = "cbound" -> o.a \in Cons(s)
    [] o.op = "solve"  -> TRUE
    [] o.op = "ff"     -> FastForwardEnabled(s)
    [] OTHER -> FALSE
Post(s, o) ==
  LET P == CASE o.op = "cnew"   -> ConstraintNew(s, o.a, o.b, o.c)
             [] o.op = "vnew"   -> VariableNew(s, o.a, o.b, o.c)
             [] o.op = "expand" -> Expand(s, o.a, o.b, o.c)
             [] o.op = "free"   -> VariableFree(s, o.a)
             [] o.op = "vbound" -> UpdateVariableBound(s, o.a, o.b)
             [] o.op = "vpen"   -> UpdateVariablePenalty(s, o.a, o.b)
             [] o.op = "cbound" -> UpdateConstraintBound(s, o.a, o.b)
             [] o.op = "solve"  -> Solve(s)
             [] o.op = "ff"     -> FastForward(s, o.a)
             [] OTHER -> {s} IN
  { [t EXCEPT !.flags = @ \cup OpFlags(s, o)] : t \in P }

\* ------------------------------------------------------------------ attribution of C18 rejections (never an oracle)
\* What the pinned commit does where it is known to deviate from Post on the concurrency state (KNOWN_FINDINGS.jsonl):
\*   suspstaged     update_variable_penalty(v, 0) on a staged variable returns at once: the request survives
\*   suspnorelease  update_variable_penalty(v, 0) on an enabled variable does not call on_disabled_var: the slot is not
\*                  handed over, staged variables starve; L = the variables that starve since such a step.  A later
\*                  free / staging expand only scans the constraints of the variable that leaves (Scanned): the
\*                  variables of L elsewhere keep waiting although Post (a global SettleSet) would enable them.
\* A rejected transition is attributed to the finding `tag` when the observed state is in P; anything else, such as a
\* variable that is *not* in L and is left staged with room, or a variable of L skipped on a scanned constraint, is
\* not explained by these mechanisms.
Starving(s) == { v \in Vars(s) : CanEnable(s, v) }
Pinned(s, o, L) ==
  LET Out(tag, P) == [tag |-> tag, P |-> { [t EXCEPT !.flags = @ \cup OpFlags(s, o)] : t \in P }] IN
  IF o.op = "vpen" /\ o.b = 0 /\ s.stg[o.a] > 0 THEN Out("suspstaged", {s})
  ELSE IF o.op = "vpen" /\ o.b = 0 /\ s.pen[o.a] > 0 THEN Out("suspnorelease", { DisableVar([s EXCEPT !.dirty = TRUE], o.a) })
  ELSE IF L # {} /\ o.op = "free" THEN Out("suspnorelease", VariableFreeL(s, o.a, L))
  ELSE IF L # {} /\ o.op = "expand" THEN Out("suspnorelease", ExpandL(s, o.a, o.b, o.c, L))
  ELSE Out("none", {})

\* ------------------------------------------------------------------ invariants of the reference itself (M)
RefInv(s) ==
  /\ ConcurrencyOk(s) /\ NoStarvation(s)
  /\ (~s.dirty => (AnyNaN(s.val) \/ (FeasibleR(s, s.val) /\ MaxMinFairR(s, s.val))))
=============================================================================
