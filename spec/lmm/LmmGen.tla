------------------------------- MODULE LmmGen -------------------------------
(* Histories of lmm::System operations generated from Lmm.tla (G), and exhaustive exploration of Lmm.tla itself (M). *)
(* LMM_PARAMS (environment) names a JSON file:                                                                      *)
(*   maxc, maxv       bounds on the numbers of constraints / variables ever created                                  *)
(*   minc             constraints created before anything else                                                      *)
(*   len              number of operations generated after the base history (the last one is always a solve)         *)
(*   cbounds, vbounds, pens, ws (weights in halves), lims, caps, pols (1 SHARED / 0 FATPIPE)                         *)
(*                    parameter alphabets (sequences of integers; -simulate draws from them with repetitions)        *)
(*   late             1: expand may also be applied to a variable that already went through a solve                  *)
(*   fam              0 = general mix (SpecSim under -simulate); 1 = waiting queues (SpecQ under -simulate, C18);        *)
(*                    2 = the exhaustive scope of waiting queues (C18, LmmGen_wake.cfg: abstract states merged by        *)
(*                    ViewQ, no solve before the end, elements are given to the newest variable only as the resource    *)
(*                    models do (or to an enabled variable that runs into a full constraint and is staged), variables  *)
(*                    are created before the first resume / free (the order of the waiting lists                      *)
(*                    of the code is the order of creation either way), only enabled variables are freed, no suspension *)
(*                    when susp = 0): the history of every transition that wakes >= 2 staged variables waiting on one   *)
(*                    constraint is printed, followed by a solve                                                         *)
(*   susp             0: no vpen(v, 0) is generated (the two recorded deviations of update_variable_penalty)              *)
(*   bounded          fam = 2: 1 when len cuts the exploration (the remaining length is then part of ViewQ)               *)
(*   maxw             largest cumulated weight of an element (in halves)                                                  *)
(*   ff               sequence of k for FastForward (empty: never)                                                   *)
(*   bases            sequence of base histories (sequences of [op, a, b, c]); the exploration starts after one of   *)
(*                    them (an empty base = the empty system)                                                        *)
(* Configurations: LmmGen_hist.cfg (prints every complete history: BFS = all of them), LmmGen_sim.cfg / LmmGen_simq.cfg *)
(* (-simulate: random ones, general mix / waiting queues), LmmGen_wake.cfg (fam = 2),                                  *)
(* LmmMC_ref.cfg (state graph of the abstract system, histories merged by VIEW, invariant RefInv),                   *)
(* LmmMC_mirror.cfg (same, invariant MirrorComplete on the mirror of the selective-update bookkeeping).              *)
EXTENDS Lmm, Json, IOUtils

Params == JsonDeserialize(IOEnv.LMM_PARAMS)
ToSet(q) == { q[i] : i \in 1..Len(q) }
CBounds == ToSet(Params.cbounds)
VBounds == ToSet(Params.vbounds)
Pens    == ToSet(Params.pens)
Ws      == ToSet(Params.ws)
Lims    == ToSet(Params.lims)
Caps    == ToSet(Params.caps)
FFs     == ToSet(Params.ff)
Bases   == Params.bases
MaxW    == Params.maxw

VARIABLES s, hist, left
vars == <<s, hist, left>>

O(op, a, b, c) == [op |-> op, a |-> a, b |-> b, c |-> c]

\* concurrency coverage of an operation that took the system from u to t (C18; measured on the generator's own choice,
\* counted by the check as a vacuity guard): n = staged variables it enabled; q = the largest number of them waiting on
\* one and the same limited constraint (>= 2: the scan of that constraint by on_disabled_var has to go on after its first
\* success); z = 1 when, on such a constraint, one of them takes no slot (element of weight < 1, e.g. cross-traffic)
Woken(u, t) == { v \in Vars(u) : u.stg[v] > 0 /\ t.alive[v] /\ t.pen[v] > 0 }
WakeInfo(u, o, t) ==
  IF o.op \notin {"free", "expand"} \/ Woken(u, t) = {} THEN [n |-> 0, q |-> 0, z |-> 0]
  ELSE LET Wk == Woken(u, t)
           On(c) == { v \in Wk : OnC(u, v, c) }
           LC == { c \in Cons(u) : u.clim[c] >= 0 /\ On(c) # {} } IN
       [n |-> Cardinality(Wk),
        q |-> IF LC = {} THEN 0 ELSE IMax({ Cardinality(On(c)) : c \in LC }),
        z |-> IF \E c \in LC : Cardinality(On(c)) >= 2 /\ \E v \in On(c) : W(u, v, c) < 2 THEN 1 ELSE 0]

\* what is recorded for an operation: the operation, and for a solve the exact reference allocation
Annot(u, o, t) ==
  [op |-> o.op, a |-> o.a, b |-> o.b, c |-> o.c, wake |-> WakeInfo(u, o, t),
   exp   |-> IF o.op = "solve" THEN [v \in Ids(t) |-> t.val[v]] ELSE <<>>,
   gpen  |-> IF o.op = "solve" THEN t.pen ELSE <<>>,
   uniq  |-> o.op = "solve" /\ SharedOnly(t) /\ ~AnyNaN(t.val),
   flags |-> t.flags,
   now   |-> IF o.op = "solve" THEN NowFlags(t) ELSE {}]

\* deterministic replay of a base history (the staging choice, if any, is fixed by CHOOSE)
RECURSIVE Replay(_, _, _)
Replay(t, h, ops) ==
  IF ops = <<>> THEN [s |-> t, hist |-> h]
  ELSE LET o == O(Head(ops).op, Head(ops).a, Head(ops).b, Head(ops).c) IN
       IF ~OpEnabled(t, o) THEN [s |-> t, hist |-> h]        \* ill-formed base: cut there
       ELSE LET t2 == CHOOSE x \in Post(t, o) : TRUE IN Replay(t2, Append(h, Annot(t, o, t2)), Tail(ops))

Init == \E bi \in 1..Len(Bases) :
          LET r == Replay(S0, <<>>, Bases[bi]) IN s = r.s /\ hist = r.hist /\ left = Params.len

Do(o) == /\ OpEnabled(s, o)
         /\ \E t \in Post(s, o) :
              LET a == Annot(s, o, t) IN
              /\ s' = t /\ hist' = Append(hist, a)
              /\ IF Params.fam = 2 /\ a.wake.q >= 2              \* printed with a final solve (every history ends with one)
                 THEN LET z  == O("solve", 0, 0, 0)
                          t2 == CHOOSE x \in Post(t, z) : TRUE IN
                      PrintT(<<"HIST", ToJson(Append(Append(hist, a), Annot(t, z, t2)))>>)
                 ELSE TRUE
         /\ left' = left - 1

\* exploration policy of the generator (it restricts which histories are produced, not what the operations mean):
\* at least minc constraints first; a new variable gets its first element at once; bounds of unused constraints are not
\* changed; no operation that changes nothing
More    == left > 1
NeedC   == Len(s.cb) < Params.minc
Pending == { v \in Vars(s) : s.young[v] /\ Len(s.el[v]) = 0 }
Free    == More /\ ~NeedC /\ Pending = {}
Used(c) == \E v \in Vars(s) : OnC(s, v, c)
NCnew   == More /\ Pending = {} /\ Len(s.cb) < Params.maxc /\
           \E b \in CBounds \ {0} : \E p \in ToSet(Params.pols) : \E l \in Lims : Do(O("cnew", b, p, l))
Building == \A j \in 1..Len(hist) : hist[j].op \in {"cnew", "vnew", "expand"}
NVnew   == Free /\ Len(s.alive) < Params.maxv /\ (Params.fam = 2 => Building) /\
           \E p \in Pens : \E b \in VBounds : \E n \in Caps : Do(O("vnew", p, b, n))
NExpand == More /\ ~NeedC /\ \E c \in Cons(s) : \E v \in Vars(s) : \E w \in Ws :
              /\ (Pending # {} => v \in Pending)
              /\ (Params.fam = 2 => (v = Len(s.alive) \/         \* ... or an enabled variable runs into a full constraint
                                      (s.pen[v] > 0 /\ ~OnC(s, v, c) /\ s.clim[c] >= 0 /\ Slack(s, c) <= 0 /\ w = 2)))
              /\ (s.young[v] \/ Params.late = 1) /\ W(s, v, c) + w <= MaxW
              /\ Do(O("expand", c, v, w))
NFree   == Free /\ \E v \in Vars(s) : (Params.fam = 2 => s.pen[v] > 0) /\ Do(O("free", v, 0, 0))
NVbound == Free /\ \E v \in Vars(s) : \E b \in VBounds : b # s.vb[v] /\ Do(O("vbound", v, b, 0))
NVpen   == Free /\ \E v \in Vars(s) : \E p \in Pens : (p # s.pen[v] \/ s.stg[v] > 0) /\ (p > 0 \/ Params.susp = 1) /\
                   Do(O("vpen", v, p, 0))
NCbound == Free /\ \E c \in Cons(s) : \E b \in CBounds : b # s.cb[c] /\ Used(c) /\ Do(O("cbound", c, b, 0))
NSolve  == left >= 1 /\ ((s.dirty /\ Pending = {} /\ Params.fam # 2) \/ left = 1) /\ Do(O("solve", 0, 0, 0))
NFf     == Free /\ Len(s.alive) > 0 /\ \E k \in FFs : Do(O("ff", k, 0, 0))

Next == NCnew \/ NVnew \/ NExpand \/ NFree \/ NVbound \/ NVpen \/ NCbound \/ NSolve \/ NFf
Spec == Init /\ [][Next]_vars

\* -simulate picks one disjunct uniformly, then one of its successors uniformly.  The mix of operations is set here, and
\* the parameters are drawn with RandomElement (one successor per disjunct instead of all of them: 20x faster).
Pick(S) == IF S = {} THEN {} ELSE {RandomElement(S)}
PickQ(q) == IF Len(q) = 0 THEN {} ELSE {q[RandomElement(1..Len(q))]}      \* a repeated entry of a parameter list weighs more
RCnew   == More /\ Pending = {} /\ Len(s.cb) < Params.maxc /\
           \E b \in PickQ(Params.cbounds) : \E p \in PickQ(Params.pols) : \E l \in PickQ(Params.lims) :
              b # 0 /\ Do(O("cnew", b, p, l))
RVnew   == Free /\ Len(s.alive) < Params.maxv /\
           \E p \in PickQ(Params.pens) : \E b \in PickQ(Params.vbounds) : \E n \in PickQ(Params.caps) : Do(O("vnew", p, b, n))
RExpand == More /\ ~NeedC /\
           \E v \in Pick(IF Pending # {} THEN Pending ELSE { x \in Vars(s) : s.young[x] \/ Params.late = 1 }) :
           \E c \in Pick({ x \in Cons(s) : OnC(s, v, x) \/ Len(s.el[v]) < s.cap[v] }) :
           \E w \in PickQ(Params.ws) : W(s, v, c) + w <= MaxW /\ Do(O("expand", c, v, w))
RFree   == Free /\ \E v \in Pick(Vars(s)) : Do(O("free", v, 0, 0))
RVbound == Free /\ \E v \in Pick(Vars(s)) : \E b \in PickQ(Params.vbounds) : b # s.vb[v] /\ Do(O("vbound", v, b, 0))
RVpen   == Free /\ \E v \in Pick(Vars(s)) : \E p \in PickQ(Params.pens) : (p # s.pen[v] \/ s.stg[v] > 0) /\
                   (p > 0 \/ Params.susp = 1) /\ Do(O("vpen", v, p, 0))
RCbound == Free /\ \E c \in Pick({ x \in Cons(s) : Used(x) }) : \E b \in PickQ(Params.cbounds) : b # s.cb[c] /\ Do(O("cbound", c, b, 0))
RFf     == Free /\ Len(s.alive) > 0 /\ \E k \in PickQ(Params.ff) : Do(O("ff", k, 0, 0))
RExpand2 == RExpand
RExpand3 == RExpand
RVpen2   == RVpen
RVpen3   == RVpen
RVnew2   == RVnew
NSolve2  == NSolve
RCbound2 == RCbound
NextSim == RCnew \/ RVnew \/ RVnew2 \/ RExpand \/ RExpand2 \/ RExpand3 \/ RFree \/ RVbound \/ RVpen \/ RVpen2 \/ RVpen3
           \/ RCbound \/ RCbound2 \/ NSolve \/ NSolve2 \/ RFf
SpecSim == Init /\ [][NextSim]_vars

\* The family of waiting queues (Params.fam = 1, C18): the same operations, drawn so that staged variables pile up behind
\* limited constraints and that the slots they wait for are released while they wait.  Holders: enabled variables that
\* take a slot of a constraint behind which somebody waits; QRelease frees one of them (var_free -> on_disabled_var on
\* each of its constraints); QBlock expands one of them on a full constraint, so that it is staged itself and gives all
\* its slots back at once (expand -> disable_var -> on_disabled_var); QResume wakes a suspended variable (it is staged
\* when one of its constraints is full, whatever the weight of its element there: a cross-traffic element takes no
\* slot but still waits for one).  Suspensions (vpen 0, the recorded deviations) stay rare.  A holder only leaves
\* when at least two variables wait for its slot (QRelease, one waiter, is not part of the mix).  LmmGen_simq.cfg.
Waiting(c) == { v \in Staged(s) : OnC(s, v, c) }
HoldersQ(n) == { v \in Enabled(s) : \E c \in VCons(s, v) : s.clim[c] >= 0 /\ W(s, v, c) >= 2 /\ Cardinality(Waiting(c)) >= n }
Holders == HoldersQ(1)
FullC   == { c \in Cons(s) : s.clim[c] >= 0 /\ Slack(s, c) <= 0 }
Asleep  == { v \in Vars(s) : s.pen[v] = 0 /\ s.stg[v] = 0 /\ Len(s.el[v]) > 0 }
QRelease == Free /\ \E v \in Pick(Holders) : Do(O("free", v, 0, 0))
QRelease2 == Free /\ \E v \in Pick(HoldersQ(2)) : Do(O("free", v, 0, 0))       \* at least two variables wait for the slot
QBlock   == Free /\ \E v \in Pick({ x \in HoldersQ(2) : Len(s.el[x]) < s.cap[x] }) :
                    \E c \in Pick({ x \in FullC : ~OnC(s, v, x) }) : Do(O("expand", c, v, 2))
QResume  == Free /\ \E v \in Pick(Asleep) : \E p \in PickQ(Params.pens) : p > 0 /\ Do(O("vpen", v, p, 0))
\* a new element goes to a full constraint if there is one (the queue grows), with any weight of the alphabet
QJoin    == More /\ ~NeedC /\
            \E v \in Pick(IF Pending # {} THEN Pending ELSE { x \in Vars(s) : s.young[x] \/ Params.late = 1 }) :
            \E c \in Pick({ x \in FullC : OnC(s, v, x) \/ Len(s.el[v]) < s.cap[v] }) :
            \E w \in PickQ(Params.ws) : W(s, v, c) + w <= MaxW /\ Do(O("expand", c, v, w))
\* light elements (weight < 1: they take no slot): a suspended variable with a light element on a full constraint is
\* woken up (it is staged); the holder of a slot is released while a light variable and another one wait for it
LightOn(v, c) == OnC(s, v, c) /\ W(s, v, c) < 2
QResumeL  == Free /\ \E v \in Pick({ x \in Asleep : \E c \in FullC : LightOn(x, c) }) :
                     \E p \in PickQ(Params.pens) : p > 0 /\ Do(O("vpen", v, p, 0))
HoldersL  == { v \in Enabled(s) : \E c \in VCons(s, v) : s.clim[c] >= 0 /\ W(s, v, c) >= 2 /\
                                     Cardinality(Waiting(c)) >= 2 /\ \E x \in Waiting(c) : LightOn(x, c) }
QReleaseL == Free /\ \E v \in Pick(HoldersL) : Do(O("free", v, 0, 0))
QBlockL   == Free /\ \E v \in Pick({ x \in HoldersL : Len(s.el[x]) < s.cap[x] }) :
                     \E c \in Pick({ x \in FullC : ~OnC(s, v, x) }) : Do(O("expand", c, v, 2))
QRelease3 == QReleaseL
QResume2  == QResumeL
QBlock2   == QBlockL
RVnew3 == RVnew
QRelease4 == QReleaseL
NextQ == RCnew \/ RVnew \/ RVnew2 \/ RVnew3 \/ RExpand \/ QJoin \/ QResume \/ QResume2
         \/ QRelease2 \/ QRelease3 \/ QRelease4 \/ QBlock \/ QBlock2 \/ RVpen \/ NSolve
SpecQ == Init /\ [][NextQ]_vars

\* G: every complete history is printed
Emit == left = 0 => PrintT(<<"HIST", ToJson(hist)>>)

\* M: the abstract system alone (histories and depth merged)
ViewS == s
\* fam = 2: what the concurrency bookkeeping and the policy of the generator depend on (the order of the elements of a
\* variable is the order in which var_free releases its constraints).  With bounded = 0, len is chosen larger than the
\* diameter: the scope is explored completely, whatever the order in which the workers of TLC reach the states.
ViewQ == <<s.clim, s.alive, s.pen, s.stg, s.cap, s.el, Building, IF Params.bounded = 1 THEN left ELSE 0>>
ConcInvS == ConcurrencyOk(s) /\ NoStarvation(s)
RefInvS == RefInv(s)
MirrorComplete == ModifiedSetComplete(s)
=============================================================================
