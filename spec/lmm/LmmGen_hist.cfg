SPECIFICATION Spec
INVARIANT Emit
