SPECIFICATION SpecSim
INVARIANT Emit
