SPECIFICATION SpecQ
INVARIANT Emit
