SPECIFICATION Spec
VIEW ViewQ
INVARIANT ConcInvS
