SPECIFICATION Spec
VIEW ViewQ
