SPECIFICATION Spec
VIEW ViewS
INVARIANT MirrorComplete
