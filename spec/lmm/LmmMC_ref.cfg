SPECIFICATION Spec
VIEW ViewS
INVARIANT RefInvS
