SPECIFICATION Spec
