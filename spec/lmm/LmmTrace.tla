------------------------------ MODULE LmmTrace ------------------------------
(* Trace validation (T): what real lmm::System instances did on replayed histories (driver lmm_driver) is checked     *)
(* against Lmm.tla.  LMM_CASES (environment) names a JSON file: a sequence of cases                                  *)
(*   [id, ops : sequence of annotated operations (LmmGen!Annot), runs : [mmsel, mmfull, bmf, fb, fresh : sequences   *)
(*    of records [ok, pen, stg, slack, val], one per operation]], scale (10^sk), sk, eps]                            *)
(* One behaviour per case: step i consumes operation i for every system kind at once.  For every kind the abstract   *)
(* system follows the *observed* state (the staging choice is the implementation's), so that every predicate is       *)
(* evaluated on the implementation's own state and values:                                                           *)
(*   TransOk   the observed (penalty, staged penalty) of every variable is one of the outcomes Lmm!Post allows       *)
(*   ConcOk    every logged get_concurrency_slack() = limit - number of enabled counted elements, and >= 0 (C18)     *)
(*   NoStarv   Lmm!NoStarvation (C18)                                                                                *)
(*   Feasible  Lmm!FeasibleI on the logged values after a solve (C15; every solver)                                  *)
(*   Fair      Lmm!MaxMinFairI (maxmin kinds) / Lmm!BmfFairI (bmf) (C16)                                             *)
(*   Exact     maxmin kinds: equality with the exact allocation printed by the generator, where it is unique (C16)   *)
(*   SelFull / SelFresh   selective = full, selective = fresh on every consuming variable (C17)                      *)
(* A failed predicate prints <<"BAD", case id, operation index, kind, predicate, cause tags>>; nothing else is a     *)
(* verdict.  The cause tags are those of the abstract system that follows the implementation (Lmm!SolveFlags...).    *)
EXTENDS Lmm, Json, IOUtils

Cases == JsonDeserialize(IOEnv.LMM_CASES)
Kinds == <<"mmsel", "mmfull", "bmf", "fb">>
KSet  == { Kinds[j] : j \in 1..Len(Kinds) }

VARIABLES h, i, st
vars == <<h, i, st>>

Case == Cases[h]
Scale == Case.scale
SK    == Case.sk
Eps   == Case.eps

Init == h \in 1..Len(Cases) /\ i = 1 /\ st = [k \in KSet |-> S0]

Rec(k) == Case.runs[k][i]
OpOf(o) == [op |-> o.op, a |-> o.a, b |-> o.b, c |-> o.c]

\* the abstract system of kind k after operation o, with the observed penalties
Matches(t, r) == \A v \in Ids(t) :
                    IF t.alive[v] THEN t.pen[v] * 1000 = r.pen[v] /\ t.stg[v] * 1000 = r.stg[v]
                    ELSE r.pen[v] = -1
Observed(t, r) == [t EXCEPT !.pen = [v \in Ids(t) |-> IF t.alive[v] /\ r.pen[v] >= 0 THEN r.pen[v] \div 1000 ELSE 0],
                            !.stg = [v \in Ids(t) |-> IF t.alive[v] /\ r.stg[v] >= 0 THEN r.stg[v] \div 1000 ELSE 0]]
Shape(t, r) == Len(r.pen) = Len(t.alive) /\ Len(r.stg) = Len(t.alive) /\ Len(r.slack) = Len(t.cb)
After(k, o) ==
  LET P == Post(st[k], o)
      r == Rec(k) IN
  IF \E t \in P : Shape(t, r) /\ Matches(t, r) THEN [ok |-> TRUE, s |-> CHOOSE t \in P : Shape(t, r) /\ Matches(t, r)]
  ELSE LET t0 == CHOOSE t \in P : TRUE IN [ok |-> FALSE, s |-> IF Shape(t0, r) THEN Observed(t0, r) ELSE t0]

ConcOkI(t, r) == /\ ConcurrencyOk(t)
                 /\ \A c \in Cons(t) : r.slack[c] = (IF t.clim[c] < 0 THEN -1 ELSE t.clim[c] - Conc(t, c))

\* t: the abstract system the predicate was evaluated on; its cause tags are printed with the verdict
Bad(k, what, t) == PrintT(<<"BAD", Case.id, i, k, what, t.flags \cup NowFlags(t)>>)
Chk(cond, k, what, t) == IF cond THEN TRUE ELSE Bad(k, what, t)     \* (a disjunction would be explored on both sides)

MaxMinKind(k) == k \in {"mmsel", "mmfull"}
SolveChecks(k, t, o) ==
  LET val == Rec(k).val IN
  /\ Chk(Len(val) = Len(t.alive), k, "Shape", t)
  /\ Len(val) = Len(t.alive) =>
       /\ Chk(FeasibleI(t, val, Scale, Eps), k, "Feasible", t)
       /\ MaxMinKind(k) => Chk(MaxMinFairI(t, val, Scale, Eps), k, "MaxMinFair", t)
       /\ k = "bmf" => Chk(BmfFairI(t, val, Scale, Eps), k, "BmfFair", t)
       /\ (MaxMinKind(k) /\ o.uniq /\ t.pen = o.gpen) => Chk(EqualsExactI(t, val, o.exp, SK, Scale, Eps), k, "Exact", t)

StepKind(k, o) ==
  IF Rec(k).ok = 0 THEN st[k]                        \* the run of this kind stopped (abort): nothing more to check
  ELSE LET a == After(k, OpOf(o))
           t == a.s IN
       IF /\ Chk(a.ok, k, "TransOk", t)
          /\ Shape(t, Rec(k)) =>
               /\ Chk(ConcOkI(t, Rec(k)), k, "ConcOk", t)
               /\ Chk(NoStarvation(t), k, "NoStarv", t)
               /\ o.op = "solve" => SolveChecks(k, t, o)
       THEN t ELSE t

\* C17 on the three max-min runs (compared on the selective system's own state)
CrossChecks(o, t) ==
  LET a == Case.runs["mmsel"][i]
      b == Case.runs["mmfull"][i]
      f == Case.runs["fresh"][i] IN
  (o.op = "solve" /\ a.ok = 1 /\ Len(a.val) = Len(t.alive)) =>
     /\ (b.ok = 1 /\ Len(b.val) = Len(a.val)) => Chk(SameI(t, a.val, b.val, Scale, Eps), "mmsel", "SelFull", t)
     /\ (f.ok = 1 /\ Len(f.val) = Len(a.val)) => Chk(SameI(t, a.val, f.val, Scale, Eps), "mmsel", "SelFresh", t)
     /\ (f.ok = 1 /\ Len(f.val) = Len(a.val) /\ o.uniq /\ t.pen = o.gpen) =>
             Chk(EqualsExactI(t, f.val, o.exp, SK, Scale, Eps), "fresh", "Exact", t)

Step == /\ i <= Len(Case.ops)
        /\ LET o == Case.ops[i]
               n == [k \in KSet |-> StepKind(k, o)] IN
           /\ st' = n
           /\ CrossChecks(o, n["mmsel"])
        /\ i' = i + 1
        /\ UNCHANGED h
Spec == Init /\ [][Step]_vars
=============================================================================
