------------------------------ MODULE LmmTrace ------------------------------
(* Trace validation (T): what real lmm::System instances did on replayed histories (driver lmm_driver) is checked     *)
(* against Lmm.tla.  LMM_CASES (environment) names a JSON file: a sequence of cases                                  *)
(*   [id, ops : sequence of annotated operations (LmmGen!Annot), runs : [mmsel, mmfull, bmf, fb, fresh : sequences   *)
(*    of records [ok, pen, stg, slack, val], one per operation]], scale (10^sk), sk, eps]                            *)
(* One behaviour per case: step i consumes operation i for every system kind at once.  For every kind the abstract   *)
(* system follows the *observed* state (the staging choice is the implementation's), so that every predicate is       *)
(* evaluated on the implementation's own state and values:                                                           *)
(*   TransOk   the observed (penalty, staged penalty) of every variable is one of the outcomes Lmm!Post allows       *)
(*   ConcOk    every logged get_concurrency_slack() = limit - number of enabled counted elements, and >= 0 (C18)     *)
(*   NoStarv   Lmm!NoStarvation (C18)                                                                                *)
(*   Feasible  Lmm!FeasibleI on the logged values after a solve (C15; every solver)                                  *)
(*   Fair      Lmm!MaxMinFairI (maxmin kinds) / Lmm!BmfFairI (bmf) (C16)                                             *)
(*   Exact     maxmin kinds: equality with the exact allocation printed by the generator, where it is unique (C16)   *)
(*   SelFull / SelFresh   selective = full, selective = fresh on every consuming variable (C17)                      *)
(* A failed predicate prints <<"BAD", case id, operation index, kind, predicate, cause tags>>; nothing else is a     *)
(* verdict.  The cause tags are those of the abstract system that follows the implementation (Lmm!SolveFlags...).    *)
(* For TransOk / ConcOk / NoStarv the tags are not the sticky ones: a rejected step carries the tag of a recorded      *)
(* finding only when that mechanism explains *this* step (Lmm!Pinned: the observed state is what the pinned commit is  *)
(* known to do there; lost[k] = the variables that starve since an unreleased slot).  A starvation or a transition      *)
(* that the recorded mechanisms do not produce has no tag (cause=none in the signature of the check).                  *)
EXTENDS Lmm, Json, IOUtils

Cases == JsonDeserialize(IOEnv.LMM_CASES)
Kinds == <<"mmsel", "mmfull", "bmf", "fb">>
KSet  == { Kinds[j] : j \in 1..Len(Kinds) }

VARIABLES h, i, st, lost
vars == <<h, i, st, lost>>

Case == Cases[h]
Scale == Case.scale
SK    == Case.sk
Eps   == Case.eps

Init == h \in 1..Len(Cases) /\ i = 1 /\ st = [k \in KSet |-> S0] /\ lost = [k \in KSet |-> {}]

Rec(k) == Case.runs[k][i]
OpOf(o) == [op |-> o.op, a |-> o.a, b |-> o.b, c |-> o.c]

\* the abstract system of kind k after operation o, with the observed penalties
Matches(t, r) == \A v \in Ids(t) :
                    IF t.alive[v] THEN t.pen[v] * 1000 = r.pen[v] /\ t.stg[v] * 1000 = r.stg[v]
                    ELSE r.pen[v] = -1
Observed(t, r) == [t EXCEPT !.pen = [v \in Ids(t) |-> IF t.alive[v] /\ r.pen[v] >= 0 THEN r.pen[v] \div 1000 ELSE 0],
                            !.stg = [v \in Ids(t) |-> IF t.alive[v] /\ r.stg[v] >= 0 THEN r.stg[v] \div 1000 ELSE 0]]
Shape(t, r) == Len(r.pen) = Len(t.alive) /\ Len(r.stg) = Len(t.alive) /\ Len(r.slack) = Len(t.cb)
After(k, o) ==
  LET P == Post(st[k], o)
      r == Rec(k) IN
  IF \E t \in P : Shape(t, r) /\ Matches(t, r)
  THEN [ok |-> TRUE, why |-> "", s |-> CHOOSE t \in P : Shape(t, r) /\ Matches(t, r)]
  ELSE LET K == Pinned(st[k], o, lost[k]) IN        \* not allowed: is it what a recorded finding does here?
       IF \E t \in K.P : Shape(t, r) /\ Matches(t, r)
       THEN [ok |-> FALSE, why |-> K.tag, s |-> CHOOSE t \in K.P : Shape(t, r) /\ Matches(t, r)]
       ELSE LET t0 == CHOOSE t \in P : TRUE IN
            [ok |-> FALSE, why |-> "none", s |-> IF Shape(t0, r) THEN Observed(t0, r) ELSE t0]

\* the variables that starve since a slot was not released (suspnorelease), after this step
LostAfter(k, o, a) == IF a.why = "suspnorelease" /\ o.op = "vpen" THEN Starving(a.s) ELSE Starving(a.s) \cap lost[k]
\* a starvation is attributed to the recorded finding when the step itself is accounted for and nobody else starves
StarvTags(k, o, a) ==
  IF /\ a.why # "none"
     /\ Starving(a.s) \subseteq LostAfter(k, o, a)
     /\ \A v \in Vars(a.s) : a.s.stg[v] > 0 => a.s.pen[v] = 0
  THEN {"suspnorelease"} ELSE {}

ConcOkI(t, r) == /\ ConcurrencyOk(t)
                 /\ \A c \in Cons(t) : r.slack[c] = (IF t.clim[c] < 0 THEN -1 ELSE t.clim[c] - Conc(t, c))

\* t: the abstract system the predicate was evaluated on; its cause tags are printed with the verdict
Bad(k, what, t) == PrintT(<<"BAD", Case.id, i, k, what, t.flags \cup NowFlags(t)>>)
Chk(cond, k, what, t) == IF cond THEN TRUE ELSE Bad(k, what, t)     \* (a disjunction would be explored on both sides)
ChkC(cond, k, what, tags) == IF cond THEN TRUE ELSE PrintT(<<"BAD", Case.id, i, k, what, tags>>)

MaxMinKind(k) == k \in {"mmsel", "mmfull"}
SolveChecks(k, t, o) ==
  LET val == Rec(k).val IN
  /\ Chk(Len(val) = Len(t.alive), k, "Shape", t)
  /\ Len(val) = Len(t.alive) =>
       /\ Chk(FeasibleI(t, val, Scale, Eps), k, "Feasible", t)
       /\ MaxMinKind(k) => Chk(MaxMinFairI(t, val, Scale, Eps), k, "MaxMinFair", t)
       /\ k = "bmf" => Chk(BmfFairI(t, val, Scale, Eps), k, "BmfFair", t)
       /\ (MaxMinKind(k) /\ o.uniq /\ t.pen = o.gpen) => Chk(EqualsExactI(t, val, o.exp, SK, Scale, Eps), k, "Exact", t)

StepKind(k, o) ==
  IF Rec(k).ok = 0 THEN [s |-> st[k], lost |-> lost[k]]   \* the run of this kind stopped (abort): nothing more to check
  ELSE LET a == After(k, OpOf(o))
           t == a.s IN
       IF /\ ChkC(a.ok, k, "TransOk", IF a.why = "none" THEN {} ELSE {a.why})
          /\ Shape(t, Rec(k)) =>
               /\ ChkC(ConcOkI(t, Rec(k)), k, "ConcOk", {})
               /\ ChkC(NoStarvation(t), k, "NoStarv", StarvTags(k, OpOf(o), a))
               /\ o.op = "solve" => SolveChecks(k, t, o)
       THEN [s |-> t, lost |-> LostAfter(k, OpOf(o), a)] ELSE [s |-> t, lost |-> LostAfter(k, OpOf(o), a)]

\* C17 on the three max-min runs (compared on the selective system's own state)
CrossChecks(o, t) ==
  LET a == Case.runs["mmsel"][i]
      b == Case.runs["mmfull"][i]
      f == Case.runs["fresh"][i] IN
  (o.op = "solve" /\ a.ok = 1 /\ Len(a.val) = Len(t.alive)) =>
     /\ (b.ok = 1 /\ Len(b.val) = Len(a.val)) => Chk(SameI(t, a.val, b.val, Scale, Eps), "mmsel", "SelFull", t)
     /\ (f.ok = 1 /\ Len(f.val) = Len(a.val)) => Chk(SameI(t, a.val, f.val, Scale, Eps), "mmsel", "SelFresh", t)
     /\ (f.ok = 1 /\ Len(f.val) = Len(a.val) /\ o.uniq /\ t.pen = o.gpen) =>
             Chk(EqualsExactI(t, f.val, o.exp, SK, Scale, Eps), "fresh", "Exact", t)

Step == /\ i <= Len(Case.ops)
        /\ LET o == Case.ops[i]
               n == TLCEval([k \in KSet |-> StepKind(k, o)]) IN      \* evaluated once (a lazy function would re-run the checks)
           /\ st' = [k \in KSet |-> n[k].s]
           /\ lost' = [k \in KSet |-> n[k].lost]
           /\ CrossChecks(o, n["mmsel"].s)
        /\ i' = i + 1
        /\ UNCHANGED h
Spec == Init /\ [][Step]_vars
=============================================================================
