-------------------------------- MODULE Rat --------------------------------
(* Exact rational arithmetic for TLC: a rational is a pair <<n, d>> with d > 0 and gcd(|n|, d) = 1.               *)
(* TLC integers are 32-bit and TLC stops on overflow; every operation therefore checks its products *before*       *)
(* computing them and yields NaN = <<0, 0>> instead, which propagates.  A NaN result means "the exact value is     *)
(* not representable here": callers treat it as "no exact reference available", never as a verdict.                *)
(* Comparisons never overflow (continued-fraction comparison).                                                     *)
EXTENDS Integers

MaxInt == 2147483647
Abs(x) == IF x < 0 THEN -x ELSE x

RECURSIVE Gcd(_, _)
Gcd(a, b) == IF b = 0 THEN a ELSE Gcd(b, a % b)          \* a, b >= 0

NaN == <<0, 0>>
IsNaN(r) == r[2] = 0
R(n) == <<n, 1>>
R0 == <<0, 1>>

MulOk(a, b) == a = 0 \/ b = 0 \/ Abs(a) <= MaxInt \div Abs(b)
AddOk(a, b) == Abs(a) <= MaxInt - Abs(b)

Norm(n, d) ==
  IF d = 0 THEN NaN
  ELSE LET g == Gcd(Abs(n), Abs(d))
           s == IF d < 0 THEN -1 ELSE 1 IN
       <<s * (n \div g), s * (d \div g)>>     \* g divides n and d exactly

Frac(n, d) == Norm(n, d)

Neg(x) == IF IsNaN(x) THEN NaN ELSE <<-x[1], x[2]>>

Mul(x, y) ==
  IF IsNaN(x) \/ IsNaN(y) THEN NaN
  ELSE LET g1 == Gcd(Abs(x[1]), y[2])
           g2 == Gcd(Abs(y[1]), x[2])
           a == x[1] \div g1   d == y[2] \div g1
           c == y[1] \div g2   b == x[2] \div g2 IN
       IF MulOk(a, c) /\ MulOk(b, d) THEN <<a * c, b * d>> ELSE NaN

Inv(x) == IF IsNaN(x) \/ x[1] = 0 THEN NaN ELSE IF x[1] > 0 THEN <<x[2], x[1]>> ELSE <<-x[2], -x[1]>>
Div(x, y) == Mul(x, Inv(y))

Add(x, y) ==
  IF IsNaN(x) \/ IsNaN(y) THEN NaN
  ELSE LET g == Gcd(x[2], y[2])
           l == x[2] \div g
           m == y[2] \div g IN
       IF MulOk(x[1], m) /\ MulOk(y[1], l) /\ MulOk(l, y[2]) /\ AddOk(x[1] * m, y[1] * l)
       THEN Norm(x[1] * m + y[1] * l, l * y[2]) ELSE NaN
Sub(x, y) == Add(x, Neg(y))

\* a/b < c/d for a, c >= 0 and b, d > 0, without any product
RECURSIVE LessPos(_, _, _, _)
LessPos(a, b, c, d) ==
  LET q1 == a \div b   q2 == c \div d IN
  IF q1 # q2 THEN q1 < q2
  ELSE LET r1 == a % b   r2 == c % d IN
       IF r2 = 0 THEN FALSE
       ELSE IF r1 = 0 THEN TRUE
       ELSE LessPos(d, r2, b, r1)

Less(x, y) ==
  IF IsNaN(x) \/ IsNaN(y) THEN FALSE
  ELSE IF x[1] < 0 /\ y[1] >= 0 THEN TRUE
  ELSE IF x[1] >= 0 /\ y[1] < 0 THEN FALSE
  ELSE IF x[1] >= 0 THEN LessPos(x[1], x[2], y[1], y[2])
  ELSE LessPos(-y[1], y[2], -x[1], x[2])
Leq(x, y) == x = y \/ Less(x, y)
IsPos(x) == ~IsNaN(x) /\ x[1] > 0
IsZero(x) == ~IsNaN(x) /\ x[1] = 0

\* minimum of a non-empty set of rationals
RMin(S) == CHOOSE x \in S : \A y \in S : ~Less(y, x)

RECURSIVE SumF(_, _)
SumF(f, S) == IF S = {} THEN R0 ELSE LET x == CHOOSE z \in S : TRUE IN Add(f[x], SumF(f, S \ {x}))

RECURSIVE Pow10(_)
Pow10(k) == IF k = 0 THEN 1 ELSE 10 * Pow10(k - 1)

\* floor(n * 10^k / d) for n >= 0, d > 0, digit by digit; -1 when it cannot be computed in 32 bits
RECURSIVE ScaleDec(_, _, _)
ScaleDec(n, d, k) ==
  IF k = 0 THEN n \div d
  ELSE LET q == n \div d
           r == n % d IN
       IF d > MaxInt \div 10 \/ ~MulOk(q, Pow10(k)) THEN -1
       ELSE LET t == ScaleDec(r * 10, d, k - 1) IN
            IF t < 0 \/ ~AddOk(q * Pow10(k), t) THEN -1 ELSE q * Pow10(k) + t
ScaleFloor(x, k) == IF IsNaN(x) \/ x[1] < 0 THEN -1 ELSE ScaleDec(x[1], x[2], k)
=============================================================================
