------------------------------ MODULE Visited ------------------------------
(* The visit-stamp protocol of the selective update of lmm::System (System.cpp): update_modified_cnst_set_rec skips a    *)
(* variable whose stamp visited_ equals visited_counter_ ("all its constraints are already in the modified set");        *)
(* remove_all_modified_cnst_set un-stamps every variable at once by incrementing the counter, and resets the stamps       *)
(* when the unsigned counter has wrapped around.  Here the counter lives modulo N (3 or 4) so that TLC reaches the        *)
(* wrap-around, which takes 2^32 solves of the real code.                                                                 *)
(*   Fix = FALSE : the rule of the code at the pinned commit:  if (++visited_counter_ == 1) reset every stamp to 0       *)
(*   Fix = TRUE  : the proposed rule, the counter skips 0:     if (++visited_counter_ == 0) { counter = 1; reset to 0 }  *)
(* mod is the modified set computed with the stamps, ref the one the same traversal computes when it never skips a       *)
(* variable.  StampSound: they are equal in every reachable state, i.e. a variable is skipped only if it was already      *)
(* visited since the last solve.  (The other weakness of the traversal, update_modified_cnst_set_from_variable looking    *)
(* at cnsts_[0] only, is kept out of this model: enabling / disabling touches every constraint of the variable.)          *)
EXTENDS Integers, FiniteSets

CONSTANTS N, NC, NV, Fix
C == 1..NC
V == 1..NV

VARIABLES cnt, vis, en, on, mod, ref
vars == <<cnt, vis, en, on, mod, ref>>

Init == /\ cnt = 1 /\ vis = [v \in V |-> 0]              \* variable_new: visited_ = visited_counter_ - 1
        /\ en \in [V -> BOOLEAN] /\ on \in [V -> (SUBSET C) \ {{}}]
        /\ mod = {} /\ ref = {}

\* ---- the traversal with stamps. x = [en, on, cnt] (the system it runs on), st = [mod, vis]
RECURSIVE VisitC(_, _, _), FoldVars(_, _, _, _), LoopCons(_, _, _, _, _)
LoopCons(x, st, c, v, S) ==                                \* for (elem2 : var->cnsts_) { if (visited_ == counter) break; ... }
  IF S = {} \/ st.vis[v] = x.cnt THEN st
  ELSE LET c2  == CHOOSE z \in S : TRUE
           st2 == IF c2 # c /\ c2 \notin st.mod THEN VisitC(x, [st EXCEPT !.mod = @ \cup {c2}], c2) ELSE st IN
       LoopCons(x, st2, c, v, S \ {c2})
FoldVars(x, st, c, S) ==                                   \* for (elem : cnst->enabled_element_set_)
  IF S = {} THEN st
  ELSE LET v   == CHOOSE z \in S : TRUE
           st2 == LoopCons(x, st, c, v, x.on[v]) IN
       FoldVars(x, [st2 EXCEPT !.vis[v] = x.cnt], c, S \ {v})          \* var->visited_ = visited_counter_
VisitC(x, st, c) == FoldVars(x, st, c, { v \in V : x.en[v] /\ c \in x.on[v] })
UMS(x, st, c) == IF c \in st.mod THEN st ELSE VisitC(x, [st EXCEPT !.mod = @ \cup {c}], c)

\* ---- the same traversal without stamps
RECURSIVE RefReach(_, _, _)
RefReach(x, front, acc) ==
  IF front = {} THEN acc
  ELSE LET new == { c2 \in C : c2 \notin acc /\
                        \E c \in front : \E v \in V : x.en[v] /\ c \in x.on[v] /\ c2 \in x.on[v] } IN
       RefReach(x, new, acc \cup new)
RefUMS(x, r, c) == IF c \in r THEN r ELSE RefReach(x, {c}, r \cup {c})

RECURSIVE TouchAll(_, _, _), RefTouchAll(_, _, _)
TouchAll(x, st, S)   == IF S = {} THEN st ELSE LET c == CHOOSE z \in S : TRUE IN TouchAll(x, UMS(x, st, c), S \ {c})
RefTouchAll(x, r, S) == IF S = {} THEN r ELSE LET c == CHOOSE z \in S : TRUE IN RefTouchAll(x, RefUMS(x, r, c), S \ {c})

X  == [en |-> en, on |-> on, cnt |-> cnt]
St == [mod |-> mod, vis |-> vis]
Apply(x, S) == LET st == TouchAll(x, St, S) IN mod' = st.mod /\ vis' = st.vis /\ ref' = RefTouchAll(x, ref, S)

\* update_constraint_bound, update_variable_bound, expand on an existing element...
Touch(c) == Apply(X, {c}) /\ UNCHANGED <<cnt, en, on>>
\* enable_var: the set is updated after the variable moved to the enabled sets
Enable(v) == /\ ~en[v] /\ en' = [en EXCEPT ![v] = TRUE]
             /\ Apply([X EXCEPT !.en = en'], on[v]) /\ UNCHANGED <<cnt, on>>
\* disable_var, var_free: the set is updated before the variable leaves the enabled sets
Disable(v) == /\ en[v] /\ en' = [en EXCEPT ![v] = FALSE]
              /\ Apply(X, on[v]) /\ UNCHANGED <<cnt, on>>
\* variable_free + variable_new + expand: a new variable in the slot of v
Renew(v) == \E o \in (SUBSET C) \ {{}} : \E e \in BOOLEAN :
              /\ on' = [on EXCEPT ![v] = o] /\ en' = [en EXCEPT ![v] = e]
              /\ LET vis1 == [vis EXCEPT ![v] = (cnt + N - 1) % N]
                     x1   == [en |-> en', on |-> on', cnt |-> cnt]
                     pre  == IF en[v] THEN TouchAll(X, St, on[v]) ELSE St            \* var_free of the old one
                     rpre == IF en[v] THEN RefTouchAll(X, ref, on[v]) ELSE ref
                     st   == TouchAll(x1, [mod |-> pre.mod, vis |-> [pre.vis EXCEPT ![v] = vis1[v]]], o)
                 IN mod' = st.mod /\ vis' = st.vis /\ ref' = RefTouchAll(x1, rpre, o)
              /\ UNCHANGED cnt
\* solve of a modified system, then remove_all_modified_cnst_set
Solve == /\ mod # {}
         /\ LET n == (cnt + 1) % N IN
            IF Fix THEN (IF n = 0 THEN cnt' = 1 /\ vis' = [v \in V |-> 0] ELSE cnt' = n /\ vis' = vis)
            ELSE cnt' = n /\ vis' = IF n = 1 THEN [v \in V |-> 0] ELSE vis
         /\ mod' = {} /\ ref' = {} /\ UNCHANGED <<en, on>>

Next == (\E c \in C : Touch(c)) \/ (\E v \in V : Enable(v) \/ Disable(v) \/ Renew(v)) \/ Solve
Spec == Init /\ [][Next]_vars

StampSound == mod = ref
TypeOk == cnt \in 0..(N - 1) /\ vis \in [V -> 0..(N - 1)]
=============================================================================
