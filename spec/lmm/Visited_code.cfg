SPECIFICATION Spec
CONSTANTS N = 4
          NC = 3
          NV = 2
          Fix = FALSE
INVARIANT TypeOk
INVARIANT StampSound
