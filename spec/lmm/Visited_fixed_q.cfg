SPECIFICATION Spec
CONSTANTS N = 3
          NC = 2
          NV = 2
          Fix = TRUE
INVARIANT TypeOk
INVARIANT StampSound
