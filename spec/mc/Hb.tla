--------------------------------- MODULE Hb ---------------------------------
(* C42. Happens-before and races of an execution of the model checker (odpor::Execution).                         *)
(*                                                                                                                  *)
(* An execution is a record  E = [n |-> number of events, actor |-> <<a_1..a_n>>, dep |-> n x n matrix of 0/1].    *)
(* E.dep is DATA: for executions recorded from the implementation it is the REAL Transition::dispatch_depends()     *)
(* result for each ordered pair of transitions, so nothing below inherits an error of a transcription of the        *)
(* dependency relation.  Events are numbered 1..n in the order of the execution ("occurs before" = <).              *)
(*                                                                                                                  *)
(* Definitions transcribed from the documentation (src/mc/explo/odpor/Execution.hpp, and the ODPOR paper it cites): *)
(*   happens-before  -->_E  = the transitive closure of { (i,j) : i < j /\ the transitions of i and j are           *)
(*                           dependent }, transitions of one actor being always dependent;                           *)
(*   e and e' race iff proc(e) # proc(e'), e -->_E e' and there is no e'' with e -->_E e'' and e'' -->_E e'.          *)
EXTENDS Naturals, Sequences, FiniteSets, TLC

Ev(E) == 1..E.n

\* the dependency used by happens-before: the logged relation, plus "same actor"
DepE(E, i, j) == i # j /\ (E.actor[i] = E.actor[j] \/ E.dep[i][j] = 1)

DepSymmetric(E) == \A i, j \in Ev(E) : E.dep[i][j] = E.dep[j][i]

Base(E) == { p \in Ev(E) \X Ev(E) : p[1] < p[2] /\ DepE(E, p[1], p[2]) }

(* Transitive closure of a relation R over the finite set S (Warshall): once the pivots outside T are processed,    *)
(* R holds the pairs connected by a path whose intermediate nodes are processed pivots.                              *)
RECURSIVE Warshall(_, _, _)
Warshall(R, S, T) ==
  IF T = {} THEN R
  ELSE LET k == CHOOSE x \in T : TRUE
           P == { a \in S : <<a, k>> \in R }          \* what reaches the pivot
           Q == { b \in S : <<k, b>> \in R }          \* what the pivot reaches
           \* TLCEval: TLC must enumerate each intermediate relation (its sets are lazy; nested lazy sets explode)
       IN  Warshall(TLCEval(R \cup (P \X Q)), S, T \ {k})

TC(R, S) == Warshall(R, S, S)

HB(E) == TC(TLCEval(Base(E)), Ev(E))

(* "a chain of pairwise-dependent events leads from i to j" written as a well-founded recursion on j (every chain    *)
(* is increasing): the events that happen before j are its direct dependent predecessors and their own              *)
(* predecessors. HbMC checks  PredRel(E) = HB(E)  for every execution of the small scope.                             *)
Preds(E) ==
  LET p[j \in Ev(E)] == LET D == { i \in 1..(j - 1) : DepE(E, i, j) }
                        IN  D \cup UNION { p[i] : i \in D }
  IN  p
PredRel(E) == LET p == Preds(E) IN { q \in Ev(E) \X Ev(E) : q[1] \in p[q[2]] }

(* Races, the documented definition (hb is the happens-before relation of E as a set of pairs).                     *)
Races(E, hb, e) ==
  { f \in Ev(E) : /\ E.actor[f] # E.actor[e]
                  /\ <<f, e>> \in hb
                  /\ ~ \E g \in Ev(E) : <<f, g>> \in hb /\ <<g, e>> \in hb }

(* The formulation of the property statement: the maximal happens-before predecessors of e from other actors that   *)
(* are not already ordered with the previous event of e's actor.                                                     *)
PrevOfActor(E, e) == { p \in 1..(e - 1) : E.actor[p] = E.actor[e] }
RacesStmt(E, hb, e) ==
  LET Q == { f \in Ev(E) : /\ E.actor[f] # E.actor[e] /\ <<f, e>> \in hb
                           /\ \A p \in PrevOfActor(E, e) : <<f, p>> \notin hb }
  IN  { f \in Q : ~ \E g \in Q : <<f, g>> \in hb }

(* The mechanism of push_transition as the DPOR paper describes it (clock vectors): cv[j][a] = the latest event of  *)
(* actor a that happens before (or is) j, 0 if none; computed from the most recent dependent event of each actor.   *)
Actors(E) == { E.actor[i] : i \in Ev(E) }
MaxOf(S) == IF S = {} THEN 0 ELSE CHOOSE x \in S : \A y \in S : y <= x
ClockVectors(E) ==
  LET cv[j \in Ev(E)] ==
        LET Last(a) == MaxOf({ i \in 1..(j - 1) : E.actor[i] = a /\ DepE(E, i, j) })
            Srcs    == { Last(a) : a \in Actors(E) } \ {0}
        IN  [a \in Actors(E) |-> IF a = E.actor[j] THEN j ELSE MaxOf({ cv[i][a] : i \in Srcs })]
  IN  cv
ClockRel(E) == LET cv == ClockVectors(E) IN { q \in Ev(E) \X Ev(E) : q[1] < q[2] /\ q[1] <= cv[q[2]][E.actor[q[1]]] }

(* Canonical representative of the Mazurkiewicz class of an execution (C40): its lexicographic normal form -- repeatedly  *)
(* emit the event of the smallest actor among the events all of whose happens-before predecessors are emitted (pred[e]  *)
(* = the events that happen before e).  Two executions of one program are equivalent iff their normal forms list the    *)
(* same (actor, transition) sequence.                                                                                     *)
RECURSIVE NormalFormFrom(_, _, _)
NormalFormFrom(E, pred, done) ==
  IF done = Ev(E) THEN <<>>
  ELSE LET ready == { e \in Ev(E) \ done : pred[e] \subseteq done }
           e     == CHOOSE x \in ready : \A y \in ready : E.actor[x] < E.actor[y] \/ (E.actor[x] = E.actor[y] /\ x <= y)
       IN  <<e>> \o NormalFormFrom(E, pred, done \cup {e})
NormalForm(E, pred) == NormalFormFrom(E, pred, {})

\* ---------------------------------------------------------------------------- properties of the definitions (HbMC)
IsStrictPartialOrderWithin(hb, E) ==
  /\ \A p \in hb : p[1] < p[2]                                           \* contained in "occurs before", irreflexive
  /\ \A p, q \in hb : p[2] = q[1] => <<p[1], q[2]>> \in hb               \* transitive
ProgramOrder(hb, E) == \A i, j \in Ev(E) : (i < j /\ E.actor[i] = E.actor[j]) => <<i, j>> \in hb
RacesAreDirect(E, hb) == \A e \in Ev(E) : \A f \in Races(E, hb, e) : DepE(E, f, e)
=============================================================================
