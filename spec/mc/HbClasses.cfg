SPECIFICATION Spec
INVARIANT Report
INVARIANT PrintNF
