------------------------------ MODULE HbClasses ------------------------------
(* C40 (T): every complete execution explored by simgrid-mc is replayed event by event exactly as in HbTrace (the real    *)
(* odpor::Execution's happens_before / racing events are compared again with the definitions, on executions the checker   *)
(* really explored), and, on the complete execution, its normal form under the REAL logged dependency matrix is printed:  *)
(* a JSON line [nf: id, seq: sequence of events].  The harness groups the executions of one program by normal form.                     *)
EXTENDS HbTrace

PrintNF == (k = X.n /\ k >= 1) => PrintT(ToJson([nf |-> X.id, seq |-> NormalForm(X, pred)]))
=============================================================================
