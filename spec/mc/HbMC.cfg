SPECIFICATION Spec
CONSTANTS
  MaxN = 5
  MaxA = 3
INVARIANTS AllLemmas
PROPERTIES RacesStable
