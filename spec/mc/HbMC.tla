-------------------------------- MODULE HbMC --------------------------------
(* (M) Exhaustive small-scope check of the definitions of Hb.tla: every execution of at most MaxN events over at     *)
(* most MaxA actors and EVERY symmetric dependency matrix (dependency is data, so all relations are covered, also    *)
(* non-transitive ones).  A behaviour pushes events one by one like Execution::push_transition; the invariants are   *)
(* evaluated on every prefix.  Checked: the inductive "chain" characterisation and the clock-vector mechanism both   *)
(* equal the transitive closure; happens-before is a strict partial order inside "occurs before" containing program  *)
(* order; the documented race definition equals the formulation of the property statement; races are direct.         *)
EXTENDS Hb, TLC

CONSTANTS MaxN, MaxA

VARIABLES n, actor, dep
vars == <<n, actor, dep>>
E == [n |-> n, actor |-> actor, dep |-> dep]

Init == n = 0 /\ actor = <<>> /\ dep = <<>>

UsedActors == { actor[i] : i \in 1..n }
\* actors are interchangeable: a new actor takes the next unused number
ActorChoices == UsedActors \cup (IF Cardinality(UsedActors) < MaxA THEN {Cardinality(UsedActors) + 1} ELSE {})

Push ==
  /\ n < MaxN
  /\ \E a \in ActorChoices :
       \E col \in [1..n -> {0, 1}] :
          /\ \A i \in 1..n : actor[i] = a => col[i] = 1          \* what dispatch_depends answers for one actor
          /\ n' = n + 1
          /\ actor' = Append(actor, a)
          /\ dep' = [i \in 1..(n + 1) |-> [j \in 1..(n + 1) |->
                       IF i <= n /\ j <= n THEN dep[i][j]
                       ELSE IF i = n + 1 /\ j = n + 1 THEN 1
                       ELSE IF i = n + 1 THEN col[j] ELSE col[i]]]

Next == Push
Spec == Init /\ [][Next]_vars

Lemmas(X) ==
  LET h == HB(X) IN
  /\ PredRel(X) = h                                                  \* ChainEqualsClosure
  /\ ClockRel(X) = h                                                 \* ClockEqualsClosure (mechanism of push_transition)
  /\ IsStrictPartialOrderWithin(h, X) /\ ProgramOrder(h, X)          \* HbIsPartialOrder
  /\ \A e \in Ev(X) : Races(X, h, e) = RacesStmt(X, h, e)            \* RaceDefsAgree
  /\ RacesAreDirect(X, h)                                            \* RacesDirect
  /\ DepSymmetric(X)
  /\ LET nf  == NormalForm(X, Preds(X))                                \* the normal form is a linear extension of HB
         pos == [e \in Ev(X) |-> CHOOSE i \in 1..Len(nf) : nf[i] = e]
     IN  /\ Len(nf) = X.n /\ { nf[i] : i \in 1..Len(nf) } = Ev(X)
         /\ \A p \in h : pos[p[1]] < pos[p[2]]
AllLemmas == Lemmas(E)
\* the races of an event never change when the execution grows (they depend on the prefix only)
RacesStable == [][LET X1 == E
                      X2 == [n |-> n', actor |-> actor', dep |-> dep']
                      h1 == HB(X1)
                      h2 == HB(X2)
                  IN  /\ \A e \in 1..n : Races(X1, h1, e) = Races(X2, h2, e)
                      /\ h1 = { p \in h2 : p[2] <= n }]_vars
=============================================================================
