SPECIFICATION Spec
CONSTANTS
  MaxN = 6
  MaxA = 3
INVARIANTS AllLemmas
PROPERTIES RacesStable
