SPECIFICATION Spec
INVARIANT Report
