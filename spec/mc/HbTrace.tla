------------------------------- MODULE HbTrace -------------------------------
(* (T) C42: executions recorded from the real odpor::Execution (driver mc_unit_driver, or hook H4 of simgrid-mc) are  *)
(* replayed event by event; TLC recomputes happens-before and the racing events from the LOGGED dependency matrix     *)
(* (the real Transition::dispatch_depends) with the definitions of Hb.tla and compares them with what the             *)
(* implementation answered (Execution::happens_before, Execution::get_racing_events_of), after every push and on the  *)
(* complete execution.                                                                                                 *)
(* EXECS (environment) = ndjson file, one execution per line: id, n, actor[], dep[][], hb[][], racing[][],             *)
(* hb_push[][], racing_push[][]  (event handles are 0-based in the file, 1-based here).                                *)
(* A behaviour = one execution: state (x, k, pred) = execution x (the logged record itself: the file is read once, by  *)
(* Init) after k pushes, pred[j] = events that happen before j *)
(* (built with the chain recursion of Hb!Preds, one row per push).  Every disagreement is printed as a MISMATCH line;  *)
(* an execution is accepted iff all its n+1 states were generated and no MISMATCH line names it.                       *)
EXTENDS Hb, TLC, Json, IOUtils

Execs == ndJsonDeserialize(IOEnv.EXECS)

VARIABLES x, k, pred
vars == <<x, k, pred>>

X == x
ToSet(s) == { s[i] : i \in 1..Len(s) }
Handles(s) == { s[i] + 1 : i \in 1..Len(s) }          \* 0-based handles of the implementation -> events 1..n
NoDup(s) == Cardinality(ToSet(s)) = Len(s)

Init == x \in { Execs[i] : i \in 1..Len(Execs) } /\ k = 0 /\ pred = <<>>

Push == /\ k < X.n
        /\ LET j == k + 1
               D == { i \in 1..k : DepE(X, i, j) }
           IN  pred' = Append(pred, D \cup UNION { pred[i] : i \in D })
        /\ k' = k + 1 /\ x' = x

Next == Push
Spec == Init /\ [][Next]_vars

\* races of event e from the rows computed so far (documented definition; the intermediate event is before e)
RacesP(e) == { f \in pred[e] : /\ X.actor[f] # X.actor[e]
                               /\ ~ \E g \in pred[e] : f \in pred[g] }

\* one line per disagreement (JSON: long values printed as TLA+ values would be wrapped over several lines)
Say(kind, ev, expected, got) == PrintT(ToJson([mismatch |-> X.id, kind |-> kind, ev |-> ev, expected |-> expected, got |-> got]))

\* after push number k: what the implementation answered for the newest event
PushOK ==
  k >= 1 =>
    /\ (Handles(X.hb_push[k]) # pred[k]) => Say("hb_push", k, pred[k], Handles(X.hb_push[k]))
    /\ (Handles(X.racing_push[k]) # RacesP(k) \/ ~NoDup(X.racing_push[k]))
          => Say("racing_push", k, RacesP(k), [i \in 1..Len(X.racing_push[k]) |-> X.racing_push[k][i] + 1])

\* on the complete execution
FinalOK ==
  (k = X.n /\ k >= 1) =>
    LET rel  == { q \in Ev(X) \X Ev(X) : q[1] \in pred[q[2]] }
        impl == { q \in Ev(X) \X Ev(X) : X.hb[q[1]][q[2]] = 1 }
        hb   == TLCEval(HB(X))                                       \* the definition: transitive closure (Warshall)
    IN  /\ ~DepSymmetric(X) => Say("dep_not_symmetric", 0,
                                   {}, { q \in Ev(X) \X Ev(X) : X.dep[q[1]][q[2]] # X.dep[q[2]][q[1]] })
        /\ (rel # hb) => Say("spec_chain_vs_closure", 0, hb, rel)      \* would be an error of the specification
        /\ (impl # hb) => Say("hb", 0, hb \ impl, impl \ hb)           \* expected-but-missing, answered-but-wrong
        \* rel = hb is checked just above, so RacesP(e) (rows) is Races(X, hb, e) (documented definition on the closure)
        /\ \A e \in Ev(X) :
             (Handles(X.racing[e]) # RacesP(e) \/ ~NoDup(X.racing[e]))
                => Say("racing", e, RacesP(e), [i \in 1..Len(X.racing[e]) |-> X.racing[e][i] + 1])
        /\ (X.n <= 12) => \A e \in Ev(X) : RacesP(e) = Races(X, hb, e) \/ Say("spec_races_rows_vs_closure", e, {}, {})

Report == PushOK /\ FinalOK
=============================================================================
