SPECIFICATION Spec
