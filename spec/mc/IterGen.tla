------------------------------- MODULE IterGen -------------------------------
(* (G) C44, the generic enumerators of src/xbt/utils/iter used by the UDPOR code: what subsets_iterator (k-subsets),   *)
(* powerset_iterator and variable_for_loop (cartesian product) must yield, each element exactly once.                  *)
(* Elements are 0..n-1; a subset is printed as a bit mask, a tuple of the product in base 8 (collections are 1..size). *)
EXTENDS Naturals, Sequences, FiniteSets, FiniteSetsExt, SequencesExt, TLC, Json

MaxElems == 6
Mask(S) == FoldSet(LAMBDA e, acc : acc + 2 ^ e, 0, S)
KSubsets(S, k) == { T \in SUBSET S : Cardinality(T) = k }
RECURSIVE Product(_)
Product(sizes) ==                    \* all tuples t with t[i] \in 1..sizes[i]
  IF Len(sizes) = 0 THEN {<<>>}
  ELSE { Append(t, x) : t \in Product(SubSeq(sizes, 1, Len(sizes) - 1)), x \in 1..sizes[Len(sizes)] }
Code(t) == FoldLeft(LAMBDA acc, x : acc * 8 + x, 0, t)

SizeVectors == UNION { [1..k -> 0..3] : k \in 1..3 }

KCases == { [enum |-> "K", n |-> n, k |-> k, sizes |-> TRUE,
             ksub |-> SetToSeq({ Mask(T) : T \in KSubsets(0..(n - 1), k) }),
             pset |-> SetToSeq({ Mask(T) : T \in SUBSET (0..(n - 1)) })] : n \in 0..MaxElems, k \in 0..(MaxElems + 1) }
FCases == { [enum |-> "F", sizes |-> sz,
             \* a product with an empty collection, or over no collection, has no element
             tuples |-> SetToSeq({ Code(t) : t \in IF \E i \in 1..Len(sz) : sz[i] = 0 THEN {} ELSE Product(sz) })]
            : sz \in SizeVectors }

VARIABLE done
Init == done = FALSE
Next == /\ ~done
        /\ \A c \in KCases : PrintT(ToJson(c))
        /\ \A c \in FCases : PrintT(ToJson(c))
        /\ done' = TRUE
Spec == Init /\ [][Next]_done
=============================================================================
