------------------------------ MODULE Unfolding ------------------------------
(* C44. The set algebra of UDPOR's unfolding (src/mc/explo/udpor: UnfoldingEvent, EventSet, History, Configuration,  *)
(* Unfolding, maximal_subsets_iterator).                                                                             *)
(*                                                                                                                    *)
(* An unfolding is a record U = [n, causes, lab, anc]: events 1..n in the order of their discovery;                  *)
(* causes[e] = the immediate causes of e (events discovered before e), lab[e] = the label of e (an index in the      *)
(* alphabet of REAL transitions built by the driver), anc[e] = the strict causal ancestors of e (history).           *)
(* The dependency between labels is DATA (LabDep, the real Transition::dispatch_depends logged by the driver).        *)
(*                                                                                                                    *)
(* Definitions (set-theoretic, from the UDPOR papers the code cites and the comments of the headers):                 *)
(*   e < f          causality: the transitive closure of "is an immediate cause of"                                   *)
(*   [e]            local configuration = {e} + history of e;  history of a set = union of the local configurations    *)
(*   e # f          conflict: some a in [e] and b in [f] are in DIRECT conflict = causally unrelated and dependent     *)
(*                  (conflict is inherited by causal successors)                                                       *)
(*   configuration  causally closed and conflict free                                                                  *)
(*   maximal events of S = the events of S with no causal successor in S; S is "maximal" iff all its events are        *)
(*   e #i f         immediate conflict: e # f and [e] + [f] without e, and without f, are configurations              *)
EXTENDS Naturals, Sequences, FiniteSets, FiniteSetsExt, TLC

Evs(U) == 1..U.n

\* ---------------------------------------------------------------------------------------------- causality
AncOf(causes, anc, K) == K \cup UNION { anc[c] : c \in K }        \* ancestors of a new event whose causes are K
Hist(U, e) == U.anc[e]
LocalConfig(U, e) == U.anc[e] \cup {e}
Closure(U, S) == S \cup UNION { U.anc[e] : e \in S }               \* History(S).get_all_events()
CausallyClosed(U, S) == \A e \in S : U.causes[e] \subseteq S
Lt(U, e, f) == e \in U.anc[f]
Related(U, e, f) == e = f \/ Lt(U, e, f) \/ Lt(U, f, e)

\* ---------------------------------------------------------------------------------------------- conflicts
DepEv(U, LabDep, e, f) == LabDep[U.lab[e]][U.lab[f]] = 1
DirectConflict(U, LabDep, e, f) == ~Related(U, e, f) /\ DepEv(U, LabDep, e, f)
Conflict(U, LabDep, e, f) ==
  \E a \in LocalConfig(U, e), b \in LocalConfig(U, f) : DirectConflict(U, LabDep, a, b)
ConflictFree(U, LabDep, S) == \A e, f \in S : ~Conflict(U, LabDep, e, f)
IsConfig(U, LabDep, S) == CausallyClosed(U, S) /\ ConflictFree(U, LabDep, S)
ImmConflict(U, LabDep, e, f) ==
  /\ Conflict(U, LabDep, e, f)
  /\ LET J == LocalConfig(U, e) \cup LocalConfig(U, f)
     IN  IsConfig(U, LabDep, J \ {e}) /\ IsConfig(U, LabDep, J \ {f})

(* Classifier of a recorded deviation (KNOWN_FINDINGS C44): the conflict has a witness pair one member of which is e *)
(* or f itself.  UnfoldingEvent::conflicts_with only looks for such witnesses, so it misses conflicts that are purely  *)
(* inherited from two strict ancestors.  Not used by any expected value.                                              *)
NearConflict(U, LabDep, e, f) ==
  \/ \E a \in LocalConfig(U, e) : DirectConflict(U, LabDep, a, f)
  \/ \E b \in LocalConfig(U, f) : DirectConflict(U, LabDep, e, b)

\* ---------------------------------------------------------------------------------------------- maximality
MaxEvents(U, S) == { e \in S : \A f \in S : ~Lt(U, e, f) }
IsMaximalSet(U, S) == MaxEvents(U, S) = S
\* what maximal_subsets_iterator must yield, each exactly once: the subsets of S (inside the filter F, of at most k
\* events) no event of which causes another one -- the empty set included
MaximalSubsets(U, S, F, k) == { T \in SUBSET (S \cap F) : Cardinality(T) <= k /\ IsMaximalSet(U, T) }

\* ---------------------------------------------------------------------------------------------- configurations
\* Configuration::add_event(e) on the configuration C: "ok" (and the new set of events) or an exception
AddEventOK(U, LabDep, C, e) ==
  \/ e \in C
  \/ /\ \A c \in C : ~Conflict(U, LabDep, e, c)
     /\ Hist(U, e) \subseteq C
CompatibleWithEvent(U, LabDep, C, e) == IsConfig(U, LabDep, C \cup {e})
CompatibleWithHistory(U, LabDep, C, S) == IsConfig(U, LabDep, C \cup Closure(U, S))
LatestOf(U, LabActor, C, a) ==      \* the event of actor a in the configuration C with no later event of a in C (0: none)
  LET Ea == { e \in C : LabActor[U.lab[e]] = a }
  IN  IF Ea = {} THEN 0 ELSE CHOOSE e \in Ea : \A f \in Ea : ~Lt(U, e, f)

\* ---------------------------------------------------------------------------------------------- valid unfoldings
(* An event <t, H> of the unfolding: H (the closure of its immediate causes K) is a configuration, K is exactly the  *)
(* set of maximal events of H, t depends on every event of K, and no other event of the same actor has the same       *)
(* causes (one actor has one next step after a given history).                                                         *)
CanAdd(U, LabDep, LabActor, K, l) ==
  LET H == Closure(U, K) IN
  /\ IsMaximalSet(U, K)
  /\ \A c \in K : LabDep[l][U.lab[c]] = 1
  /\ \A e \in Evs(U) : ~(U.causes[e] = K /\ LabActor[U.lab[e]] = LabActor[l])
  /\ ConflictFree(U, LabDep, H)
Extend(U, K, l) == [n |-> U.n + 1, causes |-> Append(U.causes, K), lab |-> Append(U.lab, l),
                    anc |-> Append(U.anc, AncOf(U.causes, U.anc, K))]
Empty == [n |-> 0, causes |-> <<>>, lab |-> <<>>, anc |-> <<>>]

\* ---------------------------------------------------------------------------------------------- lemmas (UnfoldingGen checks them)
LemmaClosure(U) == \A S \in SUBSET Evs(U) : CausallyClosed(U, S) <=> (Closure(U, S) = S)
LemmaConflictSym(U, LabDep) == \A e, f \in Evs(U) : Conflict(U, LabDep, e, f) <=> Conflict(U, LabDep, f, e)
\* on causally closed sets the weaker "near" relation decides conflict-freedom exactly (why the deviation of
\* conflicts_with does not reach is_valid_configuration)
LemmaNearOnClosed(U, LabDep) ==
  \A S \in SUBSET Evs(U) : CausallyClosed(U, S) =>
      (ConflictFree(U, LabDep, S) <=> \A e, f \in S : ~NearConflict(U, LabDep, e, f))
LemmaMaxGenerates(U, LabDep) ==     \* the maximal events of a configuration generate it
  \A S \in SUBSET Evs(U) : IsConfig(U, LabDep, S) => Closure(U, MaxEvents(U, S)) = S
LemmaLatestUnique(U, LabDep, LabActor) ==
  \A S \in SUBSET Evs(U) : IsConfig(U, LabDep, S) =>
      \A e, f \in S : (LabActor[U.lab[e]] = LabActor[U.lab[f]]) => Related(U, e, f)
=============================================================================
