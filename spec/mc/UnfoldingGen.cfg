SPECIFICATION Spec
INVARIANTS Emit Lemmas
