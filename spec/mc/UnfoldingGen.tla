----------------------------- MODULE UnfoldingGen -----------------------------
(* (G) C44: TLC generates valid unfoldings over an alphabet of real transitions and prints, for each of them, the     *)
(* "answer sheet" that the definitions of Unfolding.tla give: per event (history, local configuration, conflicts,     *)
(* immediate conflicts), per subset of events (closure, maximal events, is-maximal, conflict-free, configuration, the  *)
(* maximal subsets the iterator must enumerate, latest event per actor, add_event outcomes, compatibility) and per     *)
(* pair of subsets (union, difference, intersection, inclusion, compatibility with a history).  The driver             *)
(* udpor_unit_driver builds the same unfolding with the real classes and prints its own sheet; Python compares.        *)
(*                                                                                                                      *)
(* PARAMS (environment) = JSON file: labdep (the REAL dependency matrix of the alphabet, logged by the driver),         *)
(* labactor, maxn, mode ("exh": BFS over every valid unfolding of <= maxn events up to reordering; "sample": random     *)
(* unfoldings for -simulate), fullupto (all 2^n subsets examined when n <= fullupto), nsub, npairs, emitfrom, fmask    *)
(* (filter of the filtered iteration), slicefrom/slices/slice (see Selected), lemmaupto (see Lemmas).                  *)
(* Sets of events are printed as bit masks (event i = bit i-1).                                                          *)
EXTENDS Unfolding, SequencesExt, Json, IOUtils, Randomization

Params   == JsonDeserialize(IOEnv.PARAMS)
LabDep   == Params.labdep
LabActor == Params.labactor
Labels   == 1..Len(LabDep)
MaxN     == Params.maxn
MaxActor == Max({ LabActor[l] : l \in Labels })

VARIABLE u
vars == <<u>>

Init == u = Empty

\* exhaustive mode: each labelled causal structure is reached by at least one sequence in which two consecutive,
\* causally unrelated events carry non-decreasing labels (the other orders of discovery give the same structure)
Canonical(K, l) == IF u.n = 0 THEN TRUE ELSE IF u.n \in Closure(u, K) THEN TRUE ELSE l >= u.lab[u.n]

\* k random subsets of S of about avg elements (every subset when S is small)
RSub(k, avg, S) == IF 2 ^ Cardinality(S) <= k + 1 THEN SUBSET S ELSE RandomSetOfSubsets(k, avg, S)

Cands == IF Params.mode = "exh" THEN SUBSET Evs(u)
         ELSE { MaxEvents(u, R) : R \in RSub(5, 2, Evs(u)) \cup {{}} }

Add == /\ u.n < MaxN
       /\ \E K \in Cands, l \in Labels :
            /\ Params.mode = "exh" => Canonical(K, l)
            /\ CanAdd(u, LabDep, LabActor, K, l)
            /\ u' = Extend(u, K, l)
Next == Add
Spec == Init /\ [][Next]_vars

\* ------------------------------------------------------------------------------------------------ answer sheets
Mask(S) == FoldSet(LAMBDA e, acc : acc + 2 ^ (e - 1), 0, S)
SetOfMask(m) == { e \in Evs(u) : (m \div (2 ^ (e - 1))) % 2 = 1 }
SetSeq(S) == SetToSeq(S)                                      \* a set as a JSON array (order irrelevant)

EventSheet(e) ==
  [h   |-> Mask(Hist(u, e)),
   lc  |-> Mask(LocalConfig(u, e)),
   ic  |-> Mask(u.causes[e]),
   inh |-> Mask({ f \in Evs(u) : f \in LocalConfig(u, e) }),                  \* f.in_history_of(e)
   rel |-> Mask({ f \in Evs(u) : Related(u, e, f) }),
   cf  |-> Mask({ f \in Evs(u) : Conflict(u, LabDep, e, f) }),
   near |-> Mask({ f \in Evs(u) : NearConflict(u, LabDep, e, f) }),            \* classifier only (known finding)
   icf |-> Mask({ f \in Evs(u) : ImmConflict(u, LabDep, e, f) }),
   dep |-> Mask({ f \in Evs(u) : DepEv(u, LabDep, e, f) }),
   actor |-> LabActor[u.lab[e]]]

Filter == SetOfMask(Params.fmask % (2 ^ u.n))

SubsetSheet(S) ==
  LET cfg == IsConfig(u, LabDep, S)
      base == [s    |-> Mask(S),
               cl   |-> Mask(Closure(u, S)),
               mx   |-> Mask(MaxEvents(u, S)),
               lms  |-> Mask(MaxEvents(u, S)),
               lc   |-> Mask(Closure(u, S)),
               ismx |-> IsMaximalSet(u, S),
               cc   |-> CausallyClosed(u, S),
               cf   |-> ConflictFree(u, LabDep, S),
               cfnear |-> \A e, f \in S : ~NearConflict(u, LabDep, e, f),          \* classifier only
               cfg  |-> cfg,
               hit  |-> Mask(Closure(u, S)),
               hitonce |-> TRUE,
               ctor |-> cfg,
               anti  |-> SetSeq({ Mask(T) : T \in MaximalSubsets(u, S, Evs(u), u.n) }),
               anti2 |-> SetSeq({ Mask(T) : T \in MaximalSubsets(u, S, Evs(u), 2) }),
               antif |-> SetSeq({ Mask(T) : T \in MaximalSubsets(u, S, Filter, u.n) })]
  IN  IF ~cfg THEN base
      ELSE base @@
           [latest |-> [a \in 1..MaxActor |-> LatestOf(u, LabActor, S, a)],
            minrep |-> Mask(MaxEvents(u, S)),
            add    |-> [e \in Evs(u) |-> IF AddEventOK(u, LabDep, S, e) THEN Mask(S \cup {e}) ELSE 0 - 1],
            compat |-> Mask({ e \in Evs(u) : CompatibleWithEvent(u, LabDep, S, e) })]

PairSheet(A, B) ==
  LET base == [a   |-> Mask(A), b |-> Mask(B),
               un  |-> Mask(A \cup B), di |-> Mask(A \ B), ix |-> Mask(A \cap B),
               un2 |-> Mask(A \cup B), di2 |-> Mask(A \ B),
               ss  |-> A \subseteq B,
               ints |-> A \cap B # {},
               eq  |-> A = B,
               hc  |-> Closure(u, B) \subseteq A,
               hi  |-> Closure(u, B) \cap A # {}]
  IN  IF ~IsConfig(u, LabDep, A) THEN base
      ELSE base @@ [ch |-> CompatibleWithHistory(u, LabDep, A, B),
                    dw |-> Mask(Closure(u, B) \ A)]

AllSubsets == [i \in 1..(2 ^ u.n) |-> SetOfMask(i - 1)]
SampledSubsets ==
  LET R  == RSub(Params.nsub, (u.n + 1) \div 2, Evs(u))
      Cl == { Closure(u, S) : S \in RSub(Params.nsub, 2, Evs(u)) }       \* causally closed ones
  IN  SetToSeq(R \cup Cl \cup {{}, Evs(u)})

CaseSheet ==
  LET subs  == IF u.n <= Params.fullupto THEN AllSubsets ELSE SampledSubsets
      k     == Len(subs)
      npair == IF u.n <= 3 THEN k * k ELSE Params.npairs
      pairs == IF u.n <= 3 THEN [i \in 1..(k * k) |-> <<subs[((i - 1) \div k) + 1], subs[((i - 1) % k) + 1]>>]
               ELSE [i \in 1..npair |-> <<subs[RandomElement(1..k)], subs[RandomElement(1..k)]>>]
  IN  [n     |-> u.n,
       events |-> [e \in Evs(u) |-> [l |-> u.lab[e], c |-> SetSeq(u.causes[e])]],
       fmask |-> Params.fmask % (2 ^ u.n),
       ev    |-> [e \in Evs(u) |-> EventSheet(e)],
       usize |-> u.n,
       uic   |-> [e \in Evs(u) |-> Mask({ f \in Evs(u) : ImmConflict(u, LabDep, e, f) })],
       redisc |-> [e \in Evs(u) |-> e],
       usize2 |-> u.n,
       sub   |-> [i \in 1..k |-> SubsetSheet(subs[i])],
       pairs |-> [i \in 1..npair |-> PairSheet(pairs[i][1], pairs[i][2])]]

\* quick tier: the unfoldings of the largest size are split in Params.slices slices, one of which is emitted
SliceKey == FoldSet(LAMBDA e, acc : acc + u.lab[e] * e + Mask(u.causes[e]), 0, Evs(u))
Selected == IF Params.mode = "exh"
            THEN (u.n >= Params.slicefrom => SliceKey % Params.slices = Params.slice)
            ELSE (u.n % 3 = 0 \/ u.n = MaxN)
Emit == (u.n >= Params.emitfrom /\ Selected) => PrintT(ToJson(CaseSheet))

\* lemmas about the definitions, checked on every generated unfolding of at most Params.lemmaupto events
Lemmas == u.n <= Params.lemmaupto =>
  /\ LemmaClosure(u)
  /\ LemmaConflictSym(u, LabDep)
  /\ LemmaNearOnClosed(u, LabDep)
  /\ LemmaMaxGenerates(u, LabDep)
  /\ LemmaLatestUnique(u, LabDep, LabActor)
=============================================================================
