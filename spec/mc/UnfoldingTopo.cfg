SPECIFICATION Spec
INVARIANT Report
