---------------------------- MODULE UnfoldingTopo ----------------------------
(* (T) C44: the topological orders returned by EventSet::get_topological_ordering (and ..._of_reverse_graph) are not   *)
(* unique, so they are validated here instead of being compared with one expected value: the answer must list every    *)
(* event of the set exactly once, causes before effects (resp. effects before causes).                                  *)
(* TOPO (environment) = ndjson, one unfolding per line: [id, n, causes: array of arrays, checks: array of                *)
(* [s: array of the events of the set, topo: array, rtopo: array]].                                                      *)
EXTENDS Naturals, Sequences, FiniteSets, TLC, Json, IOUtils

Cases == ndJsonDeserialize(IOEnv.TOPO)
ToSet(s) == { s[i] : i \in 1..Len(s) }

VARIABLES c, anc, k
vars == <<c, anc, k>>
\* anc is built event by event (the causes of an event were discovered before it)
Init == c \in ToSet(Cases) /\ anc = <<>> /\ k = 0
Grow == /\ k < c.n
        /\ LET K == ToSet(c.causes[k + 1]) IN anc' = Append(anc, K \cup UNION { anc[x] : x \in K })
        /\ k' = k + 1 /\ c' = c
Next == Grow
Spec == Init /\ [][Next]_vars

IsTopo(order, S) ==
  /\ ToSet(order) = S /\ Len(order) = Cardinality(S)
  /\ \A i, j \in 1..Len(order) : order[i] \in anc[order[j]] => i < j
Rev(s) == [i \in 1..Len(s) |-> s[Len(s) + 1 - i]]

Report == (k = c.n) =>
  \A i \in 1..Len(c.checks) :
     LET ch == c.checks[i] IN
     /\ IsTopo(ch.topo, ToSet(ch.s)) \/ PrintT(<<"MISMATCH", c.id, "topo", ch.s, ch.topo>>)
     /\ IsTopo(Rev(ch.rtopo), ToSet(ch.s)) \/ PrintT(<<"MISMATCH", c.id, "rtopo", ch.s, ch.rtopo>>)
=============================================================================
