\* MpiCart is a module of definitions; it is exercised through MpiCartGen (MpiCartGen_small.cfg / MpiCartGen_sim.cfg)
\* and MpiCartVal (validation of MPI_Dims_create results)
