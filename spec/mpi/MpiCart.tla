------------------------------- MODULE MpiCart -------------------------------
(* Cartesian process topologies (MPI-3.1 section 7.5) as values.                                                  *)
(* A grid is a sequence d of dimension sizes (each >= 1) and a sequence per of booleans (periodicity); positions   *)
(* in d are 1-based here, MPI directions are 0-based (direction k of MPI = position k+1).                          *)
(*   Coords / RankOfCoords : the row-major bijection between ranks 0..Prod(d)-1 and coordinate vectors             *)
(*   CartRank              : MPI_Cart_rank, out-of-range coordinates wrapped on periodic dimensions                *)
(*   Shift                 : MPI_Cart_shift (source and destination, ProcNull off a non-periodic edge)             *)
(*   DimsCreatePost / DimsCreateMustFail : post-condition of MPI_Dims_create                                       *)
(*   Sub*                  : MPI_Cart_sub (kept dimensions, the sub-grid of each process, its rank and coordinates)*)
EXTENDS Naturals, Integers, Sequences, FiniteSets

ProcNull == -902

RECURSIVE ProdFrom(_, _)
ProdFrom(d, i) == IF i > Len(d) THEN 1 ELSE d[i] * ProdFrom(d, i + 1)   \* d[i] * ... * d[Len(d)]
Prod(d)      == ProdFrom(d, 1)
Weight(d, i) == ProdFrom(d, i + 1)                             \* row-major weight of position i: the dimensions after i
IsGrid(d)    == \A i \in DOMAIN d : d[i] >= 1
Coords(d, r) == [i \in DOMAIN d |-> (r \div Weight(d, i)) % d[i]]
InRange(d, c) == \A i \in DOMAIN d : c[i] \in 0..(d[i] - 1)
RECURSIVE RankFrom(_, _, _)
RankFrom(d, c, i) == IF i > Len(d) THEN 0 ELSE c[i] * Weight(d, i) + RankFrom(d, c, i + 1)
RankOfCoords(d, c) == RankFrom(d, c, 1)

\* wrap-around: % is the mathematical modulus (result in 0..d[i]-1 for negative coordinates as well)
Wrap(d, per, c) == [i \in DOMAIN d |-> IF per[i] THEN c[i] % d[i] ELSE c[i]]
Acceptable(d, per, c) == InRange(d, Wrap(d, per, c))           \* otherwise MPI_Cart_rank is erroneous
CartRank(d, per, c) == RankOfCoords(d, Wrap(d, per, c))

\* MPI_Cart_shift seen from rank r, position dir (1-based), displacement disp
Moved(d, per, r, dir, k) ==
  LET c == Coords(d, r)  t == c[dir] + k IN
  IF per[dir] THEN RankOfCoords(d, [c EXCEPT ![dir] = t % d[dir]])
  ELSE IF t \in 0..(d[dir] - 1) THEN RankOfCoords(d, [c EXCEPT ![dir] = t]) ELSE ProcNull
Shift(d, per, r, dir, disp) == [src |-> Moved(d, per, r, dir, 0 - disp), dst |-> Moved(d, per, r, dir, disp)]
\* the same with the weights w = Weights(d) and the coordinates cr = Coords(d, r) computed once (used by the case
\* generator on large grids; GridLaws states that it is the same function)
Weights(d) == [i \in DOMAIN d |-> Weight(d, i)]
MovedW(d, per, w, cr, r, dir, k) ==
  LET t == cr[dir] + k IN
  IF per[dir] THEN r + ((t % d[dir]) - cr[dir]) * w[dir]
  ELSE IF t \in 0..(d[dir] - 1) THEN r + k * w[dir] ELSE ProcNull

\* MPI_Dims_create(nnodes, Len(given), given -> res): 0 entries of given are free
GivenProd(given) == Prod([i \in DOMAIN given |-> IF given[i] = 0 THEN 1 ELSE given[i]])
\* no result can satisfy the post-condition: a negative entry, nnodes not a multiple of the product of the given entries
\* ("an error will occur if nnodes is not a multiple of the product of the non-zero dims[i]"), or no free entry is left
\* to absorb the remaining factor
DimsCreateMustFail(nnodes, given) ==
  \/ \E i \in DOMAIN given : given[i] < 0
  \/ nnodes % GivenProd(given) # 0
  \/ (\A i \in DOMAIN given : given[i] # 0) /\ GivenProd(given) # nnodes
DimsCreatePost(nnodes, given, res) ==
  /\ Len(res) = Len(given)
  /\ \A i \in DOMAIN res : res[i] >= 1
  /\ \A i \in DOMAIN given : given[i] # 0 => res[i] = given[i]
  /\ Prod(res) = nnodes
\* stated by MPI as well (not part of property C33, reported as information): the entries set by the call are non-increasing
DimsCreateOrdered(given, res) ==
  \A i, j \in DOMAIN given : (i < j /\ given[i] = 0 /\ given[j] = 0) => res[i] >= res[j]

\* MPI_Cart_sub: remain is a sequence of booleans
KeptPos(remain) == { i \in DOMAIN remain : remain[i] }
Keep(s, remain) == LET F[k \in 0..Len(s)] == IF k = 0 THEN <<>> ELSE IF remain[k] THEN Append(F[k - 1], s[k]) ELSE F[k - 1]
                   IN F[Len(s)]
SubDims(d, remain) == Keep(d, remain)
SubPer(per, remain) == Keep(per, remain)
\* the processes of the sub-grid containing r: same coordinates on the dropped dimensions; their rank in the new
\* communicator is the row-major rank of their kept coordinates (the new communicator is a Cartesian grid)
SameSlice(d, remain, r, q) == \A i \in DOMAIN d : ~remain[i] => Coords(d, r)[i] = Coords(d, q)[i]
SubCoords(d, remain, r) == Keep(Coords(d, r), remain)
SubRank(d, remain, r)   == RankOfCoords(SubDims(d, remain), SubCoords(d, remain, r))
SubMembers(d, remain, r) ==     \* old ranks, in the order of their new ranks
  LET sd == SubDims(d, remain) IN
  [k \in 1..Prod(sd) |-> CHOOSE q \in 0..(Prod(d) - 1) : SameSlice(d, remain, r, q) /\ SubRank(d, remain, q) = k - 1]

\* ------------------------------------------------------------------ laws (checked by TLC on every generated grid)
GridLaws(d, per) ==
  LET n == Prod(d) IN
  /\ \A r \in 0..(n - 1) : InRange(d, Coords(d, r)) /\ RankOfCoords(d, Coords(d, r)) = r
  /\ \A r, q \in 0..(n - 1) : r # q => Coords(d, r) # Coords(d, q)
  /\ \A r \in 0..(n - 1) : \A dir \in DOMAIN d :
        /\ Shift(d, per, r, dir, 0) = [src |-> r, dst |-> r]
        /\ \A k \in (0 - 2 * d[dir])..(2 * d[dir]) : MovedW(d, per, Weights(d), Coords(d, r), r, dir, k) = Moved(d, per, r, dir, k)
        /\ \A k \in 1..d[dir] : LET s == Shift(d, per, r, dir, k) IN
              /\ (s.dst # ProcNull => Shift(d, per, s.dst, dir, k).src = r)
              /\ (s.src # ProcNull => Shift(d, per, s.src, dir, k).dst = r)
              /\ (per[dir] => s.dst # ProcNull /\ s.src # ProcNull)
SubLaws(d, remain) ==
  LET n == Prod(d) IN
  /\ \A r \in 0..(n - 1) : LET m == SubMembers(d, remain, r) IN
        /\ m[SubRank(d, remain, r) + 1] = r
        /\ \A k \in DOMAIN m : SubMembers(d, remain, m[k]) = m
        /\ Len(m) = Prod(SubDims(d, remain))
  /\ Prod(SubDims(d, remain)) * Cardinality({ SubMembers(d, remain, r) : r \in 0..(n - 1) }) = n
=============================================================================
