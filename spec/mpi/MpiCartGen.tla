----------------------------- MODULE MpiCartGen -----------------------------
(* Case generator for C33 (shape G).  SpecSmall: every grid with at most MaxDims dimensions and MaxNodes nodes     *)
(* (x every periodicity pattern when AllPer), every Dims_create input with nnodes <= MaxNodes, every remain vector. *)
(* SpecSim: seeded sample of the same space.  Each case is printed with the results MpiCart defines:               *)
(*   cart: coordinates of every rank, Cart_rank of probe coordinates (in range and wrapped), Cart_shift of every    *)
(*         rank x direction x displacement in [-2*dim, 2*dim]                                                       *)
(*   sub : for every rank the kept dims/periods, members, new rank and coordinates, and the shifts inside the sub-grid*)
(*   dims: whether the call must fail (the result is validated by MpiCartVal, it is not unique)                     *)
EXTENDS MpiCart, TLC, Json, Randomization

CONSTANTS MaxDims, MinNodes, MaxNodes, AllPer, LawMax, Kinds, NSlices, Slice, Extra    \* Extra: number of ranks beyond the grid (they get MPI_COMM_NULL)
VARIABLES i, c
vars == <<i, c>>

RECURSIVE Grids(_, _)       \* all sequences of k sizes >= 1 with product <= m
Grids(k, m) == IF k = 0 THEN {<<>>}
               ELSE UNION { { <<a>> \o g : g \in Grids(k - 1, m \div a) } : a \in 1..m }
\* the grids of this run: MinNodes..MaxNodes nodes, one slice out of NSlices (the slices run as parallel TLC processes)
RECURSIVE WSum(_, _)
WSum(d, k) == IF k > Len(d) THEN 0 ELSE (k + 1) * d[k] + WSum(d, k + 1)
AllGrids == { d \in UNION { Grids(k, MaxNodes) : k \in 1..MaxDims } : Prod(d) >= MinNodes /\ (WSum(d, 1) + Len(d)) % NSlices = Slice }
B2I(b) == IF b THEN 1 ELSE 0
Bits(s) == [k \in DOMAIN s |-> B2I(s[k])]
Bools(k) == [1..k -> BOOLEAN]

Disps(dim) == [k \in 1..(4 * dim + 1) |-> k - 1 - 2 * dim]
\* probes for MPI_Cart_rank: the coordinates of every rank, and each of them moved by -2, -1, 1 or 2 periods on each
\* periodic position (the number of periods varies with the rank and the position)
Probes(d, per) ==
  LET n == Prod(d)
      pp == SelectSeq([q \in DOMAIN d |-> q], LAMBDA q : per[q])
      base == [r \in 1..n |-> Coords(d, r - 1)]
      mv(r, j) == LET p == pp[j]  m == <<-2, -1, 1, 2>>[((r + j) % 4) + 1] IN [base[r] EXCEPT ![p] = @ + m * d[p]]
  IN base \o [t \in 1..(n * Len(pp)) |-> mv(((t - 1) \div Len(pp)) + 1, ((t - 1) % Len(pp)) + 1)]

EvalCart(x) ==
  LET d == x.d  per == x.per  n == Prod(d)  pr == TLCEval(Probes(d, per))
      w == TLCEval(Weights(d))  co == TLCEval([r \in 1..n |-> Coords(d, r - 1)]) IN
  [k |-> "cart", d |-> d, p |-> Bits(per), np |-> n + x.extra,
   coords |-> co,
   probes |-> pr, prank |-> [j \in DOMAIN pr |-> CartRank(d, per, pr[j])],
   shift |-> [r \in 1..n |-> [dir \in DOMAIN d |-> [j \in 1..(4 * d[dir] + 1) |->
                 LET k == j - 1 - 2 * d[dir] IN
                 << MovedW(d, per, w, co[r], r - 1, dir, 0 - k), MovedW(d, per, w, co[r], r - 1, dir, k) >>]]]]
EvalSub(x) ==
  LET d == x.d  per == x.per  rem == x.rem  n == Prod(d)  sd == SubDims(d, rem)  sp == SubPer(per, rem)  m == Prod(sd)
      drop == [q \in DOMAIN rem |-> ~rem[q]]
      co == TLCEval([r \in 1..n |-> Coords(d, r - 1)])
      sk == TLCEval([r \in 1..n |-> Keep(co[r], drop)])                     \* the slice of r = its dropped coordinates
      sr == TLCEval([r \in 1..n |-> RankOfCoords(sd, Keep(co[r], rem))])     \* = SubRank(d, rem, r - 1)
      slices == { sk[r] : r \in 1..n }
      memOf == TLCEval([s \in slices |-> [j \in 1..m |-> (CHOOSE r \in 1..n : sk[r] = s /\ sr[r] = j - 1) - 1]])
      sw == TLCEval(Weights(sd))  sco == TLCEval([q \in 1..m |-> Coords(sd, q - 1)]) IN
  [k |-> "sub", d |-> d, p |-> Bits(per), rem |-> Bits(rem), np |-> n, sd |-> sd, sp |-> Bits(sp),
   mem |-> [r \in 1..n |-> memOf[sk[r]]],
   rk |-> sr,
   co |-> [r \in 1..n |-> Keep(co[r], rem)],
   allco |-> sco,
   shift |-> [r \in 1..n |-> [dir \in DOMAIN sd |-> [j \in 1..3 |->
                 LET k == <<-1, 1, 2>>[j] IN
                 << MovedW(sd, sp, sw, sco[sr[r] + 1], sr[r], dir, 0 - k), MovedW(sd, sp, sw, sco[sr[r] + 1], sr[r], dir, k) >>]]]]
EvalDims(x) == [k |-> "dims", nn |-> x.nn, given |-> x.given, mustfail |-> DimsCreateMustFail(x.nn, x.given)]
Eval(x) == CASE x.k = "cart" -> EvalCart(x) [] x.k = "sub" -> EvalSub(x) [] x.k = "dims" -> EvalDims(x) [] OTHER -> x

\* the laws are quadratic in the number of nodes: evaluated on the grids of at most LawMax nodes
SubEvalLaw(x) == LET e == EvalSub(x) IN \A r \in 1..Prod(x.d) :
                    /\ e.mem[r] = SubMembers(x.d, x.rem, r - 1) /\ e.rk[r] = SubRank(x.d, x.rem, r - 1)
                    /\ e.co[r] = SubCoords(x.d, x.rem, r - 1)
Lawful(x) == CASE x.k = "cart" -> IsGrid(x.d) /\ (Prod(x.d) <= LawMax => GridLaws(x.d, x.per))
               [] x.k = "sub" -> IsGrid(x.d) /\ (Prod(x.d) <= LawMax => SubLaws(x.d, x.rem) /\ SubEvalLaw(x))
               [] OTHER -> TRUE

\* ------------------------------------------------------------------ small scope
Pers(d) == IF AllPer THEN Bools(Len(d)) ELSE { [k \in DOMAIN d |-> FALSE], [k \in DOMAIN d |-> TRUE], [k \in DOMAIN d |-> k % 2 = 1] }
Givens(k, m) == [1..k -> 0..m]
SmallCase(x) ==
  \/ "cart" \in Kinds /\ \E d \in AllGrids : \E per \in Pers(d) : x = [k |-> "cart", d |-> d, per |-> per, extra |-> IF Prod(d) % 3 = 1 THEN Extra ELSE 0]
  \/ "sub" \in Kinds /\ \E d \in AllGrids : \E rem \in Bools(Len(d)) : x = [k |-> "sub", d |-> d, per |-> [k \in DOMAIN d |-> k % 2 = 0], rem |-> rem]
  \/ "dims" \in Kinds /\ \E nn \in { m \in MinNodes..MaxNodes : m % NSlices = Slice } : \E k \in 1..MaxDims : \E gv \in Givens(k, IF nn < 6 THEN nn + 1 ELSE 6) : x = [k |-> "dims", nn |-> nn, given |-> gv]
InitSmall == i = 0 /\ SmallCase(c)
SpecSmall == InitSmall /\ [][FALSE]_vars

\* ------------------------------------------------------------------ sampling
RECURSIVE RandGrid(_, _)
RandGrid(k, m) == IF k = 0 THEN <<>> ELSE LET a == RandomElement(1..(IF m > 8 /\ k > 1 THEN 8 ELSE m)) IN <<a>> \o RandGrid(k - 1, m \div a)
RECURSIVE RandBools(_)
RandBools(k) == IF k = 0 THEN <<>> ELSE <<RandomElement(BOOLEAN)>> \o RandBools(k - 1)
RECURSIVE RandGiven(_, _)
Divisors(nn) == { a \in 1..nn : nn % a = 0 }
RandGiven(k, nn) == IF k = 0 THEN <<>>
                    ELSE LET pick == RandomElement(1..10)
                             e == IF pick <= 4 THEN 0 ELSE IF pick <= 8 THEN RandomElement(Divisors(nn)) ELSE RandomElement(1..(nn + 1))
                         IN <<e>> \o RandGiven(k - 1, nn)
RandCase(j) ==
  LET kd == RandomElement(1..MaxDims)  d == TLCEval(RandGrid(kd, MaxNodes))
      kind == IF Kinds = {"dims"} THEN 2 ELSE IF "dims" \in Kinds THEN j % 3 ELSE j % 2 IN
  CASE kind = 0 -> [k |-> "cart", d |-> d, per |-> TLCEval(RandBools(kd)), extra |-> RandomElement({0, 0, Extra})]
    [] kind = 1 -> [k |-> "sub", d |-> d, per |-> TLCEval(RandBools(kd)), rem |-> TLCEval(RandBools(kd))]
    [] OTHER -> LET nn == RandomElement(1..MaxNodes) IN [k |-> "dims", nn |-> nn, given |-> TLCEval(RandGiven(kd, nn))]
InitSim == i = 0 /\ c = [k |-> "none"]
NextSim == i' = i + 1 /\ c' = TLCEval(RandCase(i'))
SpecSim == InitSim /\ [][NextSim]_vars

Laws == Lawful(c)
Out  == c.k # "none" => PrintT(<<"CASE", ToJson(Eval(c))>>)
=============================================================================
