SPECIFICATION SpecSmall
CONSTANTS MaxDims = 3
          MinNodes = 1
          Kinds = {"cart", "sub", "dims"}
          NSlices = 1
          Slice = 0
          MaxNodes = 8
          AllPer = TRUE
          LawMax = 6
          Extra = 1
INVARIANT Laws
INVARIANT Out
