SPECIFICATION Spec
INVARIANT Agree
INVARIANT Out
