----------------------------- MODULE MpiCartVal -----------------------------
(* Validation of MPI_Dims_create results (the result is not unique, so the specification judges what the          *)
(* implementation returned instead of predicting it).  RESULTS (environment) names a JSON file holding a list of   *)
(* records [id, nn, given, e (0 = success), res]; one VERDICT line is printed per record.                           *)
EXTENDS MpiCart, TLC, Json, IOUtils

R == JsonDeserialize(IOEnv.RESULTS)
VARIABLE j
Init == j \in 1..Len(R)
Spec == Init /\ [][FALSE]_j

Verdict(x) ==
  LET mf == DimsCreateMustFail(x.nn, x.given)
      why == IF mf THEN (IF x.e # 0 THEN "ok" ELSE "accepted-impossible")
             ELSE IF x.e # 0 THEN "rejected-feasible"
             ELSE IF Len(x.res) # Len(x.given) \/ \E q \in DOMAIN x.res : x.res[q] < 1 THEN "nonpositive"
             ELSE IF \E q \in DOMAIN x.given : x.given[q] # 0 /\ x.res[q] # x.given[q] THEN "given-changed"
             ELSE IF Prod(x.res) # x.nn THEN "product"
             ELSE "ok"
  IN [id |-> x.id, why |-> why, mustfail |-> mf,
      post |-> (~mf /\ x.e = 0) => DimsCreatePost(x.nn, x.given, x.res),
      ordered |-> (~mf /\ x.e = 0 /\ why = "ok") => DimsCreateOrdered(x.given, x.res)]
\* the classification above and the post-condition of MpiCart agree
Agree == LET v == Verdict(R[j]) IN (v.why = "ok") = ((v.mustfail /\ R[j].e # 0) \/ (~v.mustfail /\ R[j].e = 0 /\ v.post))
Out == PrintT(<<"VERDICT", ToJson(Verdict(R[j]))>>)
=============================================================================
