SPECIFICATION Spec
