------------------------------- MODULE MpiColl -------------------------------
(* The result of every MPI collective as a function of its inputs (MPI-3.1 chapter 5): the sequential reference.   *)
(* It says nothing about message schedules (that is MpiP2P's layer): whatever algorithm an implementation selects, *)
(* the buffers it leaves on every rank must be the ones computed here.                                              *)
(*                                                                                                                *)
(* A case (JSON, CASES = list of them):                                                                             *)
(*   coll   bcast reduce allreduce gather gatherv scatter scatterv allgather allgatherv alltoall alltoallv          *)
(*          reduce_scatter scan exscan barrier                                                                      *)
(*   np, root (0-based), op (SUM PROD MAX MIN BXOR), count, fill (content of every receive buffer before the call)  *)
(*   send[r+1]  = send buffer of rank r (bcast: the in/out buffer)                                                   *)
(*   rlen[r+1]  = length of the receive buffer of rank r                                                             *)
(*   sc, sd, rc, rd [r+1] = send counts / send displacements / receive counts / receive displacements of rank r       *)
(*                (v-variants and reduce_scatter; empty lists otherwise)                                            *)
(* Expected(c)[r+1] = receive buffer of rank r after the call; UNDEF marks elements MPI leaves undefined (receive    *)
(* buffer of a non-root rank, rank 0 of exscan): they are not compared.  Elements no rule writes keep `fill`.        *)
EXTENDS Integers, Sequences, FiniteSets, TLC, Json, IOUtils, Bitwise

UNDEF == -999999

Max2(a, b) == IF a >= b THEN a ELSE b
Min2(a, b) == IF a <= b THEN a ELSE b
Apply(op, a, b) ==
  CASE op = "SUM"  -> a + b
    [] op = "PROD" -> a * b
    [] op = "MAX"  -> Max2(a, b)
    [] op = "MIN"  -> Min2(a, b)
    [] op = "BXOR" -> a ^^ b                   \* inputs are non-negative for BXOR

\* reduction over ranks lo..hi (0-based, lo <= hi) of element i of their send buffers, in rank order
RECURSIVE RedElem(_, _, _, _, _)
RedElem(c, op, lo, hi, i) ==
  IF lo = hi THEN c.send[lo + 1][i] ELSE Apply(op, RedElem(c, op, lo, hi - 1, i), c.send[hi + 1][i])
RedVec(c, lo, hi, n) == [i \in 1..n |-> RedElem(c, c.op, lo, hi, i)]

Filled(c, r)  == [i \in 1..c.rlen[r + 1] |-> c.fill]
Undef(c, r)   == [i \in 1..c.rlen[r + 1] |-> UNDEF]
Ranks(c)      == 0..(c.np - 1)

\* the buffer `buf` after the blocks blk[q+1] (q = 0..np-1) have been stored at displacements dsp[q+1]
RECURSIVE Store(_, _, _, _)
Store(buf, blk, dsp, q) ==
  IF q = 0 THEN buf
  ELSE LET b == Store(buf, blk, dsp, q - 1)   x == blk[q]   d == dsp[q] IN
       [i \in 1..Len(b) |-> IF i > d /\ i <= d + Len(x) THEN x[i - d] ELSE b[i]]
Block(s, d, n) == SubSeq(s, d + 1, d + n)
RegularDispls(c) == [q \in 1..c.np |-> (q - 1) * c.count]
RECURSIVE SumTo(_, _)
SumTo(s, q) == IF q = 0 THEN 0 ELSE SumTo(s, q - 1) + s[q]

Expected(c) ==
  LET n == c.np   k == c.count IN
  CASE c.coll = "bcast"     -> [r \in 1..n |-> c.send[c.root + 1]]
    [] c.coll = "reduce"    -> [r \in 1..n |-> IF r - 1 = c.root THEN RedVec(c, 0, n - 1, k) ELSE Undef(c, r - 1)]
    [] c.coll = "allreduce" -> [r \in 1..n |-> RedVec(c, 0, n - 1, k)]
    [] c.coll = "scan"      -> [r \in 1..n |-> RedVec(c, 0, r - 1, k)]
    [] c.coll = "exscan"    -> [r \in 1..n |-> IF r = 1 THEN Undef(c, 0) ELSE RedVec(c, 0, r - 2, k)]
    [] c.coll = "gather"    -> [r \in 1..n |-> IF r - 1 = c.root
                                               THEN Store(Filled(c, r - 1), c.send, RegularDispls(c), n) ELSE Undef(c, r - 1)]
    [] c.coll = "allgather" -> [r \in 1..n |-> Store(Filled(c, r - 1), c.send, RegularDispls(c), n)]
    [] c.coll = "gatherv"   -> [r \in 1..n |-> IF r - 1 = c.root
                                               THEN Store(Filled(c, r - 1), [q \in 1..n |-> Block(c.send[q], 0, c.rc[r][q])], c.rd[r], n)
                                               ELSE Undef(c, r - 1)]
    [] c.coll = "allgatherv" -> [r \in 1..n |-> Store(Filled(c, r - 1), [q \in 1..n |-> Block(c.send[q], 0, c.rc[r][q])], c.rd[r], n)]
    [] c.coll = "scatter"   -> [r \in 1..n |-> Store(Filled(c, r - 1), <<Block(c.send[c.root + 1], (r - 1) * k, k)>>, <<0>>, 1)]
    [] c.coll = "scatterv"  -> [r \in 1..n |-> Store(Filled(c, r - 1),
                                                     <<Block(c.send[c.root + 1], c.sd[c.root + 1][r], c.sc[c.root + 1][r])>>, <<0>>, 1)]
    [] c.coll = "alltoall"  -> [r \in 1..n |-> Store(Filled(c, r - 1), [q \in 1..n |-> Block(c.send[q], (r - 1) * k, k)],
                                                     RegularDispls(c), n)]
    [] c.coll = "alltoallv" -> [r \in 1..n |-> Store(Filled(c, r - 1), [q \in 1..n |-> Block(c.send[q], c.sd[q][r], c.sc[q][r])],
                                                     c.rd[r], n)]
    [] c.coll = "reduce_scatter" ->           \* rank r gets the r-th segment (rc[1] = the common recvcounts) of the reduction
         LET red == RedVec(c, 0, n - 1, Len(c.send[1])) IN
         [r \in 1..n |-> Store(Filled(c, r - 1), <<Block(red, SumTo(c.rc[1], r - 1), c.rc[1][r])>>, <<0>>, 1)]
    [] c.coll = "barrier"   -> [r \in 1..n |-> <<>>]

\* well-formedness of a case (violations are generator bugs: TLC fails loudly)
WellFormed(c) ==
  /\ c.np >= 1 /\ c.root \in Ranks(c) /\ Len(c.send) = c.np /\ Len(c.rlen) = c.np
  /\ c.op \in {"SUM", "PROD", "MAX", "MIN", "BXOR"}
  /\ (c.op = "BXOR" => \A r \in 1..c.np : \A i \in 1..Len(c.send[r]) : c.send[r][i] >= 0)

\* a barrier: nobody leaves before everybody has entered (simulated dates, integer microseconds)
BarrierOk(o) == \A i \in 1..Len(o.enter) : \A j \in 1..Len(o.leave) : o.leave[j] >= o.enter[i]

\* ---- evaluation driver: CASES -> EXP lines; BARRIERS (optional) -> BAR lines
Cases    == IF "CASES" \in DOMAIN IOEnv THEN JsonDeserialize(IOEnv.CASES) ELSE <<>>
Barriers == IF "BARRIERS" \in DOMAIN IOEnv THEN JsonDeserialize(IOEnv.BARRIERS) ELSE <<>>

ASSUME \A i \in 1..Len(Cases) : Assert(WellFormed(Cases[i]), <<"ill-formed case", i>>)
\* the expectations go to the JSON file named by OUT (TLC's pretty-printer wraps long printed values)
ASSUME "OUT" \in DOMAIN IOEnv => JsonSerialize(IOEnv.OUT, [i \in 1..Len(Cases) |-> Expected(Cases[i])])
ASSUME PrintT(<<"EVALUATED", Len(Cases)>>)
ASSUME \A i \in 1..Len(Barriers) : PrintT(<<"BAR", i, BarrierOk(Barriers[i])>>)

VARIABLE x
Init == x = 0
Next == UNCHANGED x
Spec == Init /\ [][Next]_x
=============================================================================
