\* MpiGroup is a module of definitions; it is exercised through MpiGroupGen (MpiGroupGen_small.cfg / MpiGroupGen_sim.cfg)
