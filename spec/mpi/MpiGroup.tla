------------------------------- MODULE MpiGroup -------------------------------
(* MPI groups and communicators (MPI-3.1 chapter 6) as values.                                                    *)
(* A group is a duplicate-free sequence of world ranks: position i (1-based) holds the process of group rank i-1. *)
(* Every operator below is the definition of the standard, written so that TLC can evaluate it:                   *)
(*   Union / Intersection / Difference  (6.3.2: "ordered as in the first group", union = first group followed by  *)
(*   the elements of the second not in the first, in the order of the second), Incl, Excl, RangeIncl, RangeExcl,  *)
(*   Translate (MPI_Group_translate_ranks), Compare (IDENT / SIMILAR / UNEQUAL), Split (MPI_Comm_split: one new   *)
(*   group per color, ordered by key, ties by rank in the old group), Dup, Create (MPI_Comm_create).              *)
(* Communicators are (context, group); messages are matched inside one context only (Deliver).                    *)
EXTENDS Naturals, Integers, Sequences, FiniteSets

Undefined == -901     \* stands for MPI_UNDEFINED in cases and results
ProcNull  == -902     \* stands for MPI_PROC_NULL

Range(s)      == { s[i] : i \in DOMAIN s }
IsGroup(g, n) == /\ \A i \in DOMAIN g : g[i] \in 0..(n - 1)
                 /\ \A i, j \in DOMAIN g : i # j => g[i] # g[j]
Size(g)       == Len(g)
\* rank of world process w in g (MPI_Group_rank seen from w)
RankOf(g, w)  == IF w \in Range(g) THEN (CHOOSE i \in DOMAIN g : g[i] = w) - 1 ELSE Undefined

Union(g1, g2)        == g1 \o SelectSeq(g2, LAMBDA w : w \notin Range(g1))
Intersection(g1, g2) == SelectSeq(g1, LAMBDA w : w \in Range(g2))
Difference(g1, g2)   == SelectSeq(g1, LAMBDA w : w \notin Range(g2))

\* r: sequence of ranks of g (0-based), duplicate-free
Incl(g, r) == [i \in 1..Len(r) |-> g[r[i] + 1]]
\* the members of g at the (1-based) positions I, order of g kept
KeepPos(g, I) == LET F[k \in 0..Len(g)] == IF k = 0 THEN <<>>
                                           ELSE IF k \in I THEN Append(F[k - 1], g[k]) ELSE F[k - 1]
                 IN F[Len(g)]
Excl(g, r) == KeepPos(g, { k \in 1..Len(g) : (k - 1) \notin Range(r) })

\* a range triplet <<first, last, stride>> denotes first, first+stride, ... up to floor((last-first)/stride) steps
RangeRanks(t) == LET f == t[1]  l == t[2]  s == t[3]
                     cnt == IF s > 0 THEN ((l - f) \div s) + 1 ELSE ((f - l) \div (0 - s)) + 1
                 IN [k \in 1..cnt |-> f + (k - 1) * s]
ValidRange(t, n) == /\ t[1] \in 0..(n - 1) /\ t[2] \in 0..(n - 1) /\ t[3] # 0
                    /\ (t[3] > 0 => t[1] <= t[2]) /\ (t[3] < 0 => t[1] >= t[2])
Flatten(ss) == LET F[k \in 0..Len(ss)] == IF k = 0 THEN <<>> ELSE F[k - 1] \o ss[k] IN F[Len(ss)]
RangesRanks(rs) == Flatten([i \in DOMAIN rs |-> RangeRanks(rs[i])])
NoDup(s) == \A i, j \in DOMAIN s : i # j => s[i] # s[j]
RangeIncl(g, rs) == Incl(g, RangesRanks(rs))
RangeExcl(g, rs) == Excl(g, RangesRanks(rs))

\* MPI_Group_translate_ranks(g1, r, g2)
Translate(g1, r, g2) == [i \in DOMAIN r |-> IF r[i] = ProcNull THEN ProcNull ELSE RankOf(g2, g1[r[i] + 1])]

Compare(g1, g2) == IF g1 = g2 THEN "ident"
                   ELSE IF Len(g1) = Len(g2) /\ Range(g1) = Range(g2) THEN "similar" ELSE "unequal"
\* MPI_Comm_compare of two distinct communicator objects with these groups
CommCompare(g1, g2) == IF g1 = g2 THEN "congruent" ELSE Compare(g1, g2)

\* --- MPI_Comm_split over a communicator of group g; col, key indexed like g (position = old rank + 1)
Before(key, a, b) == key[a] < key[b] \/ (key[a] = key[b] /\ a < b)
RECURSIVE SortedPos(_, _)
SortedPos(S, key) == IF S = {} THEN <<>>
                     ELSE LET m == CHOOSE a \in S : \A b \in S \ {a} : Before(key, a, b)
                          IN <<m>> \o SortedPos(S \ {m}, key)
\* group of the communicator that the process at position i obtains (<<>> stands for MPI_COMM_NULL)
SplitOf(g, col, key, i) ==
  IF col[i] = Undefined THEN <<>>
  ELSE LET s == SortedPos({ j \in DOMAIN g : col[j] = col[i] }, key) IN [k \in DOMAIN s |-> g[s[k]]]
Split(g, col, key) == [i \in DOMAIN g |-> SplitOf(g, col, key, i)]

Dup(g) == g
\* MPI_Comm_create(comm of group g, subgroup given as ranks h of g): members obtain Incl(g, h), the others MPI_COMM_NULL
CreateOf(g, h, i) == IF g[i] \in Range(Incl(g, h)) THEN Incl(g, h) ELSE <<>>
Create(g, h) == [i \in DOMAIN g |-> CreateOf(g, h, i)]

\* --- messages never cross communicators: a receive posted on context ctx from src with tag t obtains the first
\* message, in the order src sent them to this destination, whose (context, tag) is (ctx, t)
Deliver(sent, ctx, tag) ==
  LET idx == { k \in DOMAIN sent : sent[k].ctx = ctx /\ sent[k].tag = tag }
  IN IF idx = {} THEN Undefined ELSE sent[CHOOSE k \in idx : \A m \in idx : k <= m].val

\* ------------------------------------------------------------------ laws of the definitions (checked by TLC on every
\* generated pair, "M": the specification is consistent with the set view of the standard)
SetLaws(g1, g2, n) ==
  LET u == Union(g1, g2)  x == Intersection(g1, g2)  d == Difference(g1, g2) IN
  /\ IsGroup(u, n) /\ IsGroup(x, n) /\ IsGroup(d, n)
  /\ Range(u) = Range(g1) \cup Range(g2)
  /\ Range(x) = Range(g1) \cap Range(g2)
  /\ Range(d) = Range(g1) \ Range(g2)
  /\ u = g1 \o Difference(g2, g1)
  /\ Compare(x, Intersection(g2, g1)) \in {"ident", "similar"}
  /\ Compare(u, Union(g2, g1)) \in {"ident", "similar"}
  /\ Len(x) + Len(d) = Len(g1)
  /\ \A w \in Range(x) : \A v \in Range(x) : RankOf(x, w) < RankOf(x, v) <=> RankOf(g1, w) < RankOf(g1, v)
  /\ \A w \in Range(d) : \A v \in Range(d) : RankOf(d, w) < RankOf(d, v) <=> RankOf(g1, w) < RankOf(g1, v)
  /\ (Compare(g1, g2) = "ident") = (\A w \in 0..(n - 1) : RankOf(g1, w) = RankOf(g2, w))
InclExclLaws(g, r, n) ==
  /\ IsGroup(Incl(g, r), n) /\ IsGroup(Excl(g, r), n)
  /\ Range(Incl(g, r)) \cap Range(Excl(g, r)) = {}
  /\ Range(Incl(g, r)) \cup Range(Excl(g, r)) = Range(g)
  /\ \A i \in DOMAIN r : RankOf(Incl(g, r), g[r[i] + 1]) = i - 1
SplitLaws(g, col, key, n) ==
  LET s == Split(g, col, key) IN
  /\ \A i \in DOMAIN g : IsGroup(s[i], n)
  /\ \A i \in DOMAIN g : (col[i] = Undefined) = (s[i] = <<>>)
  /\ \A i \in DOMAIN g : col[i] # Undefined => g[i] \in Range(s[i])
  /\ \A i, j \in DOMAIN g : (col[i] # Undefined /\ col[i] = col[j]) => s[i] = s[j]
  /\ \A i, j \in DOMAIN g : (col[i] # Undefined /\ col[j] # Undefined /\ col[i] # col[j]) => Range(s[i]) \cap Range(s[j]) = {}
=============================================================================
