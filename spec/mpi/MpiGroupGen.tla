----------------------------- MODULE MpiGroupGen -----------------------------
(* Case generator for C32 (shape G): TLC enumerates (SpecSmall: every case over worlds 1..MaxN) or samples       *)
(* (SpecSim, -simulate -seed: worlds 1..MaxWorld) inputs of the MPI group / communicator calls and prints, for    *)
(* each case, the inputs together with the results that module MpiGroup defines (one JSON object per line).       *)
(* The laws of MpiGroup are evaluated on every generated case (invariant Laws).                                   *)
EXTENDS MpiGroup, TLC, Json, Randomization

CONSTANTS Ns,         \* small scope: the world sizes enumerated exhaustively (a set; slices run in parallel)
          Kinds,      \* small scope: the case kinds enumerated
          MaxWorld    \* sampling: worlds 1..MaxWorld
VARIABLES i, c
vars == <<i, c>>

Perms(S) == { f \in [1..Cardinality(S) -> S] : \A a, b \in 1..Cardinality(S) : a # b => f[a] # f[b] }
Groups(n) == UNION { Perms(S) : S \in SUBSET (0..(n - 1)) }
Ident(m)  == [k \in 1..m |-> k - 1]
Rev(m)    == [k \in 1..m |-> m - k]
RankView(g, n) == [w \in 1..n |-> RankOf(g, w - 1)]

\* ------------------------------------------------------------------ expected results of a case
Eval(x) ==
  CASE x.k = "setop" ->
         LET u == Union(x.g1, x.g2)  s == Intersection(x.g1, x.g2)  d == Difference(x.g1, x.g2)
             r == Ident(Len(x.g1)) \o <<ProcNull>> IN
         [k |-> x.k, n |-> x.n, g1 |-> x.g1, g2 |-> x.g2,
          un |-> u, in |-> s, di |-> d, in21 |-> Intersection(x.g2, x.g1), unrk |-> RankView(u, x.n), inrk |-> RankView(s, x.n), dirk |-> RankView(d, x.n),
          cmp |-> Compare(x.g1, x.g2), tr |-> Translate(x.g1, r, x.g2)]
    [] x.k = "incl"  -> [k |-> x.k, n |-> x.n, g |-> x.g, r |-> x.r, res |-> Incl(x.g, x.r), rk |-> RankView(Incl(x.g, x.r), x.n)]
    [] x.k = "excl"  -> [k |-> x.k, n |-> x.n, g |-> x.g, r |-> x.r, res |-> Excl(x.g, x.r), rk |-> RankView(Excl(x.g, x.r), x.n)]
    [] x.k = "rincl" -> [k |-> x.k, n |-> x.n, g |-> x.g, rs |-> x.rs, res |-> RangeIncl(x.g, x.rs), rk |-> RankView(RangeIncl(x.g, x.rs), x.n)]
    [] x.k = "rexcl" -> [k |-> x.k, n |-> x.n, g |-> x.g, rs |-> x.rs, res |-> RangeExcl(x.g, x.rs), rk |-> RankView(RangeExcl(x.g, x.rs), x.n)]
    [] x.k = "split" -> [k |-> x.k, n |-> x.n, g |-> x.g, col |-> x.col, key |-> x.key, res |-> Split(x.g, x.col, x.key)]
    [] x.k = "create" -> [k |-> x.k, n |-> x.n, g |-> x.g, h |-> x.h, res |-> Create(x.g, x.h)]
    [] x.k = "dup" ->
         \* every member p (position) sends to its right neighbour first on the duplicate (value 2000+rank), then on the
         \* original communicator (value 1000+rank), same tag; it receives first on the original, then on the duplicate
         LET m == Len(x.g)
             sentBy(p) == << [ctx |-> "dup", tag |-> 5, val |-> 2000 + (p - 1)], [ctx |-> "comm", tag |-> 5, val |-> 1000 + (p - 1)] >>
             left(p) == IF p = 1 THEN m ELSE p - 1 IN
         [k |-> x.k, n |-> x.n, g |-> x.g, res |-> Dup(x.g), cmp |-> CommCompare(x.g, Dup(x.g)),
          xc |-> [p \in 1..m |-> << Deliver(sentBy(left(p)), "comm", 5), Deliver(sentBy(left(p)), "dup", 5) >>]]
    [] OTHER -> x

Lawful(x) ==
  CASE x.k = "setop" -> IsGroup(x.g1, x.n) /\ IsGroup(x.g2, x.n) /\ SetLaws(x.g1, x.g2, x.n)
    [] x.k \in {"incl", "excl"} -> IsGroup(x.g, x.n) /\ IsGroup(x.r, Len(x.g)) /\ InclExclLaws(x.g, x.r, x.n)
    [] x.k \in {"rincl", "rexcl"} -> /\ IsGroup(x.g, x.n) /\ \A j \in DOMAIN x.rs : ValidRange(x.rs[j], Len(x.g))
                                     /\ NoDup(RangesRanks(x.rs)) /\ InclExclLaws(x.g, RangesRanks(x.rs), x.n)
    [] x.k = "split" -> IsGroup(x.g, x.n) /\ Len(x.col) = Len(x.g) /\ Len(x.key) = Len(x.g) /\ SplitLaws(x.g, x.col, x.key, x.n)
    [] x.k = "create" -> IsGroup(x.g, x.n) /\ IsGroup(x.h, Len(x.g))
    [] x.k = "dup" -> IsGroup(x.g, x.n)
    [] OTHER -> TRUE

\* ------------------------------------------------------------------ small scope
Triplets(m) == { t \in (0..(m - 1)) \X (0..(m - 1)) \X {-3, -2, -1, 1, 2, 3} : ValidRange(t, m) }
RangeLists(m) == {<<>>} \cup { <<t>> : t \in Triplets(m) }
                 \cup { rs \in { <<t1, t2>> : t1 \in Triplets(m), t2 \in Triplets(m) } : NoDup(RangesRanks(rs)) }
Bases(n) == UNION { { [k \in 1..m |-> k - 1], [k \in 1..m |-> n - k] } : m \in 0..n }
SmallCase(x) ==
  \E n \in Ns :
    \/ "setop" \in Kinds /\ \E g1 \in Groups(n), g2 \in Groups(n) : x = [k |-> "setop", n |-> n, g1 |-> g1, g2 |-> g2]
    \/ \E g \in Groups(n) : \E r \in Groups(Len(g)) : \E kind \in {"incl", "excl", "create"} \cap Kinds :
          x = IF kind = "create" THEN [k |-> kind, n |-> n, g |-> g, h |-> r] ELSE [k |-> kind, n |-> n, g |-> g, r |-> r]
    \/ \E g \in Bases(n) : \E rs \in RangeLists(Len(g)) : \E kind \in {"rincl", "rexcl"} \cap Kinds :
          Len(rs) <= Len(g) /\ x = [k |-> kind, n |-> n, g |-> g, rs |-> rs]
    \/ "split" \in Kinds /\ \E g \in {Ident(n), Rev(n)} : \E col \in [1..n -> {Undefined, 0, 1}], key \in [1..n -> {-1, 0, 1}] :
          x = [k |-> "split", n |-> n, g |-> g, col |-> col, key |-> key]
    \/ "dup" \in Kinds /\ \E g \in Groups(n) : x = [k |-> "dup", n |-> n, g |-> g]

InitSmall == i = 0 /\ SmallCase(c)
SpecSmall == InitSmall /\ [][FALSE]_vars

\* ------------------------------------------------------------------ sampling (RandomElement is driven by -seed)
RECURSIVE RandPerm(_)
RandPerm(S) == IF S = {} THEN <<>> ELSE LET e == RandomElement(S) IN <<e>> \o RandPerm(S \ {e})
RandSub(S)  == RandomSubset(RandomElement(0..Cardinality(S)), S)
RandGroup(n) == RandPerm(RandSub(0..(n - 1)))
RandTriplet(m) == LET f == RandomElement(0..(m - 1))  l == RandomElement(0..(m - 1))  s == RandomElement(1..3)
                  IN IF f <= l THEN <<f, l, s>> ELSE <<f, l, 0 - s>>
RandRanges(m) == IF m = 0 THEN <<>>
                 ELSE LET cnt == RandomElement(1..(IF m < 3 THEN m ELSE 3))
                          rs == TLCEval([j \in 1..cnt |-> TLCEval(RandTriplet(m))])
                      IN IF NoDup(RangesRanks(rs)) THEN rs ELSE <<rs[1]>>
RandCase(j) ==
  LET n == IF j % 3 = 0 THEN RandomElement(1..MaxWorld) ELSE RandomElement((IF MaxWorld > 5 THEN 5 ELSE 1)..MaxWorld)
      kind == j % 8 IN
  CASE kind \in {0, 1} -> [k |-> "setop", n |-> n, g1 |-> RandGroup(n), g2 |-> RandGroup(n)]
    [] kind = 2 -> LET g == RandGroup(n) IN [k |-> RandomElement({"incl", "excl"}), n |-> n, g |-> g, r |-> RandGroup(Len(g))]
    [] kind = 3 -> LET g == RandGroup(n) IN [k |-> RandomElement({"rincl", "rexcl"}), n |-> n, g |-> g, rs |-> RandRanges(Len(g))]
    [] kind \in {4, 5} -> LET g == RandGroup(n)  nc == RandomElement(1..4) IN
                   [k |-> "split", n |-> n, g |-> g,
                    col |-> TLCEval([p \in 1..Len(g) |-> RandomElement({Undefined} \cup 0..nc)]),
                    key |-> TLCEval([p \in 1..Len(g) |-> RandomElement(-3..3)])]
    [] kind = 6 -> LET g == RandGroup(n) IN [k |-> "create", n |-> n, g |-> g, h |-> RandGroup(Len(g))]
    [] OTHER -> [k |-> "dup", n |-> n, g |-> RandGroup(n)]

InitSim == i = 0 /\ c = [k |-> "none"]
NextSim == i' = i + 1 /\ c' = TLCEval(RandCase(i'))
SpecSim == InitSim /\ [][NextSim]_vars

\* ------------------------------------------------------------------ output and self-check
Laws == Lawful(c)
Out  == c.k # "none" => PrintT(<<"CASE", ToJson(Eval(c))>>)
=============================================================================
