SPECIFICATION SpecSmall
CONSTANTS Ns = {1, 2, 3}
          Kinds = {"setop", "incl", "excl", "create", "rincl", "rexcl", "split", "dup"}
          MaxWorld = 12
INVARIANT Laws
INVARIANT Out
