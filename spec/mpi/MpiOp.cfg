\* MpiOp is a module of definitions; it is exercised through MpiOpGen (MpiOpGen_small.cfg / MpiOpGen_sim.cfg)
