-------------------------------- MODULE MpiOp --------------------------------
(* The 14 predefined reduction operators of MPI (MPI-3.1 section 5.9.2, 5.9.4; MPI_REPLACE / MPI_NO_OP section 11.3.4) *)
(* as element-wise functions  Apply(op, type, a, b) = a op b  (MPI_Reduce_local: inoutbuf := inbuf op inoutbuf),   *)
(* the table of the (operator, datatype class) pairs that MPI allows, and the reduction of one vector per rank.    *)
(* A datatype is a record [name, cls, bits, signed]; classes: "cint" (C integer), "fint" (Fortran integer), "fp",  *)
(* "logical", "complex", "byte", "multi" (MPI_AINT, MPI_OFFSET, MPI_COUNT), "pair" (value, index), "char".         *)
(* Values: integers (floating-point types carry integer values), booleans as 0/1, complex numbers and pairs as     *)
(* <<re, im>> / <<value, index>>.  TLC integers are 32-bit: values and results stay within signed 32 bits; the     *)
(* bitwise operators work on the two's complement representation of the type's width through 16-bit halves.        *)
EXTENDS Naturals, Integers, Sequences, FiniteSets, Bitwise

Ops == <<"MAX", "MIN", "SUM", "PROD", "LAND", "LOR", "LXOR", "BAND", "BOR", "BXOR", "MAXLOC", "MINLOC", "REPLACE", "NO_OP">>

\* the (operator, class) pairs of MPI-3.1 5.9.2 (and 5.9.4 for MAXLOC/MINLOC); REPLACE and NO_OP are valid in RMA calls only
Allowed(op) ==
  CASE op \in {"MAX", "MIN"}             -> {"cint", "fint", "fp", "multi"}
    [] op \in {"SUM", "PROD"}            -> {"cint", "fint", "fp", "complex", "multi"}
    [] op \in {"LAND", "LOR", "LXOR"}    -> {"cint", "logical"}
    [] op \in {"BAND", "BOR", "BXOR"}    -> {"cint", "fint", "byte", "multi"}
    [] op \in {"MAXLOC", "MINLOC"}       -> {"pair"}
    [] OTHER                             -> {}
\* pairs the standard does not list but that have an obvious meaning and that an implementation may accept as an
\* extension: left open (if the call is accepted the natural result is required, if it is rejected that is fine too)
Open(op) ==
  CASE op \in {"MAX", "MIN", "SUM", "PROD", "BAND", "BOR", "BXOR"} -> {"char"}        \* MPI_CHAR used as a small integer
    [] op \in {"LAND", "LOR", "LXOR"}    -> {"char", "fint", "fp", "multi", "byte"}
    [] OTHER                             -> {}
\* "yes": must be accepted and give Apply; "no": must be rejected; "open": see Open
Support(op, ty) == IF ty.cls \in Allowed(op) THEN "yes" ELSE IF ty.cls \in Open(op) THEN "open" ELSE "no"

RECURSIVE Pow2(_)
Pow2(n) == IF n = 0 THEN 1 ELSE IF n = 7 THEN 128 ELSE IF n = 8 THEN 256 ELSE IF n = 15 THEN 32768 ELSE IF n = 16 THEN 65536
           ELSE IF n = 24 THEN 16777216 ELSE 2 * Pow2(n - 1)
\* range of the integer values of a type that the specification can state (31 bits at most for the magnitude)
TMin(ty) == IF ~ty.signed THEN 0 ELSE IF ty.bits >= 32 THEN 0 - 2147483647 - 1 ELSE 0 - Pow2(ty.bits - 1)
TMax(ty) == IF ty.bits >= 32 THEN 2147483647 ELSE IF ty.signed THEN Pow2(ty.bits - 1) - 1 ELSE Pow2(ty.bits) - 1
InType(ty, v) == v >= TMin(ty) /\ v <= TMax(ty)

\* --- bitwise on the two's complement representation, 16 bits at a time (sign extension commutes with the operators,
\* so types wider than 32 bits holding 32-bit values are treated as 32-bit)
Lo(x) == x % 65536
Hi(x) == ((x - Lo(x)) \div 65536) % 65536
Bit16(op, u, v) == CASE op = "BAND" -> u & v [] op = "BOR" -> u | v [] OTHER -> u ^^ v
Signed16(u) == IF u >= 32768 THEN u - 65536 ELSE u
BitOp(op, ty, a, b) ==
  LET lo == Bit16(op, Lo(a), Lo(b))  hi == Bit16(op, Hi(a), Hi(b)) IN
  IF ty.bits <= 8  THEN (IF ty.signed THEN (IF (lo % 256) >= 128 THEN (lo % 256) - 256 ELSE (lo % 256)) ELSE (lo % 256))
  ELSE IF ty.bits <= 16 THEN (IF ty.signed THEN Signed16(lo) ELSE lo)
  ELSE IF ty.signed THEN Signed16(hi) * 65536 + lo ELSE hi * 65536 + lo       \* unsigned values stay below 2^31

Truth(x) == x # 0
B2I(p) == IF p THEN 1 ELSE 0

\* a op b on one element; for LAND/LOR/LXOR the result is a truth value (0/1: only its truth is specified)
Apply(op, ty, a, b) ==
  CASE op = "REPLACE" -> a
    [] op = "NO_OP" -> b
    [] op = "MAXLOC" -> IF a[1] > b[1] THEN a ELSE IF a[1] < b[1] THEN b ELSE <<a[1], IF a[2] < b[2] THEN a[2] ELSE b[2]>>
    [] op = "MINLOC" -> IF a[1] < b[1] THEN a ELSE IF a[1] > b[1] THEN b ELSE <<a[1], IF a[2] < b[2] THEN a[2] ELSE b[2]>>
    [] op = "SUM" /\ ty.cls = "complex"  -> <<a[1] + b[1], a[2] + b[2]>>
    [] op = "PROD" /\ ty.cls = "complex" -> <<a[1] * b[1] - a[2] * b[2], a[1] * b[2] + a[2] * b[1]>>
    [] op = "MAX"  -> IF a > b THEN a ELSE b
    [] op = "MIN"  -> IF a < b THEN a ELSE b
    [] op = "SUM"  -> a + b
    [] op = "PROD" -> a * b
    [] op = "LAND" -> B2I(Truth(a) /\ Truth(b))
    [] op = "LOR"  -> B2I(Truth(a) \/ Truth(b))
    [] op = "LXOR" -> B2I(Truth(a) # Truth(b))
    [] op \in {"BAND", "BOR", "BXOR"} -> BitOp(op, ty, a, b)

ApplyVec(op, ty, a, b) == [i \in DOMAIN a |-> Apply(op, ty, a[i], b[i])]
\* the reduction of the vectors vs[1..np] (rank order; the predefined operators are associative and commutative)
RECURSIVE Reduce(_, _, _)
Reduce(op, ty, vs) == IF Len(vs) = 1 THEN vs[1]
                      ELSE ApplyVec(op, ty, Reduce(op, ty, SubSeq(vs, 1, Len(vs) - 1)), vs[Len(vs)])

\* a op b can be evaluated within TLC's 32-bit integers and, for the arithmetic operators, stays within the type
\* (conservative for PROD: both factors below 2^15.5 in magnitude, or one of them 0 or 1)
SmallMag(x) == x >= -46340 /\ x <= 46340
SafeScalar(op, ty, a, b) ==
  CASE op = "SUM"  -> (b >= 0 => a <= TMax(ty) - b) /\ (b < 0 => a >= TMin(ty) - b)
    [] op = "PROD" -> a \in {0, 1} \/ b \in {0, 1} \/ (SmallMag(a) /\ SmallMag(b) /\ InType(ty, a * b))
    [] OTHER -> TRUE
Safe(op, ty, a, b) ==
  IF ty.cls = "complex" THEN SmallMag(a[1]) /\ SmallMag(a[2]) /\ SmallMag(b[1]) /\ SmallMag(b[2]) /\ a[1] > -20000 /\ a[1] < 20000
                             /\ a[2] > -20000 /\ a[2] < 20000 /\ b[1] > -20000 /\ b[1] < 20000 /\ b[2] > -20000 /\ b[2] < 20000
  ELSE IF ty.cls = "pair" THEN TRUE ELSE SafeScalar(op, ty, a, b)
\* the result is representable in the type (no overflow: outside what MPI defines, never generated)
Fits(ty, v) == IF ty.cls \in {"complex", "pair"} THEN InType(ty, v[1]) /\ (ty.cls = "pair" \/ InType(ty, v[2])) ELSE InType(ty, v)

\* ------------------------------------------------------------------ laws (checked by TLC on the generated values)
OpLaws(op, ty, a, b, c) ==
  /\ op \notin {"REPLACE", "NO_OP"} => Apply(op, ty, a, b) = Apply(op, ty, b, a)                      \* commutative
  /\ (op \in {"MAX", "MIN", "BAND", "BOR", "BXOR", "LAND", "LOR", "LXOR", "MAXLOC", "MINLOC"} /\ ty.cls # "complex")
        => Apply(op, ty, Apply(op, ty, a, b), c) = Apply(op, ty, a, Apply(op, ty, b, c))              \* associative
  /\ op \in {"MAX", "MIN"} => Apply(op, ty, a, b) \in {a, b}
  /\ op \in {"BAND", "BOR", "BXOR"} => /\ InType(ty, Apply(op, ty, a, b))
                                       /\ Apply("BXOR", ty, Apply("BXOR", ty, a, b), b) = a
                                       /\ Apply("BAND", ty, a, a) = a /\ Apply("BOR", ty, a, a) = a
                                       /\ Apply("BOR", ty, Apply("BAND", ty, a, b), Apply("BXOR", ty, a, b)) = Apply("BOR", ty, a, b)
  /\ op \in {"MAXLOC", "MINLOC"} => (a[1] = b[1] => Apply(op, ty, a, b)[2] <= a[2] /\ Apply(op, ty, a, b)[2] <= b[2])
=============================================================================
