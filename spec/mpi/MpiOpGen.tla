------------------------------ MODULE MpiOpGen ------------------------------
(* Case generator for C31 (shape G).                                                                               *)
(* SpecSmall: one case per (operator, datatype) of the table below: MPI_Reduce_local over ALL pairs of a set of     *)
(*   characteristic values of the type (extremes, -1, 0, 1, ...; complex numbers; (value, index) pairs with ties)    *)
(*   whose result fits the type -- and, for the pairs MPI does not allow, the expectation that the call is rejected. *)
(* SpecSim (-simulate -seed): random counts 0..6 and values (extremes mixed with small values) through              *)
(*   MPI_Reduce_local ("rl"), MPI_Allreduce over 1..MaxNp ranks ("ar"), and MPI_Accumulate(MPI_REPLACE) /            *)
(*   MPI_Get_accumulate(MPI_NO_OP) on a window ("rma").  Every case carries the result MpiOp defines.                *)
EXTENDS MpiOp, TLC, Json, Randomization

CONSTANTS MaxNp, Slice, NSlices
VARIABLES i, c
vars == <<i, c>>

T(name, cls, bits, sg) == [name |-> name, cls |-> cls, bits |-> bits, signed |-> sg]
\* bits of a floating-point type = 1 + number of bits of the integers it represents exactly (capped to TLC's 32)
Types == <<
  T("CHAR", "char", 8, TRUE), T("SIGNED_CHAR", "cint", 8, TRUE), T("UNSIGNED_CHAR", "cint", 8, FALSE),
  T("SHORT", "cint", 16, TRUE), T("UNSIGNED_SHORT", "cint", 16, FALSE), T("INT", "cint", 32, TRUE), T("UNSIGNED", "cint", 32, FALSE),
  T("LONG", "cint", 64, TRUE), T("UNSIGNED_LONG", "cint", 64, FALSE), T("LONG_LONG", "cint", 64, TRUE), T("UNSIGNED_LONG_LONG", "cint", 64, FALSE),
  T("INT8_T", "cint", 8, TRUE), T("INT16_T", "cint", 16, TRUE), T("INT32_T", "cint", 32, TRUE), T("INT64_T", "cint", 64, TRUE),
  T("UINT8_T", "cint", 8, FALSE), T("UINT16_T", "cint", 16, FALSE), T("UINT32_T", "cint", 32, FALSE), T("UINT64_T", "cint", 64, FALSE),
  T("INTEGER2", "fint", 16, TRUE), T("INTEGER4", "fint", 32, TRUE), T("INTEGER8", "fint", 64, TRUE),
  T("FLOAT", "fp", 25, TRUE), T("DOUBLE", "fp", 32, TRUE), T("LONG_DOUBLE", "fp", 32, TRUE), T("REAL4", "fp", 25, TRUE), T("REAL8", "fp", 32, TRUE),
  T("C_BOOL", "logical", 1, FALSE), T("CXX_BOOL", "logical", 1, FALSE),
  T("C_FLOAT_COMPLEX", "complex", 25, TRUE), T("C_DOUBLE_COMPLEX", "complex", 32, TRUE), T("C_LONG_DOUBLE_COMPLEX", "complex", 32, TRUE),
  T("BYTE", "byte", 8, FALSE), T("AINT", "multi", 64, TRUE), T("OFFSET", "multi", 64, TRUE), T("COUNT", "multi", 64, TRUE),
  T("FLOAT_INT", "pair", 25, TRUE), T("DOUBLE_INT", "pair", 32, TRUE), T("LONG_INT", "pair", 64, TRUE), T("2INT", "pair", 32, TRUE),
  T("SHORT_INT", "pair", 16, TRUE), T("LONG_DOUBLE_INT", "pair", 32, TRUE), T("WCHAR", "wchar", 32, TRUE) >>

Scalar(ty) == ty.cls \notin {"complex", "pair"}
\* characteristic values
SVals(ty) == { v \in {TMin(ty), -3, -1, 0, 1, 2, 6, TMax(ty) - 1, TMax(ty)} : InType(ty, v) }
Vals(ty) == IF ty.cls = "complex" THEN { <<0, 0>>, <<1, 0>>, <<0, 1>>, <<-1, 2>>, <<3, -2>>, <<2, 2>> }
            ELSE IF ty.cls = "pair" THEN { <<v, j>> : v \in {-2, 5, TMax(ty)}, j \in {0, 1, 3} }
            ELSE SVals(ty)
RECURSIVE SetToSeq(_)
SetToSeq(S) == IF S = {} THEN <<>> ELSE LET e == CHOOSE x \in S : TRUE IN <<e>> \o SetToSeq(S \ {e})

ResultOf(op, ty, a, b) == IF Support(op, ty) = "no" THEN <<>> ELSE ApplyVec(op, ty, a, b)
AllFit(ty, s) == \A k \in DOMAIN s : Fits(ty, s[k])

EvalRl(x) == [k |-> "rl", op |-> x.op, ty |-> x.ty.name, cls |-> x.ty.cls, sup |-> Support(x.op, x.ty), n |-> Len(x.a), a |-> x.a, b |-> x.b,
              exp |-> ResultOf(x.op, x.ty, x.a, x.b), truth |-> x.op \in {"LAND", "LOR", "LXOR"}]
EvalAr(x) == [k |-> "ar", op |-> x.op, ty |-> x.ty.name, cls |-> x.ty.cls, sup |-> Support(x.op, x.ty), np |-> Len(x.v), n |-> Len(x.v[1]), v |-> x.v,
              exp |-> IF Support(x.op, x.ty) = "no" THEN <<>> ELSE Reduce(x.op, x.ty, x.v), truth |-> x.op \in {"LAND", "LOR", "LXOR"}]
\* rank r (position r+1) targets the window of rank (r+1) % np: MPI_Accumulate(origin o[r], MPI_REPLACE) or
\* MPI_Get_accumulate(MPI_NO_OP); win = window contents afterwards, res = what MPI_Get_accumulate fetched
EvalRma(x) == LET np == Len(x.o)  src(p) == IF p = 1 THEN np ELSE p - 1  tgt(p) == IF p = np THEN 1 ELSE p + 1 IN
              [k |-> "rma", op |-> x.op, ty |-> x.ty.name, cls |-> x.ty.cls, np |-> np, n |-> Len(x.o[1]), o |-> x.o, t |-> x.t,
               win |-> [p \in 1..np |-> ApplyVec(x.op, x.ty, x.o[src(p)], x.t[p])],
               res |-> [p \in 1..np |-> IF x.op = "NO_OP" THEN x.t[tgt(p)] ELSE <<>>]]
Eval(x) == CASE x.k = "rl" -> EvalRl(x) [] x.k = "ar" -> EvalAr(x) [] x.k = "rma" -> EvalRma(x) [] OTHER -> x

\* ------------------------------------------------------------------ small scope
PairsOf(op, ty) ==
  LET vs == SetToSeq(Vals(ty))  m == Len(vs)
      all == [q \in 1..(m * m) |-> <<vs[((q - 1) \div m) + 1], vs[((q - 1) % m) + 1]>>]
  IN IF Support(op, ty) = "no" THEN [q \in 1..m |-> <<vs[q], vs[q]>>]
     ELSE SelectSeq(all, LAMBDA p : Safe(op, ty, p[1], p[2]) /\ Fits(ty, Apply(op, ty, p[1], p[2])))
SmallCase(x) ==
  \E o \in DOMAIN Ops : \E t \in DOMAIN Types :
     /\ (o * 64 + t) % NSlices = Slice
     /\ LET ps == PairsOf(Ops[o], Types[t]) IN
        x = [k |-> "rl", op |-> Ops[o], ty |-> Types[t], a |-> [j \in DOMAIN ps |-> ps[j][1]], b |-> [j \in DOMAIN ps |-> ps[j][2]]]
InitSmall == i = 0 /\ SmallCase(c)
SpecSmall == InitSmall /\ [][FALSE]_vars

\* ------------------------------------------------------------------ sampling
RandScalar(ty, lim) ==      \* lim > 0 bounds the magnitude (operators whose result grows), 0 = whole range with extremes
  IF lim > 0 THEN LET m0 == IF lim < TMax(ty) THEN lim ELSE TMax(ty)  m == IF m0 > 1000000000 THEN 1000000000 ELSE m0  lo == IF ty.signed THEN 0 - m ELSE 0 IN RandomElement(lo..m)
  ELSE LET pick == RandomElement(1..4) IN
       IF pick = 1 THEN RandomElement(SVals(ty))
       ELSE IF pick = 2 THEN RandomElement((IF ty.signed THEN -9 ELSE 0)..(IF TMax(ty) < 9 THEN TMax(ty) ELSE 9))
       ELSE IF ty.signed THEN RandomElement(-1000000..1000000) % (TMax(ty) \div 2 + 1) ELSE RandomElement(0..2000000000) % (TMax(ty) \div 2 + 1)
RandVal(ty, lim) == IF ty.cls = "complex" THEN <<RandScalar(ty, IF lim > 0 THEN lim ELSE 40), RandScalar(ty, IF lim > 0 THEN lim ELSE 40)>>
                    ELSE IF ty.cls = "pair" THEN <<RandScalar(ty, IF RandomElement(1..2) = 1 THEN 2 ELSE 0), RandomElement(0..5)>>
                    ELSE RandScalar(ty, lim)
RECURSIVE RandVec(_, _, _)
RandVec(ty, n, lim) == IF n = 0 THEN <<>> ELSE <<RandVal(ty, lim)>> \o RandVec(ty, n - 1, lim)
RECURSIVE RandVecs(_, _, _, _)
RandVecs(ty, np, n, lim) == IF np = 0 THEN <<>> ELSE <<RandVec(ty, n, lim)>> \o RandVecs(ty, np - 1, n, lim)
\* magnitude bound so that the reduction of np values fits: sums by TMax/np, products by a small base
Lim(op, ty, np) == IF op = "SUM" THEN (IF ty.cls = "complex" THEN 1000 ELSE TMax(ty) \div np)
                   ELSE IF op = "PROD" THEN (IF ty.bits <= 8 \/ np > 4 \/ ty.cls = "complex" THEN 2 ELSE IF ty.bits <= 16 THEN 5 ELSE 30)
                   ELSE 0
\* every partial reduction vs[1] op ... op vs[m] can be evaluated and fits the type
RECURSIVE PartialFit(_, _, _, _)
PartialFit(op, ty, vs, m) ==
  m < 2 \/ ( /\ PartialFit(op, ty, vs, m - 1)
             /\ LET acc == Reduce(op, ty, SubSeq(vs, 1, m - 1)) IN
                \A j \in DOMAIN acc : Safe(op, ty, acc[j], vs[m][j]) /\ Fits(ty, Apply(op, ty, acc[j], vs[m][j])) )
Ones(ty, np, n) == [p \in 1..np |-> [j \in 1..n |-> IF ty.cls \in {"complex", "pair"} THEN <<1, 0>> ELSE 1]]
RandCase(j) ==
  LET kind == j % 5
      op0 == Ops[RandomElement(1..12)]
      ty == Types[RandomElement(DOMAIN Types)]
      \* three draws out of four use a type that the operator supports
      ty2 == IF Support(op0, ty) # "no" \/ RandomElement(1..4) = 1 THEN ty
             ELSE LET S == { t \in DOMAIN Types : Support(op0, Types[t]) = "yes" } IN Types[RandomElement(S)]
      n == RandomElement(0..6) IN
  CASE kind \in {0, 1} ->
         LET vs == TLCEval(RandVecs(ty2, 2, n, Lim(op0, ty2, 2)))
             ok == Support(op0, ty2) = "no" \/ PartialFit(op0, ty2, vs, 2)
             ws == IF ok THEN vs ELSE Ones(ty2, 2, n) IN
         [k |-> "rl", op |-> op0, ty |-> ty2, a |-> ws[1], b |-> ws[2]]
    [] kind \in {2, 3} ->
         LET np == RandomElement(1..MaxNp)  m == IF n = 0 THEN 1 ELSE n
             vs == TLCEval(RandVecs(ty2, np, m, Lim(op0, ty2, np)))
             ok == Support(op0, ty2) = "no" \/ PartialFit(op0, ty2, vs, np)
             ws == IF ok THEN vs ELSE Ones(ty2, np, m) IN
         [k |-> "ar", op |-> op0, ty |-> ty2, v |-> ws]
    [] OTHER ->
         LET np == RandomElement(1..MaxNp)  opr == RandomElement({"REPLACE", "NO_OP"})
             tyr == IF ty.cls = "wchar" THEN Types[6] ELSE ty IN
         [k |-> "rma", op |-> opr, ty |-> tyr, o |-> TLCEval(RandVecs(tyr, np, n + 1, 0)), t |-> TLCEval(RandVecs(tyr, np, n + 1, 0))]
InitSim == i = 0 /\ c = [k |-> "none"]
NextSim == i' = i + 1 /\ c' = TLCEval(RandCase(i'))
SpecSim == InitSim /\ [][NextSim]_vars

\* ------------------------------------------------------------------ self-check and output
Lawful(x) ==
  CASE x.k = "rl" -> /\ Len(x.a) = Len(x.b)
                     /\ (Support(x.op, x.ty) # "no" => \A j \in DOMAIN x.a : Safe(x.op, x.ty, x.a[j], x.b[j]) /\ Fits(x.ty, Apply(x.op, x.ty, x.a[j], x.b[j])))
                     /\ (Support(x.op, x.ty) = "yes" /\ Len(x.a) > 0) =>
                           \A j \in DOMAIN x.a : OpLaws(x.op, x.ty, x.a[j], x.b[j], x.a[((j * 7) % Len(x.a)) + 1])
    [] x.k = "ar" -> Support(x.op, x.ty) # "no" => PartialFit(x.op, x.ty, x.v, Len(x.v))
    [] OTHER -> TRUE
Laws == Lawful(c)
Out  == c.k # "none" => PrintT(<<"CASE", ToJson(Eval(c))>>)
=============================================================================
