SPECIFICATION SpecSim
CONSTANTS MaxNp = 6
          NSlices = 1
          Slice = 0
INVARIANT Laws
INVARIANT Out
