------------------------------- MODULE MpiP2P -------------------------------
(* MPI point-to-point matching semantics (MPI-3.1 section 3.5 "Semantics of point-to-point communication") as a     *)
(* state machine over a *program* P given as data.  Functional core: the whole abstract state is one record s;    *)
(* the wrappers MpiP2PMC (all interleavings of a batch of programs) and MpiP2P_trace (validation of executions     *)
(* recorded from the real SMPI) turn the operators below into TLA+ actions.                                        *)
(*                                                                                                                *)
(* Program (JSON):  P.np ranks (world ranks 1..np), P.detach = size below which a standard send is buffered,        *)
(*   P.eager = SMPI's smpi/async-small-thresh (recorded only: it selects a mailbox, it has no semantic effect),    *)
(*   P.nslots request slots per rank, P.comms[c] = world ranks of communicator c in communicator-rank order        *)
(*   (c = 1 is MPI_COMM_WORLD; dup'd and split communicators follow), P.ranks[a] = operation list of rank a.       *)
(* Operation record (all fields always present):                                                                   *)
(*   op   send ssend bsend isend issend recv irecv sendrecv probe iprobe wait test waitall                          *)
(*   c    communicator;  peer = rank *in c* (0-based) of the destination / source, -1 = MPI_ANY_SOURCE              *)
(*   tag  (-1 = MPI_ANY_TAG on the receiving side);  n = bytes sent / size of the receive buffer                    *)
(*   r    request slot of isend/issend/irecv/wait/test;  rs = slots of waitall                                      *)
(*   peer2 tag2 n2 = receive part of sendrecv                                                                        *)
(*   P.relax = [sorder, rorder, trunc]: all FALSE = the reference semantics (see Relaxations below)                  *)
(*                                                                                                                *)
(* Matching is *lazy*: a posted send sits in uq, a posted receive in pq, and Match(r, m) may fire whenever the MPI  *)
(* rules allow r to take m.  What the rules leave open (relative arrival of messages of different senders) stays   *)
(* open; what they fix is the enabling condition:                                                                   *)
(*   - r and m agree on communicator, destination, source (or ANY_SOURCE), tag (or ANY_TAG);                        *)
(*   - non-overtaking, sender side: no earlier still-unmatched message of the same (communicator, sender,           *)
(*     receiver) is also compatible with r;                                                                         *)
(*   - non-overtaking, receiver side: no earlier still-unmatched receive of the same rank is also compatible with m.*)
(* Send modes change only *when a send may complete* (SendDone), never what matches:                               *)
(*   synchronous (ssend/issend): once matched;  bsend: at once;  standard: at once below P.detach (SMPI detaches    *)
(*   and copies the message), once matched otherwise (rendez-vous).                                                 *)
EXTENDS Naturals, Integers, Sequences, FiniteSets, TLC

ANY  == -1
OPEN == -2          \* value of a result field that MPI leaves undefined (status of a completed send)

\* ------------------------------------------------------------------ program accessors
Ranks(P)      == 1..P.np
NOps(P, a)    == Len(P.ranks[a])
OpOf(P, a, k) == P.ranks[a][k]
Cur(P, s, a)  == P.ranks[a][s.pc[a]]
World(P, c, r) == P.comms[c][r + 1]                                     \* world rank of rank r of communicator c
CRank(P, c, w) == (CHOOSE i \in 1..Len(P.comms[c]) : P.comms[c][i] = w) - 1
Member(P, c, w) == \E i \in 1..Len(P.comms[c]) : P.comms[c][i] = w
Id(a, k)  == a * 256 + k                     \* identity of the send / receive posted by operation k of rank a
IdRank(i) == i \div 256
IdOp(i)   == i % 256

SendPosting == {"send", "ssend", "bsend", "isend", "issend", "sendrecv"}
RecvPosting == {"recv", "irecv", "sendrecv"}
Posting     == SendPosting \cup RecvPosting
NonBlocking == {"isend", "issend", "irecv"}
Sync(o)        == o.op \in {"ssend", "issend"}
Buffered(P, o) == o.op = "bsend" \/ (~Sync(o) /\ o.n < P.detach)

NoSlot == [kind |-> "none", id |-> 0]

S0(P) == [ pc   |-> [a \in Ranks(P) |-> 1],
           ph   |-> [a \in Ranks(P) |-> IF NOps(P, a) = 0 THEN "done" ELSE "run"],   \* run | called | posted | done
           uq   |-> <<>>,      \* posted, still unmatched messages, sorted by id (keeps each sender's posting order)
           pq   |-> <<>>,      \* posted, still unmatched receives, sorted by id (keeps each rank's posting order)
           mt   |-> {},        \* matches made so far: records [r |-> receive, m |-> message]
           slot |-> [a \in Ranks(P) |-> [i \in 1..P.nslots |-> NoSlot]],
           obs  |-> [a \in Ranks(P) |-> <<>>] ]                       \* history: results observed by each rank

\* ------------------------------------------------------------------ queues
InsertById(q, x) ==
  LET n == Cardinality({ i \in 1..Len(q) : q[i].id < x.id }) IN SubSeq(q, 1, n) \o <<x>> \o SubSeq(q, n + 1, Len(q))
RemoveAt(q, i) == SubSeq(q, 1, i - 1) \o SubSeq(q, i + 1, Len(q))

MsgOf(P, a, k, o) == [id |-> Id(a, k), src |-> a, dst |-> World(P, o.c, o.peer), c |-> o.c, tag |-> o.tag, n |-> o.n]
RcvOf(P, a, k, c, peer, tag, n) ==
  [id |-> Id(a, k), own |-> a, c |-> c, src |-> IF peer = ANY THEN 0 ELSE World(P, c, peer), tag |-> tag, n |-> n]

\* the matching condition of MPI: communicator, destination, source and tag (wildcards on the receiving side only)
Compatible(r, m) == /\ r.own = m.dst /\ r.c = m.c
                    /\ (r.src = 0 \/ r.src = m.src)
                    /\ (r.tag = ANY \/ r.tag = m.tag)
SameChannel(m1, m2) == m1.c = m2.c /\ m1.src = m2.src /\ m1.dst = m2.dst

\* Relaxations (all FALSE in the reference semantics).  They describe, for classification only, the known deviation
\* of SMPI when smpi/async-small-thresh > 0 (two mailboxes per rank, chosen by size): an execution rejected by the
\* reference semantics and accepted under a relaxation is reported as that known finding, anything else as a violation.
\*   sorder: a message overtakes an earlier one of the other size class carrying a different tag
\*   rorder: a later receive of the other size class is served before an earlier one
\*   trunc : a receive smaller than the threshold and a message at or above it may never meet (no truncation error)
Small(P, n)   == n < P.eager
RelaxOn(P, f) == P.eager > 0 /\ f
SendBlocks(P, m1, m) == ~RelaxOn(P, P.relax.sorder) \/ Small(P, m1.n) = Small(P, m.n) \/ m1.tag = m.tag
RecvBlocks(P, r1, r) == ~RelaxOn(P, P.relax.rorder) \/ Small(P, r1.n) = Small(P, r.n)
NeverMeet(P, r, m)   == RelaxOn(P, P.relax.trunc) /\ Small(P, r.n) /\ ~Small(P, m.n)

CanMatch(P, s, i, j) ==
  LET r == s.pq[i]   m == s.uq[j] IN
  /\ Compatible(r, m)
  \* messages do not overtake
  /\ \A j2 \in 1..(j - 1) : ~(SameChannel(s.uq[j2], m) /\ Compatible(r, s.uq[j2]) /\ SendBlocks(P, s.uq[j2], m))
  \* receives are served in order
  /\ \A i2 \in 1..(i - 1) : ~(Compatible(s.pq[i2], m) /\ RecvBlocks(P, s.pq[i2], r))
DoMatch(s, i, j) == [s EXCEPT !.pq = RemoveAt(@, i), !.uq = RemoveAt(@, j),
                              !.mt = @ \cup {[r |-> s.pq[i], m |-> s.uq[j]]}]
MatchPairs(P, s) == { ij \in (1..Len(s.pq)) \X (1..Len(s.uq)) : CanMatch(P, s, ij[1], ij[2]) }
\* the matches whose absence makes a standstill a deadlock (all of them in the reference semantics)
DueMatchPairs(P, s) == { ij \in MatchPairs(P, s) : ~NeverMeet(P, s.pq[ij[1]], s.uq[ij[2]]) }

\* messages a probe (c, src, tag) of rank a may report: the first compatible one of a channel, not owed to a pending receive
Probeable(P, s, a, o) ==
  LET pr == RcvOf(P, a, 0, o.c, o.peer, o.tag, 0) IN
  { j \in 1..Len(s.uq) :
      /\ Compatible(pr, s.uq[j])
      /\ \A j2 \in 1..(j - 1) : ~(SameChannel(s.uq[j2], s.uq[j]) /\ Compatible(pr, s.uq[j2]) /\ SendBlocks(P, s.uq[j2], s.uq[j]))
      /\ \A i \in 1..Len(s.pq) : ~(Compatible(s.pq[i], s.uq[j]) /\ ~NeverMeet(P, s.pq[i], s.uq[j])) }

\* ------------------------------------------------------------------ completion
SendMatched(s, id) == \E x \in s.mt : x.m.id = id
RecvMatched(s, id) == \E x \in s.mt : x.r.id = id
MatchOf(s, id)     == CHOOSE x \in s.mt : x.r.id = id
SendDone(P, s, id) == Buffered(P, OpOf(P, IdRank(id), IdOp(id))) \/ SendMatched(s, id)

\* results: one record per status an operation reports (a sequence of them per operation: empty for a non-blocking
\* post, one for most, Len(rs) for waitall).  pay = 1 when the operation delivers a payload (mid is then observable)
SendRes  == [flag |-> 1, src |-> OPEN, tag |-> OPEN, cnt |-> 0, err |-> 0, mid |-> 0, pay |-> 0]
EmptyRes == [flag |-> 1, src |-> ANY, tag |-> ANY, cnt |-> 0, err |-> 0, mid |-> 0, pay |-> 0]   \* MPI "empty status"
NoRes    == [flag |-> 0, src |-> OPEN, tag |-> OPEN, cnt |-> 0, err |-> 0, mid |-> 0, pay |-> 0] \* flag = false
RecvRes(P, x) ==     \* status of a receive matched with message x.m: exact source, tag, count; truncation is an error
  [flag |-> 1, src |-> CRank(P, x.m.c, x.m.src), tag |-> x.m.tag,
   cnt |-> IF x.m.n > x.r.n THEN x.r.n ELSE x.m.n, err |-> IF x.m.n > x.r.n THEN 1 ELSE 0, mid |-> x.m.id, pay |-> 1]
ProbeRes(P, m) == [flag |-> 1, src |-> CRank(P, m.c, m.src), tag |-> m.tag, cnt |-> m.n, err |-> 0, mid |-> m.id, pay |-> 0]

SlotDone(P, s, a, i) == LET q == s.slot[a][i] IN
  \/ q.kind = "none" \/ (q.kind = "send" /\ SendDone(P, s, q.id)) \/ (q.kind = "recv" /\ RecvMatched(s, q.id))
SlotRes(P, s, a, i) == LET q == s.slot[a][i] IN
  IF q.kind = "none" THEN EmptyRes ELSE IF q.kind = "send" THEN SendRes ELSE RecvRes(P, MatchOf(s, q.id))

\* ------------------------------------------------------------------ steps of a rank
\* Pre: s.ph[a] \in {"run", "called"} and Cur(P,s,a).op \in Posting.  The send / receive becomes visible to matching.
PostEffect(P, s, a) ==
  LET o == Cur(P, s, a)   k == s.pc[a]
      s1 == IF o.op \in SendPosting THEN [s EXCEPT !.uq = InsertById(@, MsgOf(P, a, k, o))] ELSE s
      s2 == IF o.op \in {"recv", "irecv"} THEN [s1 EXCEPT !.pq = InsertById(@, RcvOf(P, a, k, o.c, o.peer, o.tag, o.n))]
            ELSE IF o.op = "sendrecv" THEN [s1 EXCEPT !.pq = InsertById(@, RcvOf(P, a, k, o.c, o.peer2, o.tag2, o.n2))]
            ELSE s1 IN
  IF o.op \in {"isend", "issend"} THEN [s2 EXCEPT !.slot[a][o.r] = [kind |-> "send", id |-> Id(a, k)]]
  ELSE IF o.op = "irecv" THEN [s2 EXCEPT !.slot[a][o.r] = [kind |-> "recv", id |-> Id(a, k)]]
  ELSE s2

Finish(P, s, a, res) ==
  LET npc == s.pc[a] + 1 IN
  [s EXCEPT !.obs[a] = Append(@, res), !.pc[a] = npc, !.ph[a] = IF npc > NOps(P, a) THEN "done" ELSE "run"]

RECURSIVE ClearSlots(_, _, _)
ClearSlots(s, a, rs) == IF rs = <<>> THEN s ELSE ClearSlots([s EXCEPT !.slot[a][Head(rs)] = NoSlot], a, Tail(rs))

\* the states in which the current operation of a may return, given that its post (if any) has taken effect.
\* A set: empty = cannot return yet; several elements = MPI leaves the answer open (probe among senders, flags).
Completions(P, s, a) ==
  LET o == Cur(P, s, a)   id == Id(a, s.pc[a]) IN
  CASE o.op \in NonBlocking            -> { Finish(P, s, a, <<>>) }
    [] o.op \in {"send", "ssend", "bsend"} -> IF SendDone(P, s, id) THEN { Finish(P, s, a, <<SendRes>>) } ELSE {}
    [] o.op = "recv"     -> IF RecvMatched(s, id) THEN { Finish(P, s, a, <<RecvRes(P, MatchOf(s, id))>>) } ELSE {}
    [] o.op = "sendrecv" -> IF SendDone(P, s, id) /\ RecvMatched(s, id)
                            THEN { Finish(P, s, a, <<RecvRes(P, MatchOf(s, id))>>) } ELSE {}
    [] o.op = "wait"     -> IF SlotDone(P, s, a, o.r)
                            THEN { Finish(P, [s EXCEPT !.slot[a][o.r] = NoSlot], a, <<SlotRes(P, s, a, o.r)>>) } ELSE {}
    [] o.op = "waitall"  -> IF \A i \in 1..Len(o.rs) : SlotDone(P, s, a, o.rs[i])
                            THEN { Finish(P, ClearSlots(s, a, o.rs), a, [i \in 1..Len(o.rs) |-> SlotRes(P, s, a, o.rs[i])]) }
                            ELSE {}
    [] o.op = "probe"    -> { Finish(P, s, a, <<ProbeRes(P, s.uq[j])>>) : j \in Probeable(P, s, a, o) }
    \* flag = false is always a legal answer of MPI_Test on an active request / of MPI_Iprobe (the data may still be
    \* on its way); flag = true needs the completion condition / an available message
    [] o.op = "test"     -> IF s.slot[a][o.r].kind = "none" THEN { Finish(P, s, a, <<EmptyRes>>) }
                            ELSE { Finish(P, s, a, <<NoRes>>) } \cup
                                 (IF SlotDone(P, s, a, o.r)
                                  THEN { Finish(P, [s EXCEPT !.slot[a][o.r] = NoSlot], a, <<SlotRes(P, s, a, o.r)>>) } ELSE {})
    [] o.op = "iprobe"   -> { Finish(P, s, a, <<NoRes>>) } \cup
                            { Finish(P, s, a, <<ProbeRes(P, s.uq[j])>>) : j \in Probeable(P, s, a, o) }
    [] OTHER -> {}

AllDone(P, s)    == \A a \in Ranks(P) : s.ph[a] = "done"
\* a rank whose current operation has taken its posting effect (or has none) and has not returned yet
Waiting(P, s, a) == s.ph[a] = "posted" \/ (s.ph[a] = "run" /\ Cur(P, s, a).op \notin Posting)

\* Matches at different destinations commute, and a match at destination d can only matter to the return of an
\* operation that receives / probes at d or that waits for a send addressed to d.  RelDst = those destinations for
\* the current operation of a.  The wrappers use it to fire matches *on demand* (just before a return that may need
\* them) instead of at every possible instant: same reachable outcomes, far fewer interleavings.
SendDst(P, id) == LET o == OpOf(P, IdRank(id), IdOp(id)) IN World(P, o.c, o.peer)
SlotDst(P, s, a, i) == IF s.slot[a][i].kind = "send" THEN {SendDst(P, s.slot[a][i].id)} ELSE {}
RelDst(P, s, a) ==
  LET o == Cur(P, s, a) IN
  {a} \cup (IF o.op \in SendPosting THEN {World(P, o.c, o.peer)} ELSE {})
      \cup (IF o.op \in {"wait", "test"} THEN SlotDst(P, s, a, o.r) ELSE {})
      \cup (IF o.op = "waitall" THEN UNION { SlotDst(P, s, a, o.rs[i]) : i \in 1..Len(o.rs) } ELSE {})
RelevantPairs(P, s, D) == { ij \in MatchPairs(P, s) : s.uq[ij[2]].dst \in D }
WaitingDsts(P, s) == UNION { RelDst(P, s, a) : a \in { b \in Ranks(P) : Waiting(P, s, b) } }

\* nothing can happen any more: every rank is done or waits for something no possible match can provide
Quiescent(P, s)  == /\ RelevantPairs(P, s, WaitingDsts(P, s)) = {}
                    /\ \A a \in Ranks(P) : \/ s.ph[a] = "done"
                                           \/ (Waiting(P, s, a) /\ Completions(P, s, a) = {})
Deadlocked(P, s) == Quiescent(P, s) /\ ~AllDone(P, s)
BlockedInProbe(P, s) == \E a \in Ranks(P) : Waiting(P, s, a) /\ Cur(P, s, a).op = "probe"

\* ------------------------------------------------------------------ properties (state predicates over (P, s))
\* a receive matches only a message of its communicator, addressed to its rank, of an accepted source and tag
MatchCompatible(P, s) == \A x \in s.mt : Compatible(x.r, x.m) /\ Member(P, x.m.c, x.m.src) /\ Member(P, x.m.c, x.m.dst)
\* every message is received at most once, every receive gets at most one message, queues and matches are disjoint
ExactlyOnce(P, s) ==
  /\ \A x, y \in s.mt : (x.m.id = y.m.id \/ x.r.id = y.r.id) => x = y
  /\ \A j \in 1..Len(s.uq) : ~SendMatched(s, s.uq[j].id)
  /\ \A i \in 1..Len(s.pq) : ~RecvMatched(s, s.pq[i].id)
  /\ \A i, j \in 1..Len(s.uq) : i < j => s.uq[i].id < s.uq[j].id
  /\ \A i, j \in 1..Len(s.pq) : i < j => s.pq[i].id < s.pq[j].id
\* MPI-3.1 3.5 "Order": a matched receive never took a message while an earlier message of the same sender on the
\* same communicator, which it could also have taken, is still pending ...
NonOvertakingSends(P, s) ==
  \A x \in s.mt : \A j \in 1..Len(s.uq) :
     ~(SameChannel(s.uq[j], x.m) /\ s.uq[j].id < x.m.id /\ Compatible(x.r, s.uq[j]) /\ SendBlocks(P, s.uq[j], x.m))
\* ... and a message was never given to a receive while an earlier receive of the same rank that it also satisfies is pending
NonOvertakingRecvs(P, s) ==
  \A x \in s.mt : \A i \in 1..Len(s.pq) :
     ~(s.pq[i].own = x.r.own /\ s.pq[i].id < x.r.id /\ Compatible(s.pq[i], x.m) /\ RecvBlocks(P, s.pq[i], x.r))
\* among the matches made: two messages of one channel taken by receives that would each accept both are taken in order
PairwiseOrder(P, s) ==
  \A x, y \in s.mt :
     (SameChannel(x.m, y.m) /\ x.m.id < y.m.id /\ Compatible(x.r, y.m) /\ Compatible(y.r, x.m) /\ x.r.own = y.r.own
      /\ SendBlocks(P, x.m, y.m) /\ RecvBlocks(P, x.r, y.r))
        => x.r.id < y.r.id
\* what the ranks observed is what was matched: status source / tag / count of every completed receive
RECURSIVE ObsExact(_, _, _, _)
ObsExact(P, s, a, k) ==
  IF k = 0 THEN TRUE
  ELSE LET o == OpOf(P, a, k)   res == s.obs[a][k] IN
       /\ ObsExact(P, s, a, k - 1)
       /\ (o.op \in {"recv", "sendrecv"} =>
             /\ RecvMatched(s, Id(a, k)) /\ res = <<RecvRes(P, MatchOf(s, Id(a, k)))>>
             /\ (res[1].err = 0 => res[1].cnt = MatchOf(s, Id(a, k)).m.n))
StatusExact(P, s) == \A a \in Ranks(P) : ObsExact(P, s, a, Len(s.obs[a]))

PhaseConsistency(P, s) ==
  \A a \in Ranks(P) : /\ Len(s.obs[a]) = s.pc[a] - 1
                      /\ (s.ph[a] = "done") = (s.pc[a] > NOps(P, a))

P2PInv(P, s) == /\ MatchCompatible(P, s) /\ ExactlyOnce(P, s) /\ NonOvertakingSends(P, s) /\ NonOvertakingRecvs(P, s)
                /\ PairwiseOrder(P, s) /\ StatusExact(P, s) /\ PhaseConsistency(P, s)

Outcome(P, s) == [ obs |-> s.obs, end |-> IF AllDone(P, s) THEN "normal" ELSE "deadlock",
                   probe |-> BlockedInProbe(P, s) ]
=============================================================================
