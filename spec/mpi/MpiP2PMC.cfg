SPECIFICATION Spec
INVARIANT Inv
INVARIANT PrintOutcomes
PROPERTY MatchStable
PROPERTY PostOrder
