------------------------------ MODULE MpiP2PMC ------------------------------
(* (M) Exhaustive exploration of MpiP2P: every interleaving of posts, matches and completions of every program of  *)
(* a batch.  PROGS (environment) names a JSON file holding a list of programs.  Terminal outcomes are printed      *)
(* (OUT lines): the set of receive outcomes MPI allows for the program, against which real runs are compared.      *)
(* MCFULL=1 (environment): matches may fire at every instant (the plain lazy semantics); otherwise they fire on     *)
(* demand (MpiP2P!RelDst), which reaches the same outcomes; the check compares both on its small-scope programs.    *)
EXTENDS MpiP2P, Json, IOUtils

Progs == TLCEval(JsonDeserialize(IOEnv.PROGS))
Full  == "MCFULL" \in DOMAIN IOEnv /\ IOEnv.MCFULL = "1"

VARIABLES pid, st
vars == <<pid, st>>
P == Progs[pid]

Init == pid \in 1..Len(Progs) /\ st = S0(Progs[pid])

\* a rank starts its next posting operation: the post takes effect; a non-blocking post returns in the same step
Start(a) == /\ st.ph[a] = "run" /\ Cur(P, st, a).op \in Posting
            /\ IF Cur(P, st, a).op \in NonBlocking THEN st' \in Completions(P, PostEffect(P, st, a), a)
               ELSE st' = [PostEffect(P, st, a) EXCEPT !.ph[a] = "posted"]
Return(a) == Waiting(P, st, a) /\ st' \in Completions(P, st, a)

StartSome  == UNCHANGED pid /\ \E a \in Ranks(P) : Start(a)
ReturnSome == UNCHANGED pid /\ \E a \in Ranks(P) : Return(a)
Match      == /\ UNCHANGED pid
              /\ \E ij \in (IF Full THEN MatchPairs(P, st) ELSE RelevantPairs(P, st, WaitingDsts(P, st))) :
                    st' = DoMatch(st, ij[1], ij[2])

Next == Match \/ StartSome \/ ReturnSome
Spec == Init /\ [][Next]_vars

Inv == P2PInv(P, st)

\* the matched set only grows and a match, once made, is never undone or changed
MatchStable == [][st.mt \subseteq st'.mt]_vars
\* program order: the operations of a rank are started one after the other
PostOrder == [][\A a \in Ranks(P) : st'.pc[a] \in {st.pc[a], st.pc[a] + 1}]_vars

PrintOutcomes == Quiescent(P, st) => PrintT(<<"OUT", pid, ToJson(Outcome(P, st))>>)
=============================================================================
