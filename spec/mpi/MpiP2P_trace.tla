----------------------------- MODULE MpiP2P_trace -----------------------------
(* (T) Trace validation: executions of the real SMPI (driver harness/mpi_p2p.cpp) must be behaviours of MpiP2P.     *)
(* TRACE (environment) = ndjson, several executions separated by reset lines; PROGS = the programs.                *)
(* Line vocabulary (written by the ranks in real execution order: one process, sequential scheduler, O_APPEND):     *)
(*   reset pid | comm a c rank size | call a k op | ret a k res | fin a | end how                                    *)
(* What the log cannot show is *when*, between the call and the ret line of an operation, its post became visible   *)
(* to the matching engine (the rank yields inside the MPI call), and when a match was made.  The post is taken at   *)
(* the call line (no loss of generality, see TCall); matches are silent steps (TMatch) fired on demand; the answer  *)
(* of an operation is evaluated when its ret line is consumed.  Acceptance = "a state having consumed every line   *)
(* of the execution is reachable": register r holds the highest line index reached in execution r (printed by the *)
(* post-condition).  The invariants of MpiP2P are evaluated in every state of the observed executions.              *)
EXTENDS MpiP2P, Json, IOUtils

Progs == TLCEval(JsonDeserialize(IOEnv.PROGS))
Tr    == TLCEval(ndJsonDeserialize(IOEnv.TRACE))
Runs  == TLCEval(JsonDeserialize(IOEnv.RUNS))      \* Runs[i] = <<first line (the reset line), last line>> of execution i

\* every execution of the batch is validated on its own (one initial state per execution), so that a rejected
\* execution does not hide the following ones
VARIABLES run, pid, st, l, fin
vars == <<run, pid, st, l, fin>>
P  == Progs[pid]
Ln == Tr[l]

Init == /\ run \in 1..Len(Runs)
        /\ l = Runs[run][1] + 1 /\ pid = Tr[Runs[run][1]].pid /\ st = S0(Progs[pid]) /\ fin = FALSE

More    == l <= Runs[run][2]
Consume == l' = l + 1
Live    == More /\ ~fin

\* lines after the end of the execution (ranks killed by the deadlock report ...) are not examined
TSkip  == /\ More /\ fin /\ Consume /\ UNCHANGED <<run, pid, st, fin>>

\* the communicators the ranks really got are those of the program (rank and size as MPI reports them)
TComm == /\ Live /\ Ln.e = "comm" /\ Ln.a \in Ranks(P) /\ Ln.c \in 1..Len(P.comms)
         /\ (Member(P, Ln.c, Ln.a) => Ln.rank = CRank(P, Ln.c, Ln.a) /\ Ln.size = Len(P.comms[Ln.c]))
         /\ Consume /\ UNCHANGED <<run, pid, st, fin>>

\* a rank enters an operation.  Its send / receive becomes visible somewhere between this line and the ret line; in
\* the lazy-matching semantics an earlier post disables nothing (what a post can block are later posts of the same
\* rank only), so it is taken here without loss of generality
TCall == /\ Live /\ Ln.e = "call" /\ Ln.a \in Ranks(P)
         /\ st.ph[Ln.a] = "run" /\ st.pc[Ln.a] = Ln.k /\ Cur(P, st, Ln.a).op = Ln.op
         /\ st' = [(IF Ln.op \in Posting THEN PostEffect(P, st, Ln.a) ELSE st) EXCEPT !.ph[Ln.a] = "posted"]
         /\ Consume /\ UNCHANGED <<run, pid, fin>>

\* silent: a match allowed by the MPI rules is made.  On demand (MpiP2P!RelDst): before the return of an operation
\* it may matter to, and before a deadlock report (which needs that no match is possible any more)
TMatch == /\ Live
          /\ \/ /\ Ln.e = "ret" /\ Ln.a \in Ranks(P) /\ st.ph[Ln.a] = "posted"
                /\ \E ij \in RelevantPairs(P, st, RelDst(P, st, Ln.a)) : st' = DoMatch(st, ij[1], ij[2])
             \/ /\ Ln.e = "end" /\ Ln.how \in {"deadlock", "hang"}
                /\ \E ij \in MatchPairs(P, st) : st' = DoMatch(st, ij[1], ij[2])
          /\ UNCHANGED <<run, pid, l, fin>>

\* a logged status agrees with the status the semantics gives.  Left open: the status of a completed send; count,
\* source and tag of a truncated receive (only the error is required); payload identity when no payload byte came.
Agree(x, y) ==
  /\ y.flag = x.flag
  /\ IF x.flag = 0 THEN TRUE
     ELSE IF x.src = OPEN THEN y.err = 0
     ELSE IF x.err = 1 THEN y.err = 1
     ELSE /\ y.err = 0 /\ y.src = x.src /\ y.tag = x.tag /\ y.cnt = x.cnt
          /\ (x.pay = 1 => y.ok = 1)                               \* received bytes intact, nothing written beyond count
          /\ (x.pay = 1 /\ x.cnt >= 4 => y.mid = x.mid)            \* the bytes are those of the matched message
ResAgree(xs, ys) == Len(xs) = Len(ys) /\ \A i \in 1..Len(xs) : Agree(xs[i], ys[i])

TRet == /\ Live /\ Ln.e = "ret" /\ Ln.a \in Ranks(P)
        /\ st.pc[Ln.a] = Ln.k /\ st.ph[Ln.a] = "posted"
        /\ st' \in { t \in Completions(P, st, Ln.a) : ResAgree(t.obs[Ln.a][Ln.k], Ln.res) }
        /\ Consume /\ UNCHANGED <<run, pid, fin>>

TFin == /\ Live /\ Ln.e = "fin" /\ Ln.a \in Ranks(P) /\ st.ph[Ln.a] = "done"
        /\ Consume /\ UNCHANGED <<run, pid, st, fin>>

Stuck(a) == st.ph[a] = "done" \/ (st.ph[a] = "posted" /\ Completions(P, st, a) = {})
TEnd == /\ Live /\ Ln.e = "end"
        /\ \/ Ln.how = "normal" /\ AllDone(P, st)
           \/ /\ Ln.how \in {"deadlock", "hang"}          \* SimGrid's deadlock report; MPI_Probe polls for ever instead
              /\ ~AllDone(P, st) /\ DueMatchPairs(P, st) = {} /\ \A a \in Ranks(P) : Stuck(a)
              /\ (Ln.how = "hang" => \E a \in Ranks(P) : st.ph[a] = "posted" /\ Cur(P, st, a).op = "probe")
        /\ fin' = TRUE /\ Consume /\ UNCHANGED <<run, pid, st>>

Next == TSkip \/ TComm \/ TCall \/ TMatch \/ TRet \/ TFin \/ TEnd
Spec == Init /\ [][Next]_vars

Inv == fin \/ P2PInv(P, st)

\* register `run` = highest line of execution `run` consumed so far (needs -workers 1); an execution is accepted iff
\* its register reaches its last line + 1
Progress == TLCSet(run, IF TLCGet(run) > l THEN TLCGet(run) ELSE l)
ProgressInv == Progress
AtEnd == \A r \in 1..Len(Runs) : PrintT(<<"PROGRESS", r, TLCGet(r), Runs[r][2]>>)
ASSUME \A r \in 1..Len(Runs) : TLCSet(r, 0)
=============================================================================
