-------------------------------- MODULE MpiReplay --------------------------------
(* Replay of a time-independent (TI) trace against the online run it was recorded from -- property C37.             *)
(* A case c = [n |-> ranks, tol |-> tolerance in picoseconds (SimGrid's precision/timing),                          *)
(*             online |-> <<per rank: sequence of [c |-> call name, hi |-> ms, lo |-> ps within the ms]>>,          *)
(*             replay |-> same shape, read from the replayer's per-action log].                                      *)
(* The online sequences are the specification of the replay: the replay must refine them in lock-step -- rank by    *)
(* rank, the same calls in the same order, each completing at the same simulated date (within tol) -- and dates     *)
(* never decrease along a rank.  Dates are split in (ms, ps) because TLC integers have 32 bits.                      *)
EXTENDS Naturals, Integers, Sequences, TLC

Abs(x) == IF x < 0 THEN -x ELSE x
\* |a - b| <= tol, for dates [hi, lo]
Near(a, b, tol) ==
  LET dh == a.hi - b.hi IN
  /\ Abs(dh) <= 1
  /\ Abs(dh * 1000000000 + (a.lo - b.lo)) <= tol
Leq(a, b) == a.hi < b.hi \/ (a.hi = b.hi /\ a.lo <= b.lo)
\* signed difference in ps, saturated to +-2*10^9 (for the report only)
Diff(a, b) == LET dh == a.hi - b.hi IN
              IF dh > 1 THEN 2000000000 ELSE IF dh < -1 THEN -2000000000 ELSE dh * 1000000000 + (a.lo - b.lo)

Monotone(seq, k) == k > 1 => Leq(seq[k - 1], seq[k])
\* what the k-th call of rank r must satisfy, given the prefix already accepted
StepOk(c, r, k) ==
  /\ k <= Len(c.online[r]) /\ k <= Len(c.replay[r])
  /\ c.replay[r][k].c = c.online[r][k].c
  /\ Near(c.replay[r][k], c.online[r][k], c.tol)
  /\ Monotone(c.replay[r], k) /\ Monotone(c.online[r], k)

Why(c, r, k) ==
  IF k > Len(c.replay[r]) THEN "replay-shorter"
  ELSE IF k > Len(c.online[r]) THEN "replay-longer"
  ELSE IF c.replay[r][k].c # c.online[r][k].c THEN "call"
  ELSE IF ~Near(c.replay[r][k], c.online[r][k], c.tol) THEN "date"
  ELSE IF ~Monotone(c.replay[r], k) THEN "replay-not-monotone"
  ELSE IF ~Monotone(c.online[r], k) THEN "online-not-monotone"
  ELSE "none"
=============================================================================
