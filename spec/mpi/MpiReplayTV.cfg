SPECIFICATION Spec
INVARIANT Verdict
