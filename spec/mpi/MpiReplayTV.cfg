SPECIFICATION Spec
INVARIANT MonotoneInv
INVARIANT Verdict
