------------------------------- MODULE MpiReplayTV -------------------------------
(* Lock-step validation of a batch of cases (CASES = JSON list).  One behaviour per case: ranks are walked one after *)
(* the other (their sequences are independent), one call per step.  A behaviour that cannot go on before the end    *)
(* is a disagreement; the verdict of each case is printed from its last state.                                       *)
EXTENDS MpiReplay, Json, IOUtils

Cases == JsonDeserialize(IOEnv.CASES)

VARIABLES cid, r, k, maxd
vars == <<cid, r, k, maxd>>
C == Cases[cid]

Init == cid \in 1..Len(Cases) /\ r = 1 /\ k = 1 /\ maxd = 0

RankDone == k > Len(C.online[r]) /\ k > Len(C.replay[r])
Step == /\ r <= C.n /\ ~RankDone /\ StepOk(C, r, k)
        /\ k' = k + 1 /\ maxd' = (IF Abs(Diff(C.replay[r][k], C.online[r][k])) > maxd THEN Abs(Diff(C.replay[r][k], C.online[r][k])) ELSE maxd)
        /\ UNCHANGED <<cid, r>>
NextRank == /\ r <= C.n /\ RankDone /\ r' = r + 1 /\ k' = 1 /\ UNCHANGED <<cid, maxd>>
Next == Step \/ NextRank
Spec == Init /\ [][Next]_vars

Accepted == r = C.n + 1
Stuck    == r <= C.n /\ ~RankDone /\ ~StepOk(C, r, k)
Verdict  == /\ (Accepted => PrintT(<<"VERDICT", cid, "ok", 0, 0, maxd>>))
            /\ (Stuck => PrintT(<<"VERDICT", cid, Why(C, r, k), r, k,
                                  IF k <= Len(C.online[r]) /\ k <= Len(C.replay[r]) THEN Diff(C.replay[r][k], C.online[r][k]) ELSE 0>>))
=============================================================================
