--------------------------------- MODULE MpiRma ---------------------------------
(* One-sided communication (MPI RMA) over one window -- property C34.                                             *)
(* A program P is data:  [n |-> number of ranks, w |-> cells per window, init |-> <<initial memory of each rank>>, *)
(*                        ranks |-> <<statement list of each rank>>]                                               *)
(* Statement = [op, t, d, n, f, v, c]:  op in                                                                       *)
(*   synchronisation: "fence" "barrier" (collective), "lock" (exclusive, target t) "unlock", "lockall" "unlockall", *)
(*                    "flush" (target t) "flushall";                                                                *)
(*   access (target t, displacement d, n cells): "put" (data v), "get", "acc" (data v, operator f),                *)
(*                    "gacc" (fetches, then combines v with f), "fop" (gacc on one cell), "cas" (compare c, new v). *)
(* Semantics: the accesses a rank issues between two of its synchronisation statements form a segment; each access  *)
(* takes effect atomically at some point between the synchronisation that opens the segment and the one that closes *)
(* it, in any order -- except that accumulate-class accesses of one origin to overlapping cells of one target keep   *)
(* program order (MPI's default accumulate_ordering).  An exclusive lock on t excludes every other lock on t; shared *)
(* locks (lock_all) exclude exclusive ones.  Whole accesses are atomic, as the property states ("the corresponding  *)
(* sequential operations"); the generator only emits concurrent multi-cell accesses for which MPI's element-wise    *)
(* atomicity gives the same outcomes.                                                                                *)
(* The state is one record s (functional core); Apply / Sync / Collective are the transitions.                       *)
EXTENDS Naturals, Integers, Sequences, FiniteSets, TLC, Bitwise

Ranks(P)      == 1..P.n
NSt(P, r)     == Len(P.ranks[r])
Stmt(P, r, k) == P.ranks[r][k]
AccessOps     == {"put", "get", "acc", "gacc", "fop", "cas"}
AccClassOps   == {"acc", "gacc", "fop", "cas"}
IsAccess(st)  == st.op \in AccessOps
IsColl(st)    == st.op \in {"fence", "barrier"}

S0(P) == [ mem   |-> [r \in Ranks(P) |-> P.init[r]],
           pc    |-> [r \in Ranks(P) |-> 1],
           done  |-> [r \in Ranks(P) |-> {}],            \* accesses of the current segment of r already applied
           fet   |-> [r \in Ranks(P) |-> [k \in 1..NSt(P, r) |-> <<>>]],   \* values fetched by statement k of r
           lockx |-> [t \in Ranks(P) |-> 0],              \* exclusive holder of the window of t
           shr   |-> [t \in Ranks(P) |-> {}],             \* shared holders
           who   |-> 0, bad |-> FALSE ]

\* ------------------------------------------------------------------ segments
RECURSIVE SegLast(_, _, _)
SegLast(P, r, k) == IF k <= NSt(P, r) /\ IsAccess(Stmt(P, r, k)) THEN SegLast(P, r, k + 1) ELSE k - 1
Seg(P, s, r) == s.pc[r]..SegLast(P, r, s.pc[r])

Overlap(a, b) == a.t = b.t /\ a.d < b.d + b.n /\ b.d < a.d + a.n
CanApply(P, s, r, k) ==
  /\ k \in Seg(P, s, r) \ s.done[r]
  /\ \A j \in Seg(P, s, r) \ s.done[r] :
        j < k => ~(Stmt(P, r, j).op \in AccClassOps /\ Stmt(P, r, k).op \in AccClassOps /\ Overlap(Stmt(P, r, j), Stmt(P, r, k)))

\* ------------------------------------------------------------------ the sequential meaning of one access
Combine(f, old, x) ==
  CASE f = "sum" -> old + x   [] f = "prod" -> old * x
    [] f = "max" -> (IF old >= x THEN old ELSE x)   [] f = "min" -> (IF old <= x THEN old ELSE x)
    [] f = "band" -> old & x  [] f = "bor" -> old | x  [] f = "bxor" -> old ^^ x
    [] f = "replace" -> x     [] f = "noop" -> old

Cells(st)   == (st.d + 1)..(st.d + st.n)                 \* window memories are 1-based sequences, displacements 0-based
Old(m, st)  == [i \in 1..st.n |-> m[st.d + i]]
Updated(m, st, new) == [i \in 1..Len(m) |-> IF i \in Cells(st) THEN new[i - st.d] ELSE m[i]]

NewMem(m, st) ==
  CASE st.op = "put" -> Updated(m, st, st.v)
    [] st.op = "get" -> m
    [] st.op \in {"acc", "gacc", "fop"} -> Updated(m, st, [i \in 1..st.n |-> Combine(st.f, m[st.d + i], IF st.f = "noop" THEN 0 ELSE st.v[i])])
    [] st.op = "cas" -> IF m[st.d + 1] = st.c[1] THEN Updated(m, st, st.v) ELSE m
Fetches(st) == st.op \in {"get", "gacc", "fop", "cas"}

Apply(P, s, r, k) ==
  LET st   == Stmt(P, r, k)
      m    == s.mem[st.t]
      dn   == s.done[r] \cup {k}
      full == dn = Seg(P, s, r) IN
  [s EXCEPT !.mem[st.t] = NewMem(m, st),
            !.fet[r][k] = IF Fetches(st) THEN Old(m, st) ELSE <<>>,
            !.done[r]   = IF full THEN {} ELSE dn,
            !.pc[r]     = IF full THEN SegLast(P, r, s.pc[r]) + 1 ELSE @,
            !.who = r]

\* ------------------------------------------------------------------ synchronisation of one rank
AtSync(P, s, r) == s.pc[r] <= NSt(P, r) /\ ~IsAccess(Stmt(P, r, s.pc[r])) /\ ~IsColl(Stmt(P, r, s.pc[r]))
SyncEnabled(P, s, r) ==
  LET st == Stmt(P, r, s.pc[r]) IN
  CASE st.op = "lock"    -> s.lockx[st.t] = 0 /\ s.shr[st.t] = {}
    [] st.op = "lockall" -> \A t \in Ranks(P) : s.lockx[t] = 0
    [] OTHER -> TRUE
Sync(P, s, r) ==
  LET st == Stmt(P, r, s.pc[r])
      n  == [s EXCEPT !.pc[r] = @ + 1, !.who = r] IN
  CASE st.op = "lock"      -> [n EXCEPT !.lockx[st.t] = r]
    [] st.op = "unlock"    -> IF s.lockx[st.t] = r THEN [n EXCEPT !.lockx[st.t] = 0] ELSE [n EXCEPT !.bad = TRUE]
    [] st.op = "lockall"   -> [n EXCEPT !.shr = [t \in Ranks(P) |-> s.shr[t] \cup {r}]]
    [] st.op = "unlockall" -> IF \A t \in Ranks(P) : r \in s.shr[t] THEN [n EXCEPT !.shr = [t \in Ranks(P) |-> s.shr[t] \ {r}]]
                              ELSE [n EXCEPT !.bad = TRUE]
    [] st.op \in {"flush", "flushall"} -> n      \* a segment boundary: everything issued before has taken effect
    [] OTHER -> [n EXCEPT !.bad = TRUE]

\* ------------------------------------------------------------------ collective synchronisation (fence, barrier)
CollEnabled(P, s) ==
  /\ \A r \in Ranks(P) : s.pc[r] <= NSt(P, r) /\ IsColl(Stmt(P, r, s.pc[r]))
  /\ \A r \in Ranks(P) : Stmt(P, r, s.pc[r]).op = Stmt(P, 1, s.pc[1]).op
Coll(P, s) == [s EXCEPT !.pc = [r \in Ranks(P) |-> s.pc[r] + 1], !.who = 0]

Finished(P, s) == \A r \in Ranks(P) : s.pc[r] > NSt(P, r)
Outcome(P, s)  == [mem |-> s.mem, fet |-> s.fet]

\* ------------------------------------------------------------------ properties of the semantics itself
LockInv(P, s) ==
  /\ ~s.bad
  /\ \A t \in Ranks(P) : s.lockx[t] # 0 => s.shr[t] = {}
  /\ \A r \in Ranks(P) : s.done[r] \subseteq Seg(P, s, r) /\ (Seg(P, s, r) # {} => s.done[r] # Seg(P, s, r))
\* an access is only applied by a rank that holds a lock on the target, or inside a fence epoch (no lock held by anybody)
AccessUnderSync(P, s, r, k) ==
  LET t == Stmt(P, r, k).t IN s.lockx[t] = r \/ r \in s.shr[t] \/ (s.lockx[t] = 0 /\ s.shr[t] = {})
=============================================================================
