SPECIFICATION Spec
INVARIANT Inv
INVARIANT NoStuck
INVARIANT PrintOutcomes
PROPERTY ExclusiveSerialises
PROPERTY OnlyAccessesWrite
VIEW View
