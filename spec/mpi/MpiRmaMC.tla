-------------------------------- MODULE MpiRmaMC --------------------------------
(* M: every order the synchronisation allows, for every program of a batch (PROGS = JSON list).  Terminal states    *)
(* print their outcome (final window memories, fetched values): the reference set for the real runs.               *)
EXTENDS MpiRma, Json, IOUtils

Progs == JsonDeserialize(IOEnv.PROGS)

VARIABLES pid, st
vars == <<pid, st>>
P == Progs[pid]

Init == pid \in 1..Len(Progs) /\ st = S0(Progs[pid])

DoApply(r, k) == CanApply(P, st, r, k) /\ AccessUnderSync(P, st, r, k) /\ st' = Apply(P, st, r, k)
DoSync(r)     == AtSync(P, st, r) /\ SyncEnabled(P, st, r) /\ st' = Sync(P, st, r)
DoColl        == CollEnabled(P, st) /\ st' = Coll(P, st)

ApplyStep == UNCHANGED pid /\ \E r \in Ranks(P) : \E k \in Seg(P, st, r) : DoApply(r, k)
SyncStep  == UNCHANGED pid /\ \E r \in Ranks(P) : DoSync(r)
CollStep  == UNCHANGED pid /\ DoColl
Next == ApplyStep \/ SyncStep \/ CollStep
Spec == Init /\ [][Next]_vars

Inv == LockInv(P, st)
\* nothing is stuck: a state without successor is a finished program (the generator only emits deadlock-free programs)
NoStuck == (~ENABLED Next) => Finished(P, st)
\* C34 as an action property: while a rank holds the exclusive lock of t, nobody else changes the memory of t
ExclusiveSerialises ==
  [][\A t \in Ranks(P) : (st.lockx[t] # 0 /\ st'.mem[t] # st.mem[t]) => st'.who = st.lockx[t]]_vars
\* memory only changes through Apply steps
OnlyAccessesWrite == [][(st'.mem # st.mem) => (st'.who # 0 /\ st'.pc[st'.who] >= st.pc[st'.who])]_vars

View == <<pid, [st EXCEPT !.who = 0]>>
PrintOutcomes == Finished(P, st) => PrintT(<<"OUT", pid, ToJson(Outcome(P, st))>>)
=============================================================================
