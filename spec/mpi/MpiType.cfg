\* MpiType is a module of definitions; it is exercised through MpiTypeGen (MpiTypeGen_small.cfg / MpiTypeGen_sim.cfg)
