------------------------------- MODULE MpiType -------------------------------
(* Derived datatypes (MPI-3.1 chapter 4) as values: a datatype is a tree                                           *)
(*   [k |-> "basic", name, size] | "contig"(count, old) | "vector"(count, bl, stride, old) | "hvector"(count, bl,  *)
(*   stride in bytes, old) | "indexed"(bls, disps in extents of old, old) | "hindexed"(bls, disps in bytes, old) |   *)
(*   "iblock"(bl, disps, old) | "struct"(bls, disps in bytes, olds) | "resized"(lb, extent, old) |                   *)
(*   "subarray"(sizes, subsizes, starts, order "C"/"F", old)                                                         *)
(* and its meaning Sem(t) = [tm, lb, ub]: the type map as the sequence, in type-map order, of the byte blocks         *)
(* <<displacement, length>> of its basic elements, and the lower / upper bound.  Rules (MPI-3.1 4.1.2, 4.1.6, 4.1.7): *)
(*   a constructor places copies of the old type at displacements D_k: the new type map is the concatenation of the   *)
(*   shifted type maps, lb = min_k (D_k + lb(old)), ub = max_k (D_k + ub(old)); consecutive copies inside a block     *)
(*   are extent(old) apart; resized keeps the type map and sets lb, ub = lb + extent; subarray is the row-major       *)
(*   (order C) or column-major (order F) enumeration of the selected elements of an array of old, with lb = 0 and     *)
(*   ub = (product of the sizes) * extent(old).  The alignment padding epsilon of 4.1.6 is 0 (alignments k_i = 1      *)
(*   are allowed to an implementation, and SMPI documents none).  Communication with count c uses the type map of     *)
(*   c copies extent(t) apart (Repl).                                                                                 *)
EXTENDS Naturals, Integers, Sequences, FiniteSets

Min2(a, b) == IF a < b THEN a ELSE b
Max2(a, b) == IF a > b THEN a ELSE b
RECURSIVE ProdFrom(_, _)
ProdFrom(d, i) == IF i > Len(d) THEN 1 ELSE d[i] * ProdFrom(d, i + 1)
ProdTo(d, i)   == IF i = 0 THEN 1 ELSE ProdFrom(SubSeq(d, 1, i), 1)

Ext(s)      == s.ub - s.lb
Move(s, dd) == [tm |-> [j \in DOMAIN s.tm |-> <<s.tm[j][1] + dd, s.tm[j][2]>>], lb |-> s.lb + dd, ub |-> s.ub + dd]
Join(a, b)  == [tm |-> a.tm \o b.tm, lb |-> Min2(a.lb, b.lb), ub |-> Max2(a.ub, b.ub)]
\* n >= 1 copies of s, st bytes apart
RECURSIVE Repl(_, _, _)
Repl(s, n, st) == IF n = 1 THEN s ELSE Join(Repl(s, n - 1, st), Move(s, (n - 1) * st))
\* the non-empty sequence ss of meanings joined in order
JoinAll(ss) == LET F[j \in 1..Len(ss)] == IF j = 1 THEN ss[1] ELSE Join(F[j - 1], ss[j]) IN F[Len(ss)]

\* the elements of a sub-array in type-map order, as linear indices into the full array
\* order C: the last dimension varies fastest, both in the array layout and in the enumeration; order F: the first
RECURSIVE SubIdx(_, _, _, _, _)
SubIdx(sizes, subsizes, starts, ord, dim) ==     \* linear offsets contributed by dimensions dim.. (C) / ..dim (F)
  LET nd == Len(sizes) IN
  IF ord = "C" THEN
    IF dim > nd THEN <<0>>
    ELSE LET rest == SubIdx(sizes, subsizes, starts, ord, dim + 1)  w == ProdFrom(sizes, dim + 1)
             F[a \in 0..subsizes[dim]] == IF a = 0 THEN <<>> ELSE F[a - 1] \o [q \in DOMAIN rest |-> (starts[dim] + a - 1) * w + rest[q]]
         IN F[subsizes[dim]]
  ELSE
    IF dim < 1 THEN <<0>>
    ELSE LET rest == SubIdx(sizes, subsizes, starts, ord, dim - 1)  w == ProdTo(sizes, dim - 1)
             F[a \in 0..subsizes[dim]] == IF a = 0 THEN <<>> ELSE F[a - 1] \o [q \in DOMAIN rest |-> (starts[dim] + a - 1) * w + rest[q]]
         IN F[subsizes[dim]]
SubElems(t) == IF t.order = "C" THEN SubIdx(t.sizes, t.subsizes, t.starts, "C", 1)
               ELSE SubIdx(t.sizes, t.subsizes, t.starts, "F", Len(t.sizes))

RECURSIVE Sem(_)
Sem(t) ==
  CASE t.k = "basic"    -> [tm |-> << <<0, t.size>> >>, lb |-> 0, ub |-> t.size]
    [] t.k = "contig"   -> LET o == Sem(t.old) IN Repl(o, t.count, Ext(o))
    [] t.k = "vector"   -> LET o == Sem(t.old) IN Repl(Repl(o, t.bl, Ext(o)), t.count, t.stride * Ext(o))
    [] t.k = "hvector"  -> LET o == Sem(t.old) IN Repl(Repl(o, t.bl, Ext(o)), t.count, t.stride)
    [] t.k = "indexed"  -> LET o == Sem(t.old) IN JoinAll([j \in DOMAIN t.bls |-> Move(Repl(o, t.bls[j], Ext(o)), t.disps[j] * Ext(o))])
    [] t.k = "hindexed" -> LET o == Sem(t.old) IN JoinAll([j \in DOMAIN t.bls |-> Move(Repl(o, t.bls[j], Ext(o)), t.disps[j])])
    [] t.k = "iblock"   -> LET o == Sem(t.old) IN JoinAll([j \in DOMAIN t.disps |-> Move(Repl(o, t.bl, Ext(o)), t.disps[j] * Ext(o))])
    [] t.k = "struct"   -> JoinAll([j \in DOMAIN t.bls |-> LET o == Sem(t.olds[j]) IN Move(Repl(o, t.bls[j], Ext(o)), t.disps[j])])
    [] t.k = "resized"  -> LET o == Sem(t.old) IN [tm |-> o.tm, lb |-> t.lb, ub |-> t.lb + t.extent]
    [] t.k = "subarray" -> LET o == Sem(t.old)  el == SubElems(t)
                               all == JoinAll([j \in DOMAIN el |-> Move(o, el[j] * Ext(o))]) IN
                           [tm |-> all.tm, lb |-> 0, ub |-> ProdFrom(t.sizes, 1) * Ext(o)]

Size(s)   == LET F[j \in 0..Len(s.tm)] == IF j = 0 THEN 0 ELSE F[j - 1] + s.tm[j][2] IN F[Len(s.tm)]
\* the selected bytes, in type-map order
Bytes(s)  == LET F[j \in 0..Len(s.tm)] == IF j = 0 THEN <<>> ELSE F[j - 1] \o [q \in 1..s.tm[j][2] |-> s.tm[j][1] + q - 1] IN F[Len(s.tm)]
TrueLb(s) == LET S == { s.tm[j][1] : j \in DOMAIN s.tm } IN CHOOSE m \in S : \A x \in S : m <= x
TrueUb(s) == LET S == { s.tm[j][1] + s.tm[j][2] : j \in DOMAIN s.tm } IN CHOOSE m \in S : \A x \in S : m >= x
\* what a communication of c >= 1 elements of the type touches
Comm(s, c) == Repl(s, c, Ext(s))
NoOverlap(s) == LET b == Bytes(s) IN Cardinality({ b[j] : j \in DOMAIN b }) = Len(b)

\* ------------------------------------------------------------------ laws (checked by TLC on every generated tree)
RECURSIVE Plain(_)
Plain(t) == \/ t.k = "basic"
            \/ (t.k \notin {"resized", "subarray"} /\ (IF t.k = "struct" THEN \A j \in DOMAIN t.olds : Plain(t.olds[j]) ELSE Plain(t.old)))
TypeLaws(t) ==
  LET s == Sem(t) IN
  /\ Size(s) = Len(Bytes(s))
  /\ Plain(t) => (s.lb = TrueLb(s) /\ s.ub = TrueUb(s))              \* no explicit bound below: the bounds are the true bounds
  /\ t.k = "contig" => s = Sem([k |-> "vector", count |-> t.count, bl |-> 1, stride |-> 1, old |-> t.old])
  /\ t.k = "vector" => s = Sem([k |-> "hvector", count |-> t.count, bl |-> t.bl, stride |-> t.stride * Ext(Sem(t.old)), old |-> t.old])
  /\ t.k = "indexed" => s = Sem([k |-> "hindexed", bls |-> t.bls, disps |-> [j \in DOMAIN t.disps |-> t.disps[j] * Ext(Sem(t.old))], old |-> t.old])
  /\ t.k = "iblock" => s = Sem([k |-> "indexed", bls |-> [j \in DOMAIN t.disps |-> t.bl], disps |-> t.disps, old |-> t.old])
  /\ t.k = "hindexed" => s = Sem([k |-> "struct", bls |-> t.bls, disps |-> t.disps, olds |-> [j \in DOMAIN t.bls |-> t.old]])
  /\ t.k = "resized" => Size(s) = Size(Sem(t.old)) /\ Ext(s) = t.extent
  /\ t.k = "subarray" => Size(s) = ProdFrom(t.subsizes, 1) * Size(Sem(t.old))
  /\ Size(Comm(s, 3)) = 3 * Size(s) /\ Ext(Comm(s, 3)) = 3 * Ext(s)
=============================================================================
