----------------------------- MODULE MpiTypeGen -----------------------------
(* Case generator for C30 (shape G).  A case is a datatype tree (at most Depth constructor levels over the basic types*)
(* BYTE, SHORT, INT, DOUBLE) printed as its nodes in post-order (children before parents, child references are node   *)
(* numbers) with, from MpiType: size / lb / ub (and displacement of the first / end of the last type-map entry) of EVERY *)
(* node, and for counts 1..MaxCount the bytes (displacements in    *)
(* type-map order) that a communication of that many elements of the root type selects.                               *)
(* SpecSmall: every tree built from the constructor menus below up to Level levels (exhaustive);                        *)
(* SpecSim (-simulate -seed): random trees.  Only trees whose MaxCount-fold replication has no overlapping byte and     *)
(* stays below MaxSpan are printed (a receive type must not overlap; the driver's buffers are bounded).                *)
EXTENDS MpiType, TLC, Json, Randomization

CONSTANTS Depth, Level, MaxCount, MaxSpan, NSlices, Slice
VARIABLES i, c
vars == <<i, c>>

B(name, size) == [k |-> "basic", name |-> name, size |-> size]
Basics == { B("BYTE", 1), B("SHORT", 2), B("INT", 4), B("DOUBLE", 8) }

\* ------------------------------------------------------------------ the tree as a list of nodes
Node(k, name, p, ch) == [k |-> k, name |-> name, p |-> p, ch |-> ch]
B2I(b) == IF b THEN 1 ELSE 0
ParamsOf(t) ==
  CASE t.k = "contig"   -> <<t.count>>
    [] t.k = "vector"   -> <<t.count, t.bl, t.stride>>
    [] t.k = "hvector"  -> <<t.count, t.bl, t.stride>>
    [] t.k = "indexed"  -> <<Len(t.bls)>> \o t.bls \o t.disps
    [] t.k = "hindexed" -> <<Len(t.bls)>> \o t.bls \o t.disps
    [] t.k = "iblock"   -> <<Len(t.disps), t.bl>> \o t.disps
    [] t.k = "resized"  -> <<t.lb, t.extent>>
    [] t.k = "subarray" -> <<Len(t.sizes), B2I(t.order = "C")>> \o t.sizes \o t.subsizes \o t.starts
RECURSIVE Flat(_)
Flat(t) ==
  IF t.k = "basic" THEN << Node("basic", t.name, <<t.size>>, <<>>) >>
  ELSE IF t.k = "struct" THEN
    LET F[j \in 0..Len(t.olds)] ==
          IF j = 0 THEN [nodes |-> <<>>, idx |-> <<>>]
          ELSE LET prev == F[j - 1]  sub == Flat(t.olds[j])  off == Len(prev.nodes)
                   ren == [q \in DOMAIN sub |-> [sub[q] EXCEPT !.ch = [z \in DOMAIN sub[q].ch |-> sub[q].ch[z] + off]]]
               IN [nodes |-> prev.nodes \o ren, idx |-> Append(prev.idx, off + Len(sub))]
        r == F[Len(t.olds)]
    IN r.nodes \o << Node("struct", "", <<Len(t.bls)>> \o t.bls \o t.disps, r.idx) >>
  ELSE LET sub == Flat(t.old) IN sub \o << Node(t.k, "", ParamsOf(t), <<Len(sub)>>) >>
RECURSIVE Lays(_)
Lays(t) ==
  LET s == Sem(t)  me == << <<Size(s), s.lb, s.ub, s.tm[1][1], s.tm[Len(s.tm)][1] + s.tm[Len(s.tm)][2]>> >> IN
  IF t.k = "basic" THEN me
  ELSE IF t.k = "struct" THEN
    LET F[j \in 0..Len(t.olds)] == IF j = 0 THEN <<>> ELSE F[j - 1] \o Lays(t.olds[j]) IN F[Len(t.olds)] \o me
  ELSE Lays(t.old) \o me

Good(t) == LET s == Sem(t)  m == Comm(s, MaxCount) IN
           /\ Ext(s) >= 1 /\ s.lb >= 0
           /\ TrueUb(m) <= MaxSpan /\ m.ub <= MaxSpan /\ Size(s) >= 1 /\ Size(s) <= 320
           /\ NoOverlap(m)
RECURSIVE Height(_)
Height(t) == IF t.k = "basic" THEN 0
             ELSE IF t.k = "struct" THEN 1 + (LET H == { Height(t.olds[j]) : j \in DOMAIN t.olds } IN CHOOSE h \in H : \A g \in H : h >= g)
             ELSE 1 + Height(t.old)

Eval(x) == LET s == Sem(x.t) IN
           [k |-> "type", nodes |-> Flat(x.t), lay |-> Lays(x.t), root |-> x.t.k, height |-> Height(x.t),
            size |-> Size(s), lb |-> s.lb, ub |-> s.ub, ext |-> Ext(s), tlb |-> TrueLb(s), tub |-> TrueUb(s),
            bytes |-> [n \in 1..MaxCount |-> Bytes(Comm(s, n))]]

\* ------------------------------------------------------------------ small scope: constructor menus
BInt == B("INT", 4)
Cons(o) ==     \* the trees with one constructor over o
  LET so == Sem(o)  e == Ext(so)  tu == TrueUb(so) IN
     { [k |-> "contig", count |-> n, old |-> o] : n \in {1, 2} }
  \cup { [k |-> "vector", count |-> v[1], bl |-> v[2], stride |-> v[3], old |-> o] : v \in { <<1, 1, 1>>, <<2, 1, 2>>, <<2, 2, 3>>, <<2, 1, 1>> } }
  \cup { [k |-> "hvector", count |-> 2, bl |-> v[1], stride |-> v[1] * e + v[2], old |-> o] : v \in { <<1, 2>>, <<2, 4>> } }
  \cup { [k |-> "indexed", bls |-> v[1], disps |-> v[2], old |-> o] : v \in { << <<1>>, <<2>> >>, << <<2>>, <<1>> >>, << <<2, 1>>, <<0, 3>> >>, << <<1, 2>>, <<3, 0>> >> } }
  \cup { [k |-> "hindexed", bls |-> v[1], disps |-> v[2], old |-> o] : v \in { << <<1>>, <<4>> >>, << <<1, 1>>, <<0, 2 * e + 4>> >>, << <<2, 1>>, <<3 * e, 0>> >> } }
  \cup { [k |-> "iblock", bl |-> v[1], disps |-> v[2], old |-> o] : v \in { <<1, <<0, 2>> >>, <<2, <<3, 0>> >> } }
  \cup { [k |-> "struct", bls |-> <<1, 1>>, disps |-> <<0, tu + 4>>, olds |-> <<o, BInt>>],
         [k |-> "struct", bls |-> <<1, 2>>, disps |-> <<2 * e + tu + 8, 0>>, olds |-> <<o, BInt>>] }
  \cup { [k |-> "resized", lb |-> v[1], extent |-> v[2], old |-> o] : v \in { <<0, e + 4>>, <<4, e>>, <<4, e + 8>>, <<so.lb, Max2(1, tu - so.lb)>> } }
  \cup { [k |-> "subarray", sizes |-> v[1], subsizes |-> v[2], starts |-> v[3], order |-> v[4], old |-> o] :
           v \in { << <<3>>, <<2>>, <<1>>, "C" >>, << <<2, 3>>, <<2, 2>>, <<0, 1>>, "C" >>, << <<2, 3>>, <<1, 2>>, <<1, 0>>, "F" >>,
                   << <<2, 2, 2>>, <<1, 2, 1>>, <<1, 0, 1>>, "C" >> } }
ConsLite(o) == { t \in Cons(o) : \/ (t.k = "contig" /\ t.count = 2) \/ (t.k = "vector" /\ t.bl = 2) \/ (t.k = "indexed" /\ t.bls = <<1, 2>>)
                                 \/ (t.k = "hindexed" /\ Len(t.bls) = 2 /\ t.bls[1] = 2) \/ (t.k = "struct" /\ t.bls = <<1, 2>>)
                                 \/ (t.k = "resized" /\ t.lb = 4 /\ t.extent > Ext(Sem(o))) \/ (t.k = "subarray" /\ t.order = "F") }
L1 == UNION { Cons(b) : b \in { B("SHORT", 2), BInt } }
L2 == UNION { Cons(o) : o \in L1 }
L3 == UNION { ConsLite(o) : o \in { t \in L2 : Good(t) } }
\* a slice: trees are numbered by a cheap hash of their layout
Hash(t) == LET s == Sem(t) IN (Size(s) * 7 + s.ub * 3 + s.lb + Len(s.tm)) % NSlices
Trees == IF Level = 1 THEN L1 ELSE IF Level = 2 THEN L1 \cup L2 ELSE L1 \cup L2 \cup L3
InitSmall == i = 0 /\ \E t \in Trees : Hash(t) = Slice /\ Good(t) /\ c = [k |-> "type", t |-> t]
SpecSmall == InitSmall /\ [][FALSE]_vars

\* ------------------------------------------------------------------ sampling
RECURSIVE RandSeq(_, _)
RandSeq(n, S) == IF n = 0 THEN <<>> ELSE <<RandomElement(S)>> \o RandSeq(n - 1, S)
Rev(s) == [j \in DOMAIN s |-> s[Len(s) + 1 - j]]
\* displacements of blocks of the given lengths (in units), laid out one after the other with random gaps
RECURSIVE Spread(_, _, _)
Spread(lens, gaps, cur) == IF lens = <<>> THEN <<>> ELSE <<cur + Head(gaps)>> \o Spread(Tail(lens), Tail(gaps), cur + Head(gaps) + Head(lens))
RECURSIVE RandType(_)
RandType(d) ==
  IF d = 0 THEN RandomElement(Basics)
  ELSE
  LET kind == RandomElement({"contig", "vector", "hvector", "indexed", "hindexed", "iblock", "struct", "resized", "subarray"})
      o == TLCEval(RandType(IF RandomElement(1..3) = 1 THEN 0 ELSE d - 1))
      so == Sem(o)  e == Ext(so)  tu == Max2(TrueUb(so), so.ub)
      n == RandomElement(1..3)
      bls == TLCEval(RandSeq(n, 1..2))
      flip == RandomElement(BOOLEAN) IN
  CASE kind = "contig" -> [k |-> kind, count |-> RandomElement(1..3), old |-> o]
    [] kind = "vector" -> LET bl == RandomElement(1..2) IN [k |-> kind, count |-> RandomElement(1..3), bl |-> bl, stride |-> bl + RandomElement(0..2), old |-> o]
    [] kind = "hvector" -> LET bl == RandomElement(1..2) IN
                           [k |-> kind, count |-> RandomElement(1..3), bl |-> bl, stride |-> (bl - 1) * e + tu + RandomElement({0, 1, 2, 4, 8}), old |-> o]
    [] kind = "indexed" -> LET ds == TLCEval(Spread(bls, RandSeq(n, 0..2), 0)) IN
                           [k |-> kind, bls |-> IF flip THEN Rev(bls) ELSE bls, disps |-> IF flip THEN Rev(ds) ELSE ds, old |-> o]
    [] kind = "hindexed" -> LET ds == TLCEval(Spread([j \in 1..n |-> (bls[j] - 1) * e + tu], RandSeq(n, {0, 1, 3, 4, 8}), 0)) IN
                            [k |-> kind, bls |-> IF flip THEN Rev(bls) ELSE bls, disps |-> IF flip THEN Rev(ds) ELSE ds, old |-> o]
    [] kind = "iblock" -> LET bl == RandomElement(1..2)  ds == TLCEval(Spread([j \in 1..n |-> bl], RandSeq(n, 0..2), 0)) IN
                          [k |-> kind, bl |-> bl, disps |-> IF flip THEN Rev(ds) ELSE ds, old |-> o]
    [] kind = "struct" -> LET os == TLCEval([j \in 1..n |-> IF j = 1 THEN o ELSE TLCEval(RandType(IF d > 1 /\ RandomElement(1..3) = 1 THEN d - 1 ELSE 0))])
                              len(j) == LET sj == Sem(os[j]) IN (bls[j] - 1) * Ext(sj) + Max2(TrueUb(sj), sj.ub)
                              ds == TLCEval(Spread([j \in 1..n |-> len(j)], RandSeq(n, {0, 1, 4, 8}), 0)) IN
                          [k |-> kind, bls |-> IF flip THEN Rev(bls) ELSE bls, disps |-> IF flip THEN Rev(ds) ELSE ds, olds |-> IF flip THEN Rev(os) ELSE os]
    [] kind = "resized" -> [k |-> kind, lb |-> RandomElement({0, so.lb, 4, so.lb + 4}),
                            extent |-> RandomElement({e, e + 4, e + 8, Max2(1, TrueUb(so)), Max2(1, TrueUb(so) - so.lb)}), old |-> o]
    [] OTHER -> LET nd == RandomElement(1..3)
                    sz == TLCEval(RandSeq(nd, 1..(IF nd = 3 THEN 3 ELSE 4)))
                    ss == TLCEval([j \in 1..nd |-> RandomElement(1..sz[j])])
                    st == TLCEval([j \in 1..nd |-> RandomElement(0..(sz[j] - ss[j]))]) IN
                [k |-> "subarray", sizes |-> sz, subsizes |-> ss, starts |-> st, order |-> RandomElement({"C", "F"}), old |-> o]
\* (the body must mention j: TLC evaluates a parameter-free operator body only once; j is forced before the nested TLCEval)
RandCase(j) == IF j < 0 THEN [k |-> "none"]
               ELSE LET t == TLCEval(RandType(RandomElement(1..Depth) + 0 * j)) IN IF Good(t) THEN [k |-> "type", t |-> t] ELSE [k |-> "none"]
InitSim == i = 0 /\ c = [k |-> "none"]
NextSim == i' = i + 1 /\ c' = TLCEval(RandCase(i + 1))
SpecSim == InitSim /\ [][NextSim]_vars

Laws == c.k = "type" => TypeLaws(c.t) /\ Good(c.t) /\ Len(Flat(c.t)) = Len(Lays(c.t))
Out  == c.k = "type" => PrintT(<<"CASE", ToJson(Eval(c))>>)
=============================================================================
