SPECIFICATION SpecSim
CONSTANTS Depth = 3
          Level = 2
          MaxCount = 3
          MaxSpan = 4000
          NSlices = 1
          Slice = 0
INVARIANT Laws
INVARIANT Out
