-------------------------------- MODULE SmpiPriv --------------------------------
(* Privatisation of global variables in SMPI (smpi/privatization: mmap or dlopen) -- property C36.                  *)
(* All MPI ranks of a simulation live in one OS process; each must nevertheless see its own copy of every global /  *)
(* static variable of the application.                                                                              *)
(*   store[r][v]   value of variable v as seen by rank r (initially the program's initial value of v)               *)
(*   Write(r,v,x)  changes the writer's copy only;  a read by r returns r's own last write                          *)
(* MPI calls matter in two ways: they are the points where the simulator switches ranks, and their buffers may be    *)
(* global variables themselves (the data is then read from the sender's copy and stored into the receiver's copy):  *)
(*   chan[s][d]    FIFO of values in flight from s to d (MPI non-overtaking, one communicator, one tag)              *)
(*   coll          contributions of the ranks to the collective under way (allreduce-sum, bcast)                    *)
(* A program P = [n, vars (initial values), ranks (statement lists)] is only used to know n, the initial values and *)
(* to check that each logged event is the next statement of its rank.                                                *)
EXTENDS Naturals, Integers, Sequences, FiniteSets, TLC

Ranks(P) == 1..P.n
Vars(P)  == 1..Len(P.vars)

S0(P) == [ store |-> [r \in Ranks(P) |-> P.vars],
           pc    |-> [r \in Ranks(P) |-> 1],
           chan  |-> [s \in Ranks(P) |-> [d \in Ranks(P) |-> <<>>]],
           cin   |-> [r \in Ranks(P) |-> <<>>],     \* contributions of r to the collectives it has entered, in order
           cout  |-> [r \in Ranks(P) |-> 0] ]       \* number of collectives r has left

Stmt(P, s, r) == P.ranks[r][s.pc[r]]
AtStmt(P, s, r, op, v) == s.pc[r] <= Len(P.ranks[r]) /\ Stmt(P, s, r).op = op /\ Stmt(P, s, r).v = v
Adv(s, r) == [s EXCEPT !.pc[r] = @ + 1]

\* ------------------------------------------------------------------ local accesses
Write(s, r, v, x) == Adv([s EXCEPT !.store[r][v] = x], r)
ReadOk(s, r, v, x) == s.store[r][v] = x            \* C36: the value read is the reader's own last write
Read(s, r)        == Adv(s, r)

\* ------------------------------------------------------------------ point-to-point with global variables as buffers
\* the send is logged before the call with the value x the variable holds: it is that value which travels
SendOk(s, r, v, x) == s.store[r][v] = x
Send(s, r, d, x)   == Adv([s EXCEPT !.chan[r][d] = Append(@, x)], r)
\* the receive is logged after the call with the value now in the variable
RecvOk(s, r, src, x) == s.chan[src][r] # <<>> /\ Head(s.chan[src][r]) = x
Recv(s, r, v, src, x) == Adv([s EXCEPT !.chan[src][r] = Tail(@), !.store[r][v] = x], r)

\* ------------------------------------------------------------------ collectives (every rank calls them in the same order)
\* entering: the rank contributes the value x of variable v (logged before the call)
CollIn(s, r, x) == [s EXCEPT !.cin[r] = Append(@, x)]
\* leaving the k-th collective: every contribution it needs is there, and the result stored in variable w is right
Sum(P, s, k) == LET RECURSIVE Acc(_)
                    Acc(r) == IF r = 0 THEN 0 ELSE s.cin[r][k] + Acc(r - 1) IN Acc(P.n)
AllreduceOk(P, s, r, x) == LET k == s.cout[r] + 1 IN
                           /\ \A q \in Ranks(P) : Len(s.cin[q]) >= k
                           /\ x = Sum(P, s, k)
BcastOk(P, s, r, root, x) == LET k == s.cout[r] + 1 IN Len(s.cin[root]) >= k /\ x = s.cin[root][k]
BarrierOk(P, s, r)        == LET k == s.cout[r] + 1 IN \A q \in Ranks(P) : Len(s.cin[q]) >= k
CollOut(s, r, w, x) == Adv([s EXCEPT !.cout[r] = @ + 1, !.store[r][w] = x], r)
BarrierOut(s, r)    == Adv([s EXCEPT !.cout[r] = @ + 1], r)

Finished(P, s) == /\ \A r \in Ranks(P) : s.pc[r] = Len(P.ranks[r]) + 1
                  /\ \A a, b \in Ranks(P) : s.chan[a][b] = <<>>

\* ------------------------------------------------------------------ invariants
TypeOk(P, s) == /\ \A r \in Ranks(P) : s.pc[r] \in 1..(Len(P.ranks[r]) + 1) /\ s.cout[r] <= Len(s.cin[r])
                /\ \A r \in Ranks(P) : Len(s.store[r]) = Len(P.vars)
=============================================================================
