------------------------------ MODULE SmpiPrivTrace -----------------------------
(* T: the executions recorded by harness/mpi_priv.c (one ndjson line per access / MPI call, in real execution       *)
(* order: all ranks live in one process and write to one file) must be behaviours of SmpiPriv.                       *)
(* TRACE = ndjson, several executions separated by {"e":"reset","pid":k}; PROGS = JSON list of programs.             *)
(* Every line is consumed by exactly one action or by none (rejection): register 1 keeps the highest line reached.  *)
(* Lines: w (write) r (read) send recv (p2p, also the halves of isend/irecv/waitall/sendrecv) cin cout (collective  *)
(* entry / exit; k = allreduce | bcast | barrier) nop (a call without data: sleep, a wait) end.                      *)
EXTENDS SmpiPriv, Json, IOUtils

Progs == JsonDeserialize(IOEnv.PROGS)
Tr    == ndJsonDeserialize(IOEnv.TRACE)

VARIABLES pid, st, l, fin
vars == <<pid, st, l, fin>>
P  == Progs[pid]
Ln == Tr[l]

Init == l = 1 /\ pid = 1 /\ st = S0(Progs[1]) /\ fin = TRUE
More == l <= Len(Tr)
Consume == l' = l + 1
Live == More /\ ~fin

TReset == More /\ Ln.e = "reset" /\ fin /\ pid' = Ln.pid /\ st' = S0(Progs[Ln.pid]) /\ fin' = FALSE /\ Consume

OkRank == Ln.r \in Ranks(P)
TWrite == /\ Live /\ Ln.e = "w" /\ OkRank /\ AtStmt(P, st, Ln.r, "w", Ln.v) /\ Stmt(P, st, Ln.r).x = Ln.x
          /\ st' = Write(st, Ln.r, Ln.v, Ln.x) /\ Consume /\ UNCHANGED <<pid, fin>>
TRead  == /\ Live /\ Ln.e = "r" /\ OkRank /\ AtStmt(P, st, Ln.r, "r", Ln.v)
          /\ ReadOk(st, Ln.r, Ln.v, Ln.x)
          /\ st' = Read(st, Ln.r) /\ Consume /\ UNCHANGED <<pid, fin>>
TSend  == /\ Live /\ Ln.e = "send" /\ OkRank /\ AtStmt(P, st, Ln.r, "send", Ln.v) /\ Stmt(P, st, Ln.r).p = Ln.p
          /\ SendOk(st, Ln.r, Ln.v, Ln.x)
          /\ st' = Send(st, Ln.r, Ln.p, Ln.x) /\ Consume /\ UNCHANGED <<pid, fin>>
TRecv  == /\ Live /\ Ln.e = "recv" /\ OkRank /\ AtStmt(P, st, Ln.r, "recv", Ln.v) /\ Stmt(P, st, Ln.r).p = Ln.p
          /\ RecvOk(st, Ln.r, Ln.p, Ln.x)
          /\ st' = Recv(st, Ln.r, Ln.v, Ln.p, Ln.x) /\ Consume /\ UNCHANGED <<pid, fin>>
\* a collective statement [op |-> "coll", k, v (input variable), w (output variable), p (root)] gives two lines
TCin   == /\ Live /\ Ln.e = "cin" /\ OkRank /\ AtStmt(P, st, Ln.r, "coll", Ln.v) /\ Stmt(P, st, Ln.r).k = Ln.k
          /\ Len(st.cin[Ln.r]) = st.cout[Ln.r]                          \* not already inside a collective
          /\ (Ln.k # "barrier" => SendOk(st, Ln.r, Ln.v, Ln.x))
          /\ st' = CollIn(st, Ln.r, Ln.x) /\ Consume /\ UNCHANGED <<pid, fin>>
TCout  == /\ Live /\ Ln.e = "cout" /\ OkRank /\ AtStmt(P, st, Ln.r, "coll", Ln.v) /\ Stmt(P, st, Ln.r).k = Ln.k
          /\ Len(st.cin[Ln.r]) = st.cout[Ln.r] + 1
          /\ CASE Ln.k = "allreduce" -> AllreduceOk(P, st, Ln.r, Ln.x) /\ st' = CollOut(st, Ln.r, Stmt(P, st, Ln.r).w, Ln.x)
               [] Ln.k = "bcast"     -> BcastOk(P, st, Ln.r, Stmt(P, st, Ln.r).p, Ln.x) /\ st' = CollOut(st, Ln.r, Stmt(P, st, Ln.r).w, Ln.x)
               [] Ln.k = "barrier"   -> BarrierOk(P, st, Ln.r) /\ st' = BarrierOut(st, Ln.r)
               [] OTHER -> FALSE
          /\ Consume /\ UNCHANGED <<pid, fin>>
TNop   == /\ Live /\ Ln.e = "nop" /\ OkRank /\ AtStmt(P, st, Ln.r, "nop", 0)
          /\ st' = Adv(st, Ln.r) /\ Consume /\ UNCHANGED <<pid, fin>>
TEnd   == /\ Live /\ Ln.e = "end" /\ Finished(P, st) /\ fin' = TRUE /\ Consume /\ UNCHANGED <<pid, st>>

Next == TReset \/ TWrite \/ TRead \/ TSend \/ TRecv \/ TCin \/ TCout \/ TNop \/ TEnd
Spec == Init /\ [][Next]_vars

Inv == fin \/ TypeOk(P, st)
Progress == TLCSet(1, IF TLCGet(1) > l THEN TLCGet(1) ELSE l)
ProgressInv == Progress
AtEnd == PrintT(<<"PROGRESS", TLCGet(1), Len(Tr)>>)
ASSUME TLCSet(1, 0)
=============================================================================
