------------------------------- MODULE SmpiShared -------------------------------
(* Partially shared buffers of SMPI (SMPI_PARTIAL_SHARED_MALLOC) -- property C35.                                   *)
(* A layout L = [size |-> n, sh |-> << <<b1,e1>>, ..., <<bk,ek>> >>]: an allocation of n bytes whose bytes          *)
(* b_i <= x < e_i are declared shared (their content is meaningless, SMPI may skip copying them); every other byte *)
(* is private.  sh = <<>> stands for an ordinary (malloc) buffer: every byte private.                              *)
(* A case c = [s, r, so, ro, n]: a message of n bytes sent from offset so of an allocation with layout s and        *)
(* received at offset ro of an allocation with layout r.  Required(c) = the message bytes that must arrive intact:  *)
(* those lying in a private region of BOTH buffers.  Nothing is required of the others.                             *)
(* ReqIv(c) is the same set as a normalised interval list (usable when the buffers are large); TLC checks           *)
(* IvBytes(ReqIv(c)) = Required(c) on every enumerated case.                                                        *)
EXTENDS Naturals, Integers, Sequences, FiniteSets, TLC

Max2(a, b) == IF a >= b THEN a ELSE b
Min2(a, b) == IF a <= b THEN a ELSE b

\* what smpi_shared_malloc_partial accepts: non-empty blocks, inside the allocation, strictly increasing, not touching
WellFormedLayout(L) ==
  /\ L.size >= 1
  /\ \A i \in 1..Len(L.sh) : L.sh[i][1] >= 0 /\ L.sh[i][1] < L.sh[i][2] /\ L.sh[i][2] <= L.size
  /\ \A i \in 1..(Len(L.sh) - 1) : L.sh[i][2] < L.sh[i + 1][1]

Shared(L, x)  == \E i \in 1..Len(L.sh) : L.sh[i][1] <= x /\ x < L.sh[i][2]
Private(L, x) == x >= 0 /\ x < L.size /\ ~Shared(L, x)

WellFormedCase(c) ==
  /\ WellFormedLayout(c.s) /\ WellFormedLayout(c.r)
  /\ c.n >= 1 /\ c.so >= 0 /\ c.ro >= 0 /\ c.so + c.n <= c.s.size /\ c.ro + c.n <= c.r.size

\* ---------------------------------------------------------------- the property, byte by byte
Required(c) == { i \in 0..(c.n - 1) : Private(c.s, c.so + i) /\ Private(c.r, c.ro + i) }

\* ---------------------------------------------------------------- the same set as intervals <<b, e>> (b included, e excluded)
RECURSIVE Gaps(_, _, _)
\* private blocks = complement of the shared blocks sh[k..] inside [from, size)
Gaps(L, k, from) ==
  IF k > Len(L.sh) THEN (IF from < L.size THEN << <<from, L.size>> >> ELSE <<>>)
  ELSE (IF from < L.sh[k][1] THEN << <<from, L.sh[k][1]>> >> ELSE <<>>) \o Gaps(L, k + 1, L.sh[k][2])
PrivBlocks(L) == Gaps(L, 1, 0)

RECURSIVE Clip(_, _, _)
\* the blocks seen from a message window of n bytes starting at off: shifted by -off, cut to [0, n), empty ones dropped
Clip(bl, off, n) ==
  IF bl = <<>> THEN <<>>
  ELSE LET b == Max2(Head(bl)[1] - off, 0)
           e == Min2(Head(bl)[2] - off, n) IN
       (IF b < e THEN << <<b, e>> >> ELSE <<>>) \o Clip(Tail(bl), off, n)

RECURSIVE Inter(_, _)
Inter(A, B) ==
  IF A = <<>> \/ B = <<>> THEN <<>>
  ELSE LET a == Head(A)  b == Head(B)
           lo == Max2(a[1], b[1])  hi == Min2(a[2], b[2]) IN
       (IF lo < hi THEN << <<lo, hi>> >> ELSE <<>>)
         \o (IF a[2] <= b[2] THEN Inter(Tail(A), B) ELSE Inter(A, Tail(B)))

MsgPriv(L, off, n) == Clip(PrivBlocks(L), off, n)
ReqIv(c)    == Inter(MsgPriv(c.s, c.so, c.n), MsgPriv(c.r, c.ro, c.n))
IvBytes(iv) == UNION { iv[i][1]..(iv[i][2] - 1) : i \in 1..Len(iv) }
IvNormal(iv) == /\ \A i \in 1..Len(iv) : iv[i][1] < iv[i][2]
                /\ \A i \in 1..(Len(iv) - 1) : iv[i][2] <= iv[i + 1][1]
IvCorrect(c) == IvNormal(ReqIv(c)) /\ IvBytes(ReqIv(c)) = Required(c)

\* ---------------------------------------------------------------- where the message starts / what it spans (coverage classes of C35's quantifier)
PosClass(L, off) ==
  IF Len(L.sh) = 0 THEN "plain"
  ELSE IF Shared(L, off) THEN (IF off = 0 \/ ~Shared(L, off - 1) THEN "shared_begin" ELSE "shared_inside")
  ELSE IF off = 0 \/ Shared(L, off - 1) THEN "private_begin" ELSE "private_inside"
EndClass(L, end) ==    \* end = offset of the first byte after the message
  IF Len(L.sh) = 0 THEN "plain"
  ELSE IF end = L.size THEN "alloc_end"
  ELSE IF Shared(L, end) THEN (IF ~Shared(L, end - 1) THEN "private_end" ELSE "shared_inside")
  ELSE IF Shared(L, end - 1) THEN "shared_end" ELSE "private_inside"
Spans(L, off, n) == Len(MsgPriv(L, off, n))     \* number of private blocks the message touches (>= 2: "across")
\* classification only (no verdict depends on it): the last shared block reaches the end of an allocation whose size is
\* not a multiple of the page size (SMPI folds pages of 4096 bytes)
PageSize == 4096
TailShared(L) == Len(L.sh) > 0 /\ L.sh[Len(L.sh)][2] = L.size /\ L.size % PageSize # 0

Describe(c) == [ s |-> c.s, r |-> c.r, so |-> c.so, ro |-> c.ro, n |-> c.n, req |-> ReqIv(c),
                 sp |-> PosClass(c.s, c.so), rp |-> PosClass(c.r, c.ro),
                 se |-> EndClass(c.s, c.so + c.n), re |-> EndClass(c.r, c.ro + c.n),
                 ss |-> Spans(c.s, c.so, c.n), rs |-> Spans(c.r, c.ro, c.n),
                 st |-> TailShared(c.s), rt |-> TailShared(c.r) ]
=============================================================================
