SPECIFICATION Spec
INVARIANT WellFormed
INVARIANT IvOk
INVARIANT PrintCase
