----------------------------- MODULE SmpiSharedEval ----------------------------
(* G on given cases: CASES (environment) names a JSON list of cases with arbitrary byte coordinates (seeded random  *)
(* layouts, page-scale buffers); TLC evaluates the required set of each (interval form; the byte-wise definition    *)
(* is cross-checked when the message is at most 256 bytes).                                                         *)
EXTENDS SmpiShared, Json, IOUtils

Cases == JsonDeserialize(IOEnv.CASES)

VARIABLE k
c == Cases[k]
Init == k \in 1..Len(Cases)
Next == UNCHANGED k
Spec == Init /\ [][Next]_k

WellFormed == WellFormedCase(c)
IvOk       == IvNormal(ReqIv(c)) /\ (c.n <= 256 => IvBytes(ReqIv(c)) = Required(c))
PrintCase  == PrintT(<<"CASE", k, ToJson(Describe(c))>>)
=============================================================================
