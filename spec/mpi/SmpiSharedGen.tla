----------------------------- MODULE SmpiSharedGen -----------------------------
(* G: TLC enumerates every case on a grid of SH_N bytes (layouts with at most SH_MAXB shared blocks, plain buffers  *)
(* included, every offset and size), checks the interval form against the byte-wise definition and prints each     *)
(* case with its required byte set.  SH_PART / SH_PARTS (environment) select a slice of the sender layouts so that   *)
(* several TLC processes can share the enumeration.                                                                 *)
EXTENDS SmpiShared, Json, IOUtils

N     == atoi(IOEnv.SH_N)
MaxB  == atoi(IOEnv.SH_MAXB)
Part  == atoi(IOEnv.SH_PART)
Parts == atoi(IOEnv.SH_PARTS)

RECURSIVE SortedSeq(_)
SortedSeq(S) == IF S = {} THEN <<>>
                ELSE LET m == CHOOSE x \in S : \A y \in S : x <= y IN <<m>> \o SortedSeq(S \ {m})
RECURSIVE Pairs(_)
Pairs(q) == IF q = <<>> THEN <<>> ELSE << <<q[1], q[2]>> >> \o Pairs(SubSeq(q, 3, Len(q)))
\* a set of 2k distinct boundaries, sorted, is exactly a legal list of k shared blocks; the empty set = plain buffer
BoundarySets == { T \in SUBSET (0..N) : Cardinality(T) % 2 = 0 /\ Cardinality(T) <= 2 * MaxB }
Layouts == { [size |-> N, sh |-> Pairs(SortedSeq(T))] : T \in BoundarySets }
Weight(L) == LET RECURSIVE W(_)
                 W(k) == IF k > Len(L.sh) THEN 0 ELSE L.sh[k][1] + 3 * L.sh[k][2] + W(k + 1) IN W(1)
SenderLayouts == { L \in Layouts : Weight(L) % Parts = Part }

Cases == { c \in [s : SenderLayouts, r : Layouts, so : 0..(N - 1), ro : 0..(N - 1), n : 1..N] :
             c.so + c.n <= N /\ c.ro + c.n <= N }

VARIABLE c
Init == c \in Cases
Next == UNCHANGED c
Spec == Init /\ [][Next]_c

WellFormed == WellFormedCase(c)
IvOk       == IvCorrect(c)
PrintCase  == PrintT(<<"CASE", ToJson(Describe(c))>>)
=============================================================================
