------------------------------ MODULE Dragonfly ------------------------------
(* Minimal routing on a dragonfly (DragonflyZone).  z.g groups x z.c chassis x z.b routers (blades) per chassis x    *)
(* z.n nodes per router.  Router (gi, ci, bi) has the flat index gi*c*b + ci*b + bi; leaf rank r hangs from router   *)
(* r \div n (local link).  Routers of a chassis are fully connected (green links), routers having the same blade     *)
(* index in the chassis of a group are fully connected (black links), and groups i and j are connected by one blue   *)
(* link between "the j-th router of group i" and "the i-th router of group j" (flat indices i*c*b + j, j*c*b + i),   *)
(* as the documentation states; this needs g <= c*b.                                                                 *)
(* Forwarding (node - router - chassis - group order, minimal): node to its router; if the destination is in another *)
(* group, inside the group to the router holding the blue link to that group (at most one green and one black hop,   *)
(* either order), the blue hop, then inside the destination group to the destination router (at most one green and   *)
(* one black hop), then down to the node.  For a link between a lower and a higher index the _UP half goes from the  *)
(* lower to the higher one (node -> router for local links).                                                         *)
EXTENDS RtUtil

DfCB(z)        == z.c * z.b
DfRouterOf(z, r) == r \div z.n
DfG(z, f)      == f \div DfCB(z)
DfC(z, f)      == (f \div z.b) % z.c
DfB(z, f)      == f % z.b
DfMk(z, gi, ci, bi) == gi * DfCB(z) + ci * z.b + bi
DfGate(z, gi, tg) == gi * DfCB(z) + tg       \* the tg-th router of group gi: it holds the blue link to group tg
DfWellFormed(z) == z.g <= DfCB(z)

DfIntraDist(z, f, t) == (IF DfC(z, f) # DfC(z, t) THEN 1 ELSE 0) + (IF DfB(z, f) # DfB(z, t) THEN 1 ELSE 0)

DfIntraHops(z, f, t) ==
  LET gi == DfG(z, f) IN
  (IF DfB(z, f) # DfB(z, t)
   THEN {[key |-> <<4, gi, DfC(z, f), RtMin(DfB(z, f), DfB(z, t)), DfB(z, f) + DfB(z, t) - RtMin(DfB(z, f), DfB(z, t))>>,
          dir |-> IF DfB(z, f) < DfB(z, t) THEN 1 ELSE 2, nxt |-> <<1, DfMk(z, gi, DfC(z, f), DfB(z, t))>>, dim |-> 0]}
   ELSE {})
  \cup
  (IF DfC(z, f) # DfC(z, t)
   THEN {[key |-> <<5, gi, RtMin(DfC(z, f), DfC(z, t)), DfC(z, f) + DfC(z, t) - RtMin(DfC(z, f), DfC(z, t)), DfB(z, f)>>,
          dir |-> IF DfC(z, f) < DfC(z, t) THEN 1 ELSE 2, nxt |-> <<1, DfMk(z, gi, DfC(z, t), DfB(z, f))>>, dim |-> 0]}
   ELSE {})

\* nodes: <<0, rank>> leaf, <<1, flat>> router
DfHops(z, cur, to) ==
  LET T == DfRouterOf(z, to) IN
  IF cur[1] = 0
  THEN IF cur[2] = to THEN {}
       ELSE {[key |-> <<3, DfRouterOf(z, cur[2]), cur[2] % z.n, 0, 0>>, dir |-> 1, nxt |-> <<1, DfRouterOf(z, cur[2])>>, dim |-> 0]}
  ELSE LET f == cur[2] IN
       IF f = T THEN {[key |-> <<3, T, to % z.n, 0, 0>>, dir |-> 2, nxt |-> <<0, to>>, dim |-> 0]}
       ELSE IF DfG(z, f) # DfG(z, T)
            THEN LET gf == DfG(z, f)  gt == DfG(z, T)  gw == DfGate(z, gf, gt) IN
                 IF f = gw
                 THEN LET lo == RtMin(gf, gt)  hi == gf + gt - lo IN
                      {[key |-> <<6, lo, hi, DfGate(z, lo, hi), DfGate(z, hi, lo)>>, dir |-> IF gf < gt THEN 1 ELSE 2,
                        nxt |-> <<1, DfGate(z, gt, gf)>>, dim |-> 0]}
                 ELSE DfIntraHops(z, f, gw)
            ELSE DfIntraHops(z, f, T)

\* number of hops of a minimal route between two different leaves
DfDistance(z, a, b) ==
  LET ra == DfRouterOf(z, a)  rb == DfRouterOf(z, b) IN
  2 + (IF DfG(z, ra) = DfG(z, rb) THEN DfIntraDist(z, ra, rb)
       ELSE 1 + DfIntraDist(z, ra, DfGate(z, DfG(z, ra), DfG(z, rb))) + DfIntraDist(z, DfGate(z, DfG(z, rb), DfG(z, ra)), rb))
=============================================================================
