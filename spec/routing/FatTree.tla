------------------------------- MODULE FatTree -------------------------------
(* Fat-tree (XGFT) routing (FatTreeZone).  z.lv = L levels of switches above the leaves, z.down[i] / z.up[i] /       *)
(* z.cnt[i] (i in 1..L) = children per node, parents per node and parallel cables between levels i-1 and i.          *)
(* A node is <<level, position>>, level 0 = leaves (position = rank).  Its label is the mixed-radix writing of the   *)
(* position, digit d having radix up[d] when d <= level and down[d] otherwise.  A node of level l+1 is a parent of   *)
(* a node of level l iff their labels agree on every digit but digit l+1.                                            *)
(* Forwarding: up through any parent and any cable until the current node is an ancestor of the destination (a       *)
(* nearest common ancestor: never higher), then down to the destination through the only child that leads to it,    *)
(* any cable.                                                                                                        *)
EXTENDS RtUtil

FtRadix(z, l)    == [d \in 1..z.lv |-> IF d <= l THEN z.up[d] ELSE z.down[d]]
FtCount(z, l)    == SeqProd(FtRadix(z, l))
FtLabel(z, node) == [d \in 1..z.lv |-> Digit(node[2], FtRadix(z, node[1]), d)]
FtNode(z, l, lab) == <<l, FromDigits(lab, FtRadix(z, l), 1)>>

FtParents(z, node) ==
  LET l == node[1] IN
  IF l >= z.lv THEN {} ELSE { FtNode(z, l + 1, [FtLabel(z, node) EXCEPT ![l + 1] = x]) : x \in 0..(z.up[l + 1] - 1) }

\* node is the leaf itself or a switch whose sub-tree contains the leaf
FtIsAnc(z, node, leaf) ==
  IF node[1] = 0 THEN node = <<0, leaf>>
  ELSE \A d \in (node[1] + 1)..z.lv : FtLabel(z, node)[d] = FtLabel(z, <<0, leaf>>)[d]

\* the child of the ancestor `node` (level >= 1) whose sub-tree contains the leaf
FtChildToward(z, node, leaf) ==
  LET l == node[1] IN FtNode(z, l - 1, [FtLabel(z, node) EXCEPT ![l] = FtLabel(z, <<0, leaf>>)[l]])

\* identifiers used in the link names link_from_<child>_<parent>_<n>: leaves = rank, switches numbered downwards from
\* 2 * #leaves - 1, level by level
RECURSIVE FtSwitchesBelow(_, _)
FtSwitchesBelow(z, l) == IF l <= 1 THEN 0 ELSE FtCount(z, l - 1) + FtSwitchesBelow(z, l - 1)
FtId(z, node) == IF node[1] = 0 THEN node[2]
                 ELSE 2 * FtCount(z, 0) - 1 - (FtSwitchesBelow(z, node[1]) + node[2])

FtHops(z, cur, to) ==
  IF ~FtIsAnc(z, cur, to)
  THEN { [key |-> <<2, FtId(z, cur), FtId(z, p), j, 0>>, dir |-> 1, nxt |-> p, dim |-> 0] :
           p \in FtParents(z, cur), j \in 0..(z.cnt[cur[1] + 1] - 1) }
  ELSE IF cur = <<0, to>> THEN {}
  ELSE LET c == FtChildToward(z, cur, to) IN
       { [key |-> <<2, FtId(z, c), FtId(z, cur), j, 0>>, dir |-> 2, nxt |-> c, dim |-> 0] : j \in 0..(z.cnt[c[1] + 1] - 1) }

\* level of the nearest common ancestors of two leaves; C26: a route has exactly twice that many hops
FtNcaLevel(z, a, b) ==
  LET ok(l) == \A d \in (l + 1)..z.lv : FtLabel(z, <<0, a>>)[d] = FtLabel(z, <<0, b>>)[d]
  IN CHOOSE l \in 0..z.lv : ok(l) /\ \A m \in 0..z.lv : ok(m) => l <= m
FtDistance(z, a, b) == 2 * FtNcaLevel(z, a, b)
=============================================================================
