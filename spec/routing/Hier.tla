-------------------------------- MODULE Hier --------------------------------
(* Hierarchical routing of SimGrid (NetZoneImpl::get_global_route) as a forwarding state machine.                    *)
(*                                                                                                                   *)
(* A platform P (data, loaded from JSON by the wrapper modules HierMC / HierTrace):                                   *)
(*   P.np[n]  netpoints: [k: "host" | "router" | "zone", z: englobing zone, zi: zone number when k = "zone",          *)
(*            c: <<x, y, z>> Vivaldi coordinates or <<>>]                                                             *)
(*   P.nz[z]  zones: [kind, par (0 for the root), np (its netpoint, 0 for the root), mem (members, in the order of     *)
(*            their local ids), rt (declared routes [s, d, gs, gd, l, sym]), byp (bypass routes [s, d, gs, gd, l]),    *)
(*            + per kind: wl, ap (wifi) | dims (torus) | lv, down, up, cnt (fat-tree) | g, c, b, n (dragonfly)         *)
(*            | loop, lim, mgw (gateway of each leaf, 0 for hosts), ltk, ltv (link table) for the cluster kinds]      *)
(*   P.lk[i]  links: [lat (ticks), rev (the link used instead when a route is taken backwards: the other half of a    *)
(*            split-duplex link, the link itself otherwise)];  P.loop = the global loopback link                       *)
(*                                                                                                                   *)
(* The global route from a to b (documentation, "Calculating network paths"):                                         *)
(*   - Z = the lowest common ancestor zone; sa, sb = a, b themselves or the child zones of Z containing them;          *)
(*   - if Z declares a bypass route for (a, b) themselves, it is used alone (documentation: "used in priority, with no *)
(*     further routing computation", "between any hosts, even if they are not in the same zone");                      *)
(*   - otherwise, if Z declares a bypass route for a pair (zone above a, zone above b) below Z - every zone on the     *)
(*     path from a up to Z against every zone on the path from b up to Z, at whatever depths - it is used:             *)
(*     route(a, gw_src) . links . route(gw_dst, b).  When several pairs have a bypass the one looked up first by       *)
(*     NetZoneImpl::get_bypass_route is taken (see BPRank below: the documentation gives no order);                    *)
(*   - otherwise the local route of Z from sa to sb gives (gw_src, links, gw_dst) and the result is                    *)
(*     route(a, gw_src) . links . route(gw_dst, b)  ("up through gateways, across, down"), recursively;               *)
(*   - the local route depends on the kind of Z: declared table (Full), any minimal chain of declared routes (Floyd,   *)
(*     Dijkstra), up links + down links (Star, Vivaldi), the access point link (Wifi), the cluster algorithms          *)
(*     (modules Torus, FatTree, Dragonfly).                                                                            *)
(* The machine keeps a stack of pending segments; Succ(P, X, s) is the set of possible steps, each emitting at most    *)
(* one link.  Latency = sum of the latencies of the emitted links; every local route of a Vivaldi zone adds the        *)
(* coordinate term, kept symbolically in vt as <<squared planar distance, |z_a| + |z_b|>> (milliseconds).              *)
EXTENDS RtUtil, Star, ShortestPath, Torus, FatTree, Dragonfly

RoutedKinds  == {"full", "floyd", "dijkstra", "dijkstracache"}
SpKinds      == {"floyd", "dijkstra", "dijkstracache"}
StarKinds    == {"star", "vivaldi"}
ClusterKinds == {"torus", "fattree", "dragonfly"}

IsZoneNp(P, n) == P.np[n].k = "zone"
RECURSIVE ZPath(_, _)
ZPath(P, z) == IF z = 0 THEN <<>> ELSE Append(ZPath(P, P.nz[z].par), z)     \* from the root down to z
NPath(P, n) == ZPath(P, P.np[n].z)
CommonLen(p, q) == CHOOSE k \in 0..RtMin(Len(p), Len(q)) :
                      /\ SubSeq(p, 1, k) = SubSeq(q, 1, k)
                      /\ (k = RtMin(Len(p), Len(q)) \/ p[k + 1] # q[k + 1])
SeqSet(s) == { s[i] : i \in 1..Len(s) }
HMax(a, b) == IF a >= b THEN a ELSE b
\* position of the pair (i, j) in the enumeration (0,0) (0,1) (1,0) (1,1) (0,2) (2,0) (1,2) (2,1) (2,2) (0,3) ...
\* (there are m * m pairs whose two indices are below m)
PairRank(i, j) == LET m == HMax(i, j) IN
                  m * m + (IF i = j THEN 2 * m ELSE 2 * RtMin(i, j) + (IF i < j THEN 0 ELSE 1))
HasChildZone(P, z) == \E y \in 1..Len(P.nz) : P.nz[y].par = z
RankOf(zr, n) == (CHOOSE i \in 1..Len(zr.mem) : zr.mem[i] = n) - 1

\* ------------------------------------------------------------------ per-platform tables, computed once
\* link table of a cluster zone: structural key (see the cluster modules) -> <<link of the _UP half, link of the _DOWN half>>
\* (zr.ltk = the keys, zr.ltv = the pairs of links, aligned)
LinkTable(zr) ==
  LET K == { zr.ltk[i] : i \in 1..Len(zr.ltk) } IN
  TLCEval([k \in K |-> zr.ltv[CHOOSE i \in 1..Len(zr.ltk) : zr.ltk[i] = k]])
Aux(P) == [ edges |-> [z \in 1..Len(P.nz) |-> IF P.nz[z].kind \in RoutedKinds THEN SpEdges(P.nz[z], P.lk) ELSE {}],
            dist  |-> [z \in 1..Len(P.nz) |-> IF P.nz[z].kind \in SpKinds THEN SpDist(P.nz[z], P.lk) ELSE <<>>],
            lt    |-> [z \in 1..Len(P.nz) |-> IF P.nz[z].kind \in {"torus", "fattree", "dragonfly"}
                                               THEN LinkTable(P.nz[z]) ELSE <<>>] ]

\* link of a cluster zone from its structural key, -1 when the platform has no such link
ClLink(lt, key, dir) == IF key \in DOMAIN lt THEN lt[key][dir] ELSE -1

\* ------------------------------------------------------------------ goals (pending segments)
Go(a, b, ctx) == [t |-> "go", a |-> a, b |-> b, ctx |-> ctx]
Ln(l)         == [t |-> "ln", l |-> l]
Sp(z, cur, tgt, pg, a, dst, first) ==
  [t |-> "sp", z |-> z, cur |-> cur, tgt |-> tgt, pg |-> pg, a |-> a, dst |-> dst, first |-> first]
Cl(z, from, to) == [t |-> "cl", z |-> z, from |-> from, to |-> to, cur |-> <<0, from>>, prev |-> <<>>, ld |-> {},
                    n |-> 0, dim |-> 0]
GoSeg(a, b, ctx) == IF a = b THEN <<>> ELSE <<Go(a, b, ctx)>>
LnSeg(l)         == IF l = <<>> THEN <<>> ELSE <<Ln(l)>>

\* known deviations of the implementation, used only to classify a rejection (never to accept one): with "uprev" the
\* machine reverses, like NetZoneImpl::get_interzone_route, the multi-link routes taken on the way up; with "djkrev" it
\* reverses, like DijkstraZone::get_local_route, the links of every multi-link one-hop route of a Dijkstra zone; with
\* "nohbypx" it ignores, like NetZoneImpl::get_bypass_route, the bypass routes declared for two end points that are not
\* both direct members of the declaring zone (see Expand)
DevRev(dev, ctx, zonemember, l) == IF "uprev" \in dev /\ ctx = "up" /\ zonemember THEN RevSeq(l) ELSE l

\* ------------------------------------------------------------------ expansion of a global segment a -> b (a # b)
\* result: set of [push: goals replacing the segment, fl: flags, vt: Vivaldi terms]
Vterm(P, m1, m2) ==
  LET c1 == P.np[m1].c  c2 == P.np[m2].c IN
  <<(c1[1] - c2[1]) * (c1[1] - c2[1]) + (c1[2] - c2[2]) * (c1[2] - c2[2]), RtAbs(c1[3]) + RtAbs(c2[3])>>

Expand(P, X, dev, g) ==
  LET a  == g.a   b == g.b
      pa == NPath(P, a)   pb == NPath(P, b)
      c  == CommonLen(pa, pb)
      zc == pa[c]
      zr == P.nz[zc]
      sa == IF Len(pa) > c THEN P.nz[pa[c + 1]].np ELSE a
      sb == IF Len(pb) > c THEN P.nz[pb[c + 1]].np ELSE b
      za == IsZoneNp(P, sa)
      zb == IsZoneNp(P, sb)
      ancA == { P.nz[pa[k]].np : k \in (c + 1)..Len(pa) }
      ancB == { P.nz[pb[k]].np : k \in (c + 1)..Len(pb) }
      \* ---- bypass routes declared by the common ancestor that apply to (a, b)
      \* (1) a bypass for the end points themselves.  The documentation allows it "between any hosts, even if they are
      \*     not in the same zone": XZone tells that a or b is not a direct member of the common ancestor (the
      \*     implementation only looks the pair of end points up when both are direct members: with the deviation
      \*     "nohbypx", used only to classify a rejection, the machine ignores such a bypass and raises "hbypskip")
      XZone     == Len(pa) # c \/ Len(pb) # c
      HostBPdoc == { i \in 1..Len(zr.byp) : zr.byp[i].s = a /\ zr.byp[i].d = b }
      HostSkip  == XZone /\ "nohbypx" \in dev /\ HostBPdoc # {}
      HostBP    == IF HostSkip THEN {} ELSE HostBPdoc
      \* (2) a bypass between a zone on the path of a and a zone on the path of b, both below the common ancestor, at
      \*     whatever depths (all pairs are candidates)
      ZoneBP    == { i \in 1..Len(zr.byp) : zr.byp[i].s \in ancA /\ zr.byp[i].d \in ancB }
      \* order of the candidates, exactly as NetZoneImpl::get_bypass_route looks them up (the first one found is used):
      \* the zones of each path are numbered from the end point upwards (0 = the zone of the end point), the pairs
      \* (i, j) are visited by increasing m = max(i, j), for each m: (0,m) (m,0) (1,m) (m,1) ... (m-1,m) (m,m-1) (m,m),
      \* i.e. (0,0) (0,1) (1,0) (1,1) (0,2) (2,0) (1,2) (2,1) (2,2) ...; PairRank is the position in that enumeration.
      \* A bypass for the end points themselves comes first.
      IdxA(n) == Len(pa) - (CHOOSE k \in (c + 1)..Len(pa) : P.nz[pa[k]].np = n)
      IdxB(n) == Len(pb) - (CHOOSE k \in (c + 1)..Len(pb) : P.nz[pb[k]].np = n)
      BPRank(i) == IF i \in HostBP THEN -1 ELSE PairRank(IdxA(zr.byp[i].s), IdxB(zr.byp[i].d))
      BPall == HostBP \cup ZoneBP
      BP == { i \in BPall : \A j \in BPall : BPRank(i) <= BPRank(j) }
      \* flags of the up and down segments (gateway outside the chain of zones above the end point)
      OffUp(gw) == IF gw # a /\ P.np[gw].z \notin SeqSet(pa) THEN {"offchain"} ELSE {}
      OffDn(gw) == IF gw # b /\ P.np[gw].z \notin SeqSet(pb) THEN {"offchain"} ELSE {}
      RevFl(l)  == IF g.ctx = "up" /\ za /\ Len(l) > 1 THEN {"uprev"} ELSE {}
      \* route(a, gs) . l . route(gd, b) for a local route (gs, l, gd) of the common ancestor
      Compose(gs, l, gd, vt) ==
        LET ga == IF za THEN gs ELSE a
            gb == IF zb THEN gd ELSE b IN
        IF ga = 0 \/ gb = 0 THEN {}
        ELSE {[push |-> GoSeg(a, ga, "up") \o LnSeg(DevRev(dev, g.ctx, za, l)) \o GoSeg(gb, b, "dn"),
               fl |-> OffUp(ga) \cup OffDn(gb) \cup RevFl(l), vt |-> vt, pts |-> ({ga} \ {a}) \cup ({gb} \ {b})]}
      ByPass ==
         { [push |-> (IF zr.byp[i].s = a THEN <<>> ELSE GoSeg(a, zr.byp[i].gs, "top")) \o LnSeg(zr.byp[i].l)
                   \o (IF zr.byp[i].d = b THEN <<>> ELSE GoSeg(zr.byp[i].gd, b, "top")),
          fl |-> {"bypass"} \cup (IF g.ctx # "top" THEN {"izbypass"} ELSE {}) \cup
                 \* (classification only) the end point is itself the gateway of the bypass
                 (IF (zr.byp[i].s # a /\ zr.byp[i].gs = a) \/ (zr.byp[i].d # b /\ zr.byp[i].gd = b)
                  THEN {"bypself"} ELSE {}) \cup
                 \* (classification only) bypass for two end points that are not both direct members of the zone
                 (IF i \in HostBP /\ XZone THEN {"hbypx"} ELSE {}) \cup
                 \* (coverage) bypass between zones found at different depths below the common ancestor
                 (IF i \notin HostBP /\ IdxA(zr.byp[i].s) # IdxB(zr.byp[i].d) THEN {"bypdepth"} ELSE {}) \cup
                 (IF i \notin HostBP /\ Len(pa) # Len(pb) THEN {"bypskew"} ELSE {}) \cup
                 (IF Cardinality(BPall) > 1 THEN {"bypmany"} ELSE {}),
          vt |-> <<>>,
          pts |-> (IF zr.byp[i].s = a THEN {} ELSE {zr.byp[i].gs} \ {a}) \cup
                  (IF zr.byp[i].d = b THEN {} ELSE {zr.byp[i].gd} \ {b})] : i \in BP }
      Normal ==
         CASE zr.kind = "full" ->
              UNION { Compose(r.gs, r.l, r.gd, <<>>) : r \in { e \in X.edges[zc] : e.s = sa /\ e.d = sb } }
         [] zr.kind \in StarKinds ->
              Compose(StarGw(zr, sa), StarRoute(zr, P.lk, sa, sb), StarGw(zr, sb),
                      IF zr.kind = "vivaldi" THEN <<Vterm(P, sa, sb)>> ELSE <<>>)
         [] zr.kind = "wifi" ->
              Compose(0, (IF sa # zr.ap THEN <<zr.wl>> ELSE <<>>) \o (IF sb # zr.ap THEN <<zr.wl>> ELSE <<>>), 0, <<>>)
         [] zr.kind \in SpKinds ->
              {[push |-> <<Sp(zc, sa, sb, 0, a, b, TRUE)>>, fl |-> {}, vt |-> <<>>, pts |-> {}]}
         [] zr.kind \in ClusterKinds ->
              LET ra == RankOf(zr, sa)   rb == RankOf(zr, sb)
                  ga == IF za THEN zr.mgw[ra + 1] ELSE a
                  gb == IF zb THEN zr.mgw[rb + 1] ELSE b IN
              IF ga = 0 \/ gb = 0 THEN {}
              ELSE {[push |-> GoSeg(a, ga, "up") \o <<Cl(zc, ra, rb)>> \o GoSeg(gb, b, "dn"),
                     fl |-> OffUp(ga) \cup OffDn(gb) \cup
                            \* (classification only) the implementation assumes that the router holding the blue link
                            \* to group n is in the first chassis, which needs no more groups than routers per chassis
                            (IF zr.kind = "dragonfly" /\ zr.g > zr.b /\ ra \div (zr.c * zr.b * zr.n) # rb \div (zr.c * zr.b * zr.n)
                                /\ (ra \div (zr.c * zr.b * zr.n) >= zr.b \/ rb \div (zr.c * zr.b * zr.n) >= zr.b)
                             THEN {"dfgate"} ELSE {}) \cup
                            \* (classification only) inside a group the implementation continues from the first chassis
                            (IF zr.kind = "dragonfly" /\ ra \div (zr.c * zr.b * zr.n) = rb \div (zr.c * zr.b * zr.n)
                                /\ DfC(zr, DfRouterOf(zr, ra)) # 0 /\ DfB(zr, DfRouterOf(zr, ra)) # DfB(zr, DfRouterOf(zr, rb))
                             THEN {"dfchassis"} ELSE {}),
                     vt |-> <<>>, pts |-> ({ga} \ {a}) \cup ({gb} \ {b})]}
         [] OTHER -> {}          \* Empty zones have no route
  IN
  \* a declared bypass is used in priority for the route asked for; whether it also applies to the segments between an
  \* end point and a gateway is not specified (the documentation calls them recursive calls, the implementation does
  \* not look for bypasses there): both are allowed
  LET Res == IF BP = {} THEN Normal
             ELSE IF g.ctx = "top" THEN ByPass
             ELSE ByPass \cup Normal IN
  IF HostSkip THEN { [x EXCEPT !.fl = @ \cup {"hbypskip"}] : x \in Res } ELSE Res

\* ------------------------------------------------------------------ one step of a shortest-path zone
SpStep(P, X, dev, g) ==
  LET zr  == P.nz[g.z]
      rec == IsZoneNp(P, g.cur)
      H   == SpHops(X.edges[g.z], X.dist[g.z], g.cur, g.tgt) IN
  { [push |-> (IF rec THEN (IF g.first THEN GoSeg(g.a, e.gs, "up") ELSE GoSeg(g.pg, e.gs, "top")) ELSE <<>>)
              \o LnSeg(IF "djkrev" \in dev /\ zr.kind \in {"dijkstra", "dijkstracache"} THEN RevSeq(e.l) ELSE e.l)
              \o (IF e.d = g.tgt THEN (IF rec THEN GoSeg(e.gd, g.dst, "dn") ELSE <<>>)
                  ELSE <<Sp(g.z, e.d, g.tgt, e.gd, g.a, g.dst, FALSE)>>),
     fl |-> (IF rec /\ ~g.first /\ g.pg # e.gs /\ zr.kind \in {"dijkstra", "dijkstracache"} THEN {"djkgw"} ELSE {})
            \cup (IF rec /\ g.first /\ e.gs # 0 /\ e.gs # g.a /\ P.np[e.gs].z \notin SeqSet(NPath(P, g.a)) THEN {"offchain"} ELSE {})
            \cup (IF rec /\ e.d = g.tgt /\ e.gd # 0 /\ e.gd # g.dst /\ P.np[e.gd].z \notin SeqSet(NPath(P, g.dst))
                  THEN {"offchain"} ELSE {})
            \cup (IF rec /\ (e.gs = 0 \/ e.gd = 0) THEN {"nogw"} ELSE {})
            \* (classification only) a Floyd zone crossing a member zone between two different gateways asks for
            \* route(previous gateway, next gateway) with its list under construction: when both are direct members of
            \* a Dijkstra zone, that zone is asked to complete a route under construction (see "djkpre" in Succ)
            \cup (IF rec /\ ~g.first /\ g.pg # e.gs /\ g.pg # 0 /\ e.gs # 0 /\ zr.kind = "floyd"
                     /\ P.np[g.pg].z = P.np[e.gs].z /\ P.nz[P.np[g.pg].z].kind \in {"dijkstra", "dijkstracache"}
                  THEN {"djkpre"} ELSE {})
            \cup (IF zr.kind \in {"dijkstra", "dijkstracache"} /\ Len(e.l) > 1 THEN {"djkrev"} ELSE {}),
     vt |-> <<>>,
     pts |-> IF rec THEN ({e.gs} \ {IF g.first THEN g.a ELSE g.pg}) \cup ({e.gd} \ {g.dst}) ELSE {}] : e \in H }

\* ------------------------------------------------------------------ cluster zones: hop by hop
ClHops(zr, g) ==
  CASE zr.kind = "torus"     -> TorusHops(zr, g.cur[2], g.to, g.dim)
    [] zr.kind = "fattree"   -> FtHops(zr, g.cur, g.to)
    [] zr.kind = "dragonfly" -> DfHops(zr, g.cur, g.to)
ClDistance(zr, a, b) ==
  CASE zr.kind = "torus"     -> TorusDistance(zr, a, b)
    [] zr.kind = "fattree"   -> FtDistance(zr, a, b)
    [] zr.kind = "dragonfly" -> DfDistance(zr, a, b)
\* limiter links: every leaf when lim >= 1, every switch / router too when lim = 2
ClHasLim(zr, node) == node # <<>> /\ ((node[1] = 0 /\ zr.lim >= 1) \/ (node[1] >= 1 /\ zr.lim = 2))
ClLimKey(zr, node) ==
  IF node[1] = 0 THEN <<7, node[2], 0, 0, 0>>
  ELSE IF zr.kind = "fattree" THEN <<8, node[1], node[2], 0, 0>>
  ELSE <<9, DfG(zr, node[2]), DfC(zr, node[2]), DfB(zr, node[2]), 0>>

\* result: set of [g: the goal afterwards, pop: the segment is finished, e: emitted link (0: none), fl: flags]
\*  - a node that has a limiter contributes it exactly once, next to one of its hops on the path: before the packet
\*    leaves it or once it has arrived (the implementation emits it before the up-going / torus link of the sender and
\*    after the link for the nodes met on the way down);
\*  - n counts the hops: a segment that ends with another count than the closed form of its topology (in particular
\*    one that went through a node twice) raises "badcount";
ClStep(zr, lt, g) ==
  LET LimOk(x) == ~ClHasLim(zr, x) \/ x \in g.ld IN
  \* emit a pending limiter of the current or of the previous node
  { [g |-> [g EXCEPT !.ld = @ \cup {x}], pop |-> FALSE, e |-> ClLink(lt, ClLimKey(zr, x), 1), fl |-> {}] :
       x \in { y \in {g.cur, g.prev} : ClHasLim(zr, y) /\ y \notin g.ld } }
  \cup
  \* move (the limiter of the node left two hops ago must have been emitted)
  (IF LimOk(g.prev)
   THEN { [g |-> [g EXCEPT !.cur = h.nxt, !.prev = g.cur, !.n = @ + 1, !.dim = h.dim, !.ld = @ \cap {g.cur}],
           pop |-> FALSE, e |-> ClLink(lt, h.key, h.dir), fl |-> {}] : h \in ClHops(zr, g) }
   ELSE {})
  \cup
  \* arrived, every limiter emitted
  (IF g.cur = <<0, g.to>> /\ LimOk(g.cur) /\ LimOk(g.prev)
   THEN {[g |-> g, pop |-> TRUE, e |-> 0, fl |-> IF g.n # ClDistance(zr, g.from, g.to) THEN {"badcount"} ELSE {}]}
   ELSE {})

\* ------------------------------------------------------------------ the machine
\* route of a netpoint to itself (only asked where the documentation defines it)
SelfLinks(P, X, a) ==
  LET z == P.np[a].z   zr == P.nz[z] IN
  CASE zr.kind \in RoutedKinds /\ ~HasChildZone(P, z) ->
         LET R == { i \in 1..Len(zr.rt) : zr.rt[i].s = a /\ zr.rt[i].d = a } IN
         IF R # {} THEN zr.rt[CHOOSE i \in R : TRUE].l ELSE <<P.loop>>
    [] zr.kind = "star" -> StarRoute(zr, P.lk, a, a)
    [] zr.kind \in ClusterKinds /\ zr.loop -> <<ClLink(X.lt[z], <<10, RankOf(zr, a), 0, 0, 0>>, 1)>>
    [] OTHER -> <<-2>>           \* undefined: never matches

S0(P, X, a, b) == [ stk |-> IF a = b THEN LnSeg(SelfLinks(P, X, a)) ELSE <<Go(a, b, "top")>>,
                 lat |-> 0, vt |-> <<>>, fl |-> {}, seen |-> {a, b} ]

LinkLat(P, l) == IF l >= 1 /\ l <= Len(P.lk) THEN P.lk[l].lat ELSE 0

\* Succ: set of [s: next state, e: <<>> or <<link>>]
Succ(P, X, dev, s) ==
  IF s.stk = <<>> THEN {}
  ELSE
  LET g == Head(s.stk)   rest == Tail(s.stk) IN
  CASE g.t = "ln" ->
         {[s |-> [s EXCEPT !.stk = LnSeg(Tail(g.l)) \o rest, !.lat = @ + LinkLat(P, Head(g.l)),
                           !.fl = @ \cup (IF Head(g.l) < 1 THEN {"nolink"} ELSE {})],
           e |-> <<Head(g.l)>>]}
    [] g.t = "go" ->
         { [s |-> [s EXCEPT !.stk = x.push \o rest, !.vt = @ \o x.vt, !.seen = @ \cup x.pts,
                            !.fl = @ \cup x.fl \cup (IF x.pts \cap s.seen # {} THEN {"revisit"} ELSE {})],
            e |-> <<>>] : x \in Expand(P, X, dev, g) }
    [] g.t = "sp" ->
         { [s |-> [s EXCEPT !.stk = x.push \o rest, !.seen = @ \cup x.pts,
                            !.fl = @ \cup x.fl \cup (IF x.pts \cap s.seen # {} THEN {"revisit"} ELSE {})
                                   \* (classification only) a Dijkstra zone asked to complete a route under construction
                                   \cup (IF P.nz[g.z].kind \in {"dijkstra", "dijkstracache"} /\ "bypass" \in s.fl
                                         THEN {"djkpre"} ELSE {})],
            e |-> <<>>] : x \in SpStep(P, X, dev, g) }
    [] g.t = "cl" ->
         { [s |-> [s EXCEPT !.stk = (IF x.pop THEN <<>> ELSE <<x.g>>) \o rest,
                            !.lat = @ + (IF x.e = 0 THEN 0 ELSE LinkLat(P, x.e)),
                            !.fl = @ \cup x.fl \cup (IF x.e < 0 THEN {"nolink"} ELSE {})],
            e |-> IF x.e = 0 THEN <<>> ELSE <<x.e>>] : x \in ClStep(P.nz[g.z], X.lt[g.z], g) }

Done(s)      == s.stk = <<>>
\* a state that is not final and has no successor: the route cannot be completed (no declared route, no gateway ...);
\* the wrappers turn it into a final state flagged "stuck"
StuckState(s) == [s EXCEPT !.stk = <<>>, !.fl = @ \cup {"stuck"}]
\* flags that the specification must never raise on a well-formed platform (checked by HierMC)
BadFlags     == {"revisit", "badcount", "nolink", "nogw", "stuck"}
=============================================================================
