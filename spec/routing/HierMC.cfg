SPECIFICATION Spec
INVARIANT NoBadFlag
INVARIANT LatIsSum
INVARIANT PrintExpected
CHECK_DEADLOCK FALSE
