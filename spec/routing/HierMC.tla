------------------------------- MODULE HierMC -------------------------------
(* (M) exhaustive exploration of the routing machine Hier: every behaviour of every asked pair of every platform.     *)
(* PLATS (environment) = JSON list of platforms; PAIRS = JSON list of [p, s, d] (platform number, source and           *)
(* destination netpoints); DEV = "none" | "known" (see Hier!DevRev); TRACK = "0" | "1".                              *)
(* Checked: every behaviour reaches the destination (no state without successor before the stack is empty), no        *)
(* gateway / cluster node is visited twice, cluster segments have the closed-form hop count (Torus!TorusDistance,      *)
(* FatTree!FtDistance, Dragonfly!DfDistance), every link exists.  Every terminal state prints the expected route        *)
(* (EXP line: links, latency in ticks, Vivaldi terms, flags) - the reference set used by C25 (G) and by the            *)
(* classification of rejected routes.  DIST lines give the minimal link counts of the shortest-path zones.             *)
EXTENDS Hier, Json, IOUtils

\* the inputs and the per-platform tables are computed once and kept in TLC registers (TLC does not cache definitions
\* that read files); these shared values are not deep-normalised: run with -workers 1
ASSUME TLCSet(1, JsonDeserialize(IOEnv.PLATS))
Plats == TLCGet(1)
ASSUME TLCSet(2, JsonDeserialize(IOEnv.PAIRS))
Pairs == TLCGet(2)
ASSUME TLCSet(3, [p \in 1..Len(Plats) |-> Aux(Plats[p])])
AUX   == TLCGet(3)
ASSUME TLCSet(4, IF IOEnv.DEV = "known" THEN {"uprev", "djkrev", "nohbypx"} ELSE {})
Dev   == TLCGet(4)
\* TRACK = "1": the emitted links are kept in the history variable out (needed to print the expected routes); otherwise
\* behaviours that differ only by the links taken (parallel cables, equivalent parents) share their states
ASSUME TLCSet(5, IOEnv.TRACK = "1")
Track == TLCGet(5)

VARIABLES pr, st, out
vars == <<pr, st, out>>

Init == /\ pr \in 1..Len(Pairs)
        /\ st = S0(Plats[Pairs[pr].p], AUX[Pairs[pr].p], Pairs[pr].s, Pairs[pr].d)
        /\ out = <<>>
P == Plats[Pairs[pr].p]
X == AUX[Pairs[pr].p]

Step == LET S == Succ(P, X, Dev, st) IN
        /\ ~Done(st)
        /\ IF S = {} THEN st' = StuckState(st) /\ out' = out
           ELSE \E x \in S : st' = x.s /\ out' = IF Track THEN out \o x.e ELSE out
        /\ UNCHANGED pr
Next == Step
Spec == Init /\ [][Next]_vars

\* every behaviour reaches the destination ("stuck"), no gateway met twice ("revisit"), cluster segments have the closed
\* form hop count ("badcount"), every link and gateway exists ("nolink", "nogw")
NoBadFlag == st.fl \cap BadFlags = {}
LatIsSum == Track => st.lat = SeqSum([i \in 1..Len(out) |-> LinkLat(P, out[i])])

\* one JSON string per line (TLC wraps long values, and the lines of several workers would interleave)
PrintExpected == Done(st) => PrintT(ToJson([t |-> "EXP", pr |-> pr, l |-> out, lat |-> st.lat, vt |-> st.vt, fl |-> st.fl]))
\* printed once per run: minimal link counts of every shortest-path zone (C25)
ASSUME \A p \in 1..Len(Plats) : \A z \in 1..Len(Plats[p].nz) :
          Plats[p].nz[z].kind \in SpKinds =>
            PrintT(ToJson([t |-> "DIST", p |-> p, z |-> z,
                           d |-> [a \in SpMembers(Plats[p].nz[z]) |-> AUX[p].dist[z][a]]]))
=============================================================================
