SPECIFICATION Spec
INVARIANT NoBadFlag
INVARIANT LatIsSum
CHECK_DEADLOCK FALSE
