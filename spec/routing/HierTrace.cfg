SPECIFICATION Spec
INVARIANT PrintAccepted
CHECK_DEADLOCK FALSE
