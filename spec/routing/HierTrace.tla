------------------------------ MODULE HierTrace ------------------------------
(* (T) validation of the routes returned by the implementation (Host::route_to through harness/route_driver).          *)
(* TRACE (environment) = ndjson, one line per asked pair: [p, s, d, l] with l = the returned links (numbers of P.lk,    *)
(* 0 for a link unknown to the platform description).  A route is accepted iff some behaviour of Hier for (s, d)        *)
(* emits exactly l; every accepted pair prints an ACC line with the latency (ticks) and the Vivaldi terms of that        *)
(* behaviour, which the harness compares with the latency returned by the implementation.  Pairs are independent        *)
(* initial states: the pairs without ACC line are the rejected ones.                                                    *)
EXTENDS Hier, Json, IOUtils

\* inputs and per-platform tables computed once, kept in TLC registers (shared values, not deep-normalised: run with -workers 1)
ASSUME TLCSet(1, JsonDeserialize(IOEnv.PLATS))
Plats == TLCGet(1)
ASSUME TLCSet(2, ndJsonDeserialize(IOEnv.TRACE))
Tr    == TLCGet(2)
ASSUME TLCSet(3, [p \in 1..Len(Plats) |-> Aux(Plats[p])])
AUX   == TLCGet(3)
ASSUME TLCSet(4, IF IOEnv.DEV = "known" THEN {"uprev", "djkrev", "nohbypx"} ELSE {})
Dev   == TLCGet(4)

VARIABLES i, k, st
vars == <<i, k, st>>

Init == /\ i \in 1..Len(Tr)
        /\ k = 0
        /\ st = S0(Plats[Tr[i].p], AUX[Tr[i].p], Tr[i].s, Tr[i].d)
P == Plats[Tr[i].p]
X == AUX[Tr[i].p]

\* a step of the machine: silent (expansion of a segment, choice of a chain ...), or emitting the next link of the
\* returned route
Next == \E x \in Succ(P, X, Dev, st) :
          /\ st' = x.s
          /\ IF x.e = <<>> THEN k' = k
             ELSE k < Len(Tr[i].l) /\ x.e[1] = Tr[i].l[k + 1] /\ k' = k + 1
          /\ UNCHANGED i
Spec == Init /\ [][Next]_vars

Accepted == Done(st) /\ k = Len(Tr[i].l)
PrintAccepted == Accepted => PrintT(ToJson([t |-> "ACC", i |-> i, lat |-> st.lat, vt |-> st.vt, fl |-> st.fl]))
=============================================================================
