------------------------------- MODULE RtUtil -------------------------------
(* Helpers shared by the routing specifications (sequences, mixed-radix digits).                                  *)
EXTENDS Naturals, Integers, Sequences, FiniteSets, TLC

RtMin(a, b) == IF a <= b THEN a ELSE b
RtAbs(a)    == IF a < 0 THEN -a ELSE a

RevSeq(s) == [i \in 1..Len(s) |-> s[Len(s) + 1 - i]]

\* keep the first occurrence of every element (StarZone: "without repetition")
RECURSIVE DedupFrom(_, _)
DedupFrom(s, seen) ==
  IF s = <<>> THEN <<>>
  ELSE IF Head(s) \in seen THEN DedupFrom(Tail(s), seen)
       ELSE <<Head(s)>> \o DedupFrom(Tail(s), seen \cup {Head(s)})
Dedup(s) == DedupFrom(s, {})

RECURSIVE SeqSum(_)
SeqSum(s) == IF s = <<>> THEN 0 ELSE Head(s) + SeqSum(Tail(s))

RECURSIVE SeqProd(_)
SeqProd(s) == IF s = <<>> THEN 1 ELSE Head(s) * SeqProd(Tail(s))

\* product of the first k entries of s
PrefixProd(s, k) == SeqProd(SubSeq(s, 1, k))

\* digit i (1-based, digit 1 is the fastest) of x written in the mixed radix given by the sequence radix
Digit(x, radix, i) == (x \div PrefixProd(radix, i - 1)) % radix[i]
\* value of the digit sequence d in the mixed radix
RECURSIVE FromDigits(_, _, _)
FromDigits(d, radix, i) == IF i > Len(d) THEN 0 ELSE d[i] * PrefixProd(radix, i - 1) + FromDigits(d, radix, i + 1)
=============================================================================
