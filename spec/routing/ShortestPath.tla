---------------------------- MODULE ShortestPath ----------------------------
(* Floyd, Dijkstra and DijkstraCache zones: the route between two points is a chain of declared one-hop routes whose  *)
(* total number of links is minimal.  z.mem = the points (netpoint numbers), z.rt = the declared one-hop routes        *)
(* [s, d, gs, gd, l, sym]; a symmetrical route also declares the route from d to s: the links in the opposite order,   *)
(* the opposite half of split-duplex links, the gateways exchanged.  Which minimal chain is taken is left open.        *)
EXTENDS RtUtil

SpInf == 1000000

SpEdges(z, lk) ==
  { [s |-> z.rt[i].s, d |-> z.rt[i].d, gs |-> z.rt[i].gs, gd |-> z.rt[i].gd, l |-> z.rt[i].l] : i \in 1..Len(z.rt) }
  \cup
  { [s |-> z.rt[i].d, d |-> z.rt[i].s, gs |-> z.rt[i].gd, gd |-> z.rt[i].gs,
     l |-> RevSeq([k \in 1..Len(z.rt[i].l) |-> lk[z.rt[i].l[k]].rev])] :
       i \in { j \in 1..Len(z.rt) : z.rt[j].sym /\ z.rt[j].s # z.rt[j].d } }

SpMembers(z) == { z.mem[i] : i \in 1..Len(z.mem) }

\* direct cost: number of links of the cheapest declared route from a to b (0 on the diagonal)
SpDirect(z, E, a, b) ==
  IF a = b THEN 0
  ELSE LET C == { Len(e.l) : e \in { x \in E : x.s = a /\ x.d = b } } IN
       IF C = {} THEN SpInf ELSE CHOOSE c \in C : \A c2 \in C : c <= c2

\* all-pairs minimal link counts (closure over intermediate points, one at a time)
RECURSIVE SpClose(_, _, _)
SpClose(D, M, K) ==
  IF K = {} THEN D
  ELSE LET k == CHOOSE x \in K : TRUE IN
       \* (TLCEval: TLC would otherwise keep the new matrix as an unevaluated expression over the previous one)
       SpClose(TLCEval([a \in M |-> TLCEval([b \in M |-> RtMin(D[a][b], RtMin(SpInf, D[a][k] + D[k][b]))])]), M, K \ {k})

SpDist(z, lk) ==
  LET M == SpMembers(z)
      E == SpEdges(z, lk)
  IN SpClose(TLCEval([a \in M |-> TLCEval([b \in M |-> SpDirect(z, E, a, b)])]), M, M)

\* the one-hop routes that start a minimal chain from u to t (u # t)
SpHops(E, D, u, t) ==
  { e \in E : e.s = u /\ e.d # u /\ D[u][t] < SpInf /\ D[e.d][t] < SpInf /\ Len(e.l) + D[e.d][t] = D[u][t] }
=============================================================================
