-------------------------------- MODULE Star --------------------------------
(* Star zones (StarZone, flat <cluster>s with or without backbone, and the link part of Vivaldi zones).               *)
(* Declared routes z.rt: [s, d, gs, gd, l, sym] with s = member and d = 0 ("from s to everyone": the up links of s,   *)
(* backbone included when there is one), s = 0 and d = member ("from everyone to d": the down links of d), or s = d    *)
(* (loopback of s).  A symmetrical up route also declares the down links: the same links in the opposite order, the   *)
(* opposite half of split-duplex links (lk[i].rev).                                                                    *)
(* Route from a to b: the loopback of a when a = b and a has one; otherwise the up links of a followed by the down     *)
(* links of b, without repetition (a link already present is not added again).  Limiter and backbone links are part   *)
(* of the declared up/down lists: they appear exactly as configured.                                                   *)
EXTENDS RtUtil

StarPick(R) == IF R = {} THEN <<>> ELSE (CHOOSE r \in R : TRUE).l
StarUp(z, m)   == StarPick({ z.rt[i] : i \in { j \in 1..Len(z.rt) : z.rt[j].s = m /\ z.rt[j].d = 0 } })
StarLoop(z, m) == StarPick({ z.rt[i] : i \in { j \in 1..Len(z.rt) : z.rt[j].s = m /\ z.rt[j].d = m } })
StarDown(z, lk, m) ==
  LET R == { z.rt[i] : i \in { j \in 1..Len(z.rt) : z.rt[j].s = 0 /\ z.rt[j].d = m } }
      S == { z.rt[i] : i \in { j \in 1..Len(z.rt) : z.rt[j].s = m /\ z.rt[j].d = 0 /\ z.rt[j].sym } }
  IN IF R # {} THEN StarPick(R)
     ELSE IF S # {} THEN LET l == StarPick(S) IN RevSeq([i \in 1..Len(l) |-> lk[l[i]].rev])
     ELSE <<>>
\* gateway of a member that is a zone (0 when the member is a host or a router)
StarGw(z, m) ==
  LET U == { j \in 1..Len(z.rt) : z.rt[j].s = m /\ z.rt[j].d = 0 /\ z.rt[j].gs # 0 }
      D == { j \in 1..Len(z.rt) : z.rt[j].s = 0 /\ z.rt[j].d = m /\ z.rt[j].gd # 0 }
  IN IF U # {} THEN z.rt[CHOOSE j \in U : TRUE].gs ELSE IF D # {} THEN z.rt[CHOOSE j \in D : TRUE].gd ELSE 0

StarRoute(z, lk, a, b) ==
  IF a = b /\ StarLoop(z, a) # <<>> THEN StarLoop(z, a)
  ELSE Dedup(StarUp(z, a) \o StarDown(z, lk, b))
=============================================================================
