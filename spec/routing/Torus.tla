-------------------------------- MODULE Torus --------------------------------
(* Dimension-order routing on a torus (TorusZone).  z.dims = <<n_1, ..., n_D>>; nodes are ranks 0..N-1, the          *)
(* coordinate of rank r in dimension j is digit j of r in the mixed radix z.dims (dimension 1 is the fastest).       *)
(* Every node owns, in each dimension j, the link to its neighbour in the positive direction (named                 *)
(* <zone>_link_from_<rank>_to_<neighbour>; split-duplex links have an _UP half used in the positive direction and a  *)
(* _DOWN half used in the negative direction).                                                                       *)
(* Forwarding: one dimension at a time (a started dimension is finished before another one is started; the order of  *)
(* the dimensions is left open), each hop along a shorter way round the ring; both ways are allowed at equal         *)
(* distance.                                                                                                         *)
EXTENDS RtUtil

TorusD(z)            == Len(z.dims)
TorusSize(z)         == SeqProd(z.dims)
TorusCoord(z, r, j)  == Digit(r, z.dims, j)
TorusStride(z, j)    == PrefixProd(z.dims, j - 1)
TorusPlus(z, r, j)   == IF TorusCoord(z, r, j) = z.dims[j] - 1 THEN r - (z.dims[j] - 1) * TorusStride(z, j)
                        ELSE r + TorusStride(z, j)
TorusMinus(z, r, j)  == IF TorusCoord(z, r, j) = 0 THEN r + (z.dims[j] - 1) * TorusStride(z, j)
                        ELSE r - TorusStride(z, j)
\* number of hops from a to b in dimension j going in the positive direction
TorusFwd(z, a, b, j) == (TorusCoord(z, b, j) - TorusCoord(z, a, j) + z.dims[j]) % z.dims[j]
TorusRing(z, a, b, j) == RtMin(TorusFwd(z, a, b, j), z.dims[j] - TorusFwd(z, a, b, j))
\* C26: hop count = sum over the dimensions of min(|delta|, n - |delta|)
TorusDistance(z, a, b) == SeqSum([j \in 1..TorusD(z) |-> TorusRing(z, a, b, j)])

TorusTodo(z, cur, to) == { j \in 1..TorusD(z) : TorusCoord(z, cur, j) # TorusCoord(z, to, j) }

\* the hops allowed from rank cur towards rank to; dim = dimension being routed (0: none yet)
\* a hop = [key: link key, dir: 1 (UP half) | 2 (DOWN half), nxt: node, dim: dimension]; nodes are <<0, rank>>
TorusHops(z, cur, to, dim) ==
  LET todo == TorusTodo(z, cur, to)
      dims == IF dim \in todo THEN {dim} ELSE todo
      Of(j) == LET f == TorusFwd(z, cur, to, j)
                   n == z.dims[j] IN
               (IF f <= n - f
                THEN {[key |-> <<1, cur, TorusPlus(z, cur, j), 0, 0>>, dir |-> 1, nxt |-> <<0, TorusPlus(z, cur, j)>>, dim |-> j]}
                ELSE {})
               \cup
               (IF n - f <= f
                THEN {[key |-> <<1, TorusMinus(z, cur, j), cur, 0, 0>>, dir |-> 2, nxt |-> <<0, TorusMinus(z, cur, j)>>, dim |-> j]}
                ELSE {})
  IN UNION { Of(j) : j \in dims }
=============================================================================
