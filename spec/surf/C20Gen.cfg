INIT Init
NEXT Next
POSTCONDITION Done
