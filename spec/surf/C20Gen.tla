-------------------------------- MODULE C20Gen --------------------------------
(* Case generator / oracle of C20: isolated activities follow the documented formulas (module Models).            *)
(* TLC enumerates the core grid defined below (one step per case) plus the seeded random layer passed as  *)
(* JSON (environment variable CASES: a list of case records built by the harness from VERIF_SEED), checks that     *)
(* every case lies in the domain, and prints each case with its exact expected duration:                            *)
(*     <<"CASE", source, index, json>>   json = [c |-> case, terms |-> <<rational, ...>>, alt |-> ..., ...]        *)
(* Expected duration = sum of `terms` (printed separately: with the SMPI six-digit factors the sum of the latency   *)
(* term and the transfer term does not fit 32-bit numerators; each term does).                                      *)
(*                                                                                                                  *)
(* Numbers.  Every quantity of a case is a dyadic number m * 2^e given by small integers.  Amounts and rates carry  *)
(* a common shift k: a case with shift k describes the scenario in which every size, bandwidth/speed and the TCP    *)
(* gamma are multiplied by 2^k.  All formulas of Models are homogeneous of degree 0 in (amounts, rates, gamma)      *)
(* jointly (lemma Homogeneous below, checked by TLC on a sample), so the expected duration is computed on the       *)
(* unshifted numbers, which keeps every intermediate value inside 32 bits, while the real models run on magnitudes  *)
(* from 1 to 2^47.  The only non-homogeneous ingredient, the SMPI size class, is taken from the actual size.        *)
EXTENDS Models, Json, IOUtils, FiniteSets, SequencesExt

Cases == JsonDeserialize(IOEnv.CASES)

Mant == {1, 3, 5, 7}

\* ------------------------------------------------------------------ domain of the cases
ValidLink(l) == /\ l.mb \in Mant /\ l.eb \in 0..12 /\ l.ml \in Mant \cup {0} /\ l.el \in 0..19
                /\ l.pol \in Policies
ValidComm(c) ==
  /\ c.model \in NetModels /\ c.ct \in {-1, 0, 1} /\ c.g \in -2..62 /\ c.k \in 0..40
  /\ c.size[1] \in Mant /\ c.size[2] \in -9..9 /\ c.k + c.size[2] >= 0
  /\ Len(c.links) \in 1..8 /\ \A i \in 1..Len(c.links) : ValidLink(c.links[i])
  \* the smallest bandwidth of the route has exponent 0: sizes stay within 2^-9..2^9 of it
  /\ \E i \in 1..Len(c.links) : c.links[i].eb = 0
  \* latencies of one route within a window of 2^6 (numerator of their sum < 2^12)
  /\ \A i, j \in 1..Len(c.links) :
        (c.links[i].ml # 0 /\ c.links[j].ml # 0) => c.links[i].el - c.links[j].el \in -6..6
  \* the six-digit SMPI factors leave less room: latencies >= 2^-14, all with the same exponent; sizes within 2^8 of
  \* the bandwidth, within 2^2 when the TCP window is modelled
  /\ c.model = "SMPI" =>
        /\ c.size[2] \in -8..8
        /\ \A i, j \in 1..Len(c.links) :
              (c.links[i].ml # 0 /\ c.links[j].ml # 0) => c.links[i].el = c.links[j].el /\ c.links[i].el <= 14
        /\ (c.g # -1 /\ \E i \in 1..Len(c.links) : c.links[i].ml # 0) => c.size[2] \in -2..2
  \* gamma (unshifted) and gamma / (2 lat) representable: exponents within 30
  /\ LET ge == IF c.g = -2 THEN (IF c.model = "raw" THEN -1 ELSE 22) ELSE c.g
         lats == { i \in 1..Len(c.links) : c.links[i].ml # 0 } IN
     (ge >= 0 /\ lats # {}) =>
        /\ ge - c.k \in -30..30
        \* gamma / (2 lat) = 2^E / L with L the numerator of the latency sum: 0 <= E <= 30
        /\ \A i \in lats : ge - c.k + c.links[i].el - 1 <= 30
        /\ \E i \in lats : /\ \A j \in lats : c.links[j].el <= c.links[i].el
                            /\ ge - c.k + c.links[i].el - 1 >= 0
ValidExec(c) ==
  /\ c.k \in 0..40 /\ c.flops[1] \in Mant /\ c.flops[2] \in -12..12 /\ c.speed[1] \in Mant /\ c.speed[2] \in 0..4
  /\ c.cores \in 1..8 /\ c.threads \in 1..12 /\ c.prio \in 1..4
  /\ c.bound[1] \in Mant \cup {0} /\ c.bound[2] \in -6..6 /\ (c.threads > 1 => c.bound[1] = 0)
ValidSleep(c) == c.d[1] \in Mant /\ c.d[2] \in -20..12
ValidIo(c) ==
  /\ c.op \in {"read", "write"} /\ c.k \in 0..40 /\ c.size[1] \in Mant /\ c.size[2] \in -12..12 /\ c.k + c.size[2] >= 0
  /\ c.rbw[1] \in Mant /\ c.rbw[2] \in 0..6 /\ c.wbw[1] \in Mant /\ c.wbw[2] \in 0..6
ValidPtask(c) ==
  /\ c.k \in 0..40 /\ Len(c.flops) \in 1..4 /\ Len(c.speeds) = Len(c.flops)
  /\ \A i \in 1..Len(c.flops) : /\ c.flops[i][1] \in Mant \cup {0} /\ c.flops[i][2] \in -10..10
                                /\ c.speeds[i][1] \in Mant /\ c.speeds[i][2] \in 0..4
  /\ \E i \in 1..Len(c.flops) : c.flops[i][1] # 0
Valid(c) == CASE c.kind = "comm"  -> ValidComm(c)
              [] c.kind = "exec"  -> ValidExec(c)
              [] c.kind = "sleep" -> ValidSleep(c)
              [] c.kind = "io"    -> ValidIo(c)
              [] c.kind = "ptask" -> ValidPtask(c)
              [] OTHER -> FALSE

\* ------------------------------------------------------------------ expected values
LinksOf(c) == [i \in 1..Len(c.links) |->
                 [bw |-> Dy(c.links[i].mb, c.links[i].eb), lat |-> Dy(c.links[i].ml, -c.links[i].el), pol |-> c.links[i].pol]]
\* TCP gamma of the run is 2^g (g = -1: 0, g = -2: option not given, the model's default applies); unshifted: 2^(g-k)
GammaExp(c) == IF c.g = -2 THEN (IF DefaultGammaOf(c.model) = 0 THEN -1 ELSE 22) ELSE c.g
GammaOf(c) == IF GammaExp(c) < 0 THEN Zero ELSE Dy(1, GammaExp(c) - c.k)
CtOf(c) == IF c.ct = -1 THEN DefaultCrossTraffic(c.model) ELSE c.ct = 1
\* class of the actual size m * 2^(k+j): beyond 2^17 it is the last one whatever the mantissa
SizeClass(c) == LET x == c.k + c.size[2] IN
                IF c.model # "SMPI" THEN 0
                ELSE IF x > 17 THEN SmpiTop
                ELSE LET actual == c.size[1] * Pow2(x) IN
                     IF OnSmpiBoundary(actual) THEN Assert(FALSE, <<"size on an SMPI boundary", c>>) ELSE SmpiClass(actual)

EvalComm(c) ==
  CHOOSE r \in { [c |-> c, cls |-> cls,
                  terms  |-> CommTerms(c.model, cls, size, links, gamma, ct),
                  alt    |-> CommTermsFactorOnWindow(c.model, cls, size, links, gamma, ct),
                  window |-> WindowMatters(c.model, cls, links, gamma, ct),
                  glimited |-> GammaApplies(links, gamma) /\ RLt(GammaRate(links, gamma), RouteBw(links, ct))] :
                  links \in {Tup(LinksOf(c))}, cls \in {SizeClass(c)}, size \in {Dy(c.size[1], c.size[2])},
                  gamma \in {GammaOf(c)}, ct \in {CtOf(c)} } : TRUE

EvalExec(c) ==
  LET bound == IF c.bound[1] = 0 THEN Zero ELSE Dy(c.bound[1], c.bound[2]) IN
  [c |-> c, terms |-> <<ExecDuration(Dy(c.flops[1], c.flops[2]), Dy(c.speed[1], c.speed[2]), c.cores, c.threads, bound)>>]
EvalSleep(c) == [c |-> c, terms |-> <<SleepDuration(Dy(c.d[1], c.d[2]))>>]
EvalIo(c) == [c |-> c, terms |-> <<IoDuration(Dy(c.size[1], c.size[2]), c.op, Dy(c.rbw[1], c.rbw[2]), Dy(c.wbw[1], c.wbw[2]))>>]
EvalPtask(c) ==
  [c |-> c, terms |-> <<PtaskDuration([i \in 1..Len(c.flops) |-> Dy(c.flops[i][1], c.flops[i][2])],
                                      [i \in 1..Len(c.flops) |-> Dy(c.speeds[i][1], c.speeds[i][2])])>>]

Eval(c) == CASE c.kind = "comm"  -> EvalComm(c)
             [] c.kind = "exec"  -> EvalExec(c)
             [] c.kind = "sleep" -> EvalSleep(c)
             [] c.kind = "io"    -> EvalIo(c)
             [] c.kind = "ptask" -> EvalPtask(c)

\* ------------------------------------------------------------------ core grid (enumerated exhaustively by TLC)
\* route of n links: every link has latency 2^-el (or none); link `slow` is the bottleneck (exponent 0, mantissa mb),
\* the others are 8 times faster
Route(n, pol, el, slow, mb) ==
  [i \in 1..n |-> [mb |-> IF i = slow THEN mb ELSE 1, eb |-> IF i = slow THEN 0 ELSE 3,
                   ml |-> IF el < 0 THEN 0 ELSE 1, el |-> IF el < 0 THEN 0 ELSE el, pol |-> pol]]
\* gamma exponent such that gamma/(2 lat) = 2^delta / n in unshifted units (lat = n * 2^-el)
GammaFor(k, el, delta) == IF k + 1 - el + delta < 0 THEN 0 ELSE k + 1 - el + delta
CoreComm ==
  { [kind |-> "comm", model |-> m, ct |-> ct, g |-> IF el < 0 \/ delta = -99 THEN -1 ELSE GammaFor(k, el, delta), k |-> k,
     size |-> <<ms, IF m = "SMPI" /\ delta # -99 /\ el >= 0 THEN j \div 4 ELSE j>>,
     links |-> Route(n, pol, el, IF n = 1 THEN 1 ELSE 2, mb)] :
      m \in NetModels, ct \in {0, 1}, delta \in {-99, 0, 2, 9}, k \in {6, 24}, ms \in {5}, j \in {-6, 1, 8},
      n \in {1, 3, 8}, pol \in Policies, el \in {-1, 6, 14}, mb \in {3} }
CoreDefaults ==   \* options left to their documented defaults
  { [kind |-> "comm", model |-> m, ct |-> -1, g |-> -2, k |-> k, size |-> <<3, j>>,
     links |-> Route(n, "SHARED", el, 1, 1)] :
      m \in NetModels, k \in {16, 20, 24}, j \in {-2, 2}, n \in {1, 2}, el \in {4, 9, 14} }
CoreExec ==
  { [kind |-> "exec", k |-> k, flops |-> <<mf, j>>, speed |-> <<ms, 0>>, cores |-> co, threads |-> th, prio |-> pr,
     bound |-> IF th > 1 THEN <<0, 0>> ELSE b] :
      k \in {4, 30}, mf \in {1, 7}, j \in {-10, 0, 9}, ms \in {1, 5}, co \in {1, 4}, th \in {1, 2, 4, 6}, pr \in {1, 3},
      b \in {<<0, 0>>, <<1, -1>>, <<3, 2>>} }
CoreSleep == { [kind |-> "sleep", d |-> <<m, e>>] : m \in Mant, e \in {-20, -13, -7, -1, 0, 3, 12} }
CoreIo == { [kind |-> "io", op |-> op, k |-> k, size |-> <<ms, j>>, rbw |-> <<mr, 2>>, wbw |-> <<mw, 1>>] :
              op \in {"read", "write"}, k \in {0, 13, 27}, ms \in {1, 7}, j \in {0, 5, 12}, mr \in {1, 5}, mw \in {1, 3} }
CorePtask ==
  { [kind |-> "ptask", k |-> k, flops |-> <<<<m1, j1>>, <<m2, j2>>, <<m3, 2>>>>, speeds |-> <<<<1, 0>>, <<s2, 1>>, <<3, 0>>>>] :
      k \in {5, 29}, m1 \in {1, 5}, j1 \in {-3, 4}, m2 \in {0, 3}, j2 \in {0, 6}, m3 \in {0, 7}, s2 \in {1, 7} }
CoreGrid == CoreComm \cup CoreDefaults \cup CoreExec \cup CoreSleep \cup CoreIo \cup CorePtask

\* ------------------------------------------------------------------ lemma used by the number representation
\* scaling amounts, rates and gamma by the same power of two leaves the terms unchanged (checked on a sample)
Homogeneous ==
  \A s \in {1, 4} : \A m \in {"LV08", "CM02"} : \A ct \in BOOLEAN :
    LET l1 == <<[bw |-> RI(3), lat |-> R(1, 64), pol |-> "SHARED"], [bw |-> RI(8), lat |-> R(3, 64), pol |-> "FATPIPE"]>>
        l2 == [i \in 1..2 |-> [l1[i] EXCEPT !.bw = RMulI(@, Pow2(s))]] IN
    /\ CommTerms(m, 0, RI(5), l1, RI(16), ct) = CommTerms(m, 0, RMulI(RI(5), Pow2(s)), l2, RMulI(RI(16), Pow2(s)), ct)
    /\ ExecDuration(RI(5), RI(3), 4, 6, Zero) = ExecDuration(RMulI(RI(5), Pow2(s)), RMulI(RI(3), Pow2(s)), 4, 6, Zero)
ASSUME Homogeneous

\* ------------------------------------------------------------------ enumeration
\* The expected values are computed once, at constant level (inside a state TLC does not cache LET definitions and
\* operator arguments, which makes the nested rational arithmetic orders of magnitude slower), kept in TLC registers
\* (hence -workers 1), and printed one case per TLC step.
Line(s, i, c) == IF Valid(c) THEN ToJson(Eval(c))
                 ELSE Assert(FALSE, <<"case outside the domain of the specification", s, i, c>>)
\* (TLC re-evaluates LET definitions and operator arguments at every use: big collections go through registers)
ASSUME TLCSet(3, SetToSeq(CoreGrid)) /\ TLCSet(4, Cases)
ASSUME /\ TLCSet(1, [i \in 1..Len(TLCGet(3)) |-> Line("core", i, TLCGet(3)[i])])
       /\ TLCSet(2, [i \in 1..Len(TLCGet(4)) |-> Line("rand", i, TLCGet(4)[i])])
CoreLines == TLCGet(1)
RandLines == TLCGet(2)
NCore == Len(CoreLines)
NRand == Len(RandLines)

VARIABLES idx
vars == <<idx>>

Init == idx = 0
Next == /\ idx < NCore + NRand
        /\ idx' = idx + 1
        /\ IF idx' <= NCore THEN PrintT(<<"CASE", "core", idx', CoreLines[idx']>>)
                            ELSE PrintT(<<"CASE", "rand", idx' - NCore, RandLines[idx' - NCore]>>)
Done == PrintT(<<"DONE", NCore, NRand>>)
=============================================================================
