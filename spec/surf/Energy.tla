-------------------------------- MODULE Energy --------------------------------
(* Power model of the host and link energy plugins (property C23; src/plugins/host_energy.cpp header documentation:  *)
(* "wattage_per_state" = Idle:Epsilon:AllCores per pstate, "wattage_off"; src/plugins/link_energy.cpp:              *)
(* "wattage_range" = Idle:Busy).                                                                                     *)
(*   host off                      -> wattage_off                                                                    *)
(*   host on, nothing running      -> Idle of the current pstate                                                     *)
(*   host on, load > 0             -> Epsilon + load * (AllCores - Epsilon) of the current pstate,                   *)
(*                                    load = used fraction of the cores (flops delivered / (cores * pstate speed))   *)
(*   link                          -> Idle + (Busy - Idle) * (bytes per second / bandwidth)                          *)
(* Energy is the integral of the power over time; on a timeline whose state is constant on [t, t + d) it grows by    *)
(* Power * d.  It never decreases because powers are non-negative.                                                   *)
EXTENDS Rat

\* w = [idle |-> Rat, eps |-> Rat, max |-> Rat]
HostPower(on, w, woff, load) ==
  IF ~on THEN woff
  ELSE IF RIsZero(load) THEN w.idle
  ELSE RAdd(w.eps, RMul(RMin(load, One), RSub(w.max, w.eps)))

\* used fraction of the cores: delivered flops per second over the capacity at the pstate's speed
LoadFraction(delivered, cores, speed) == IF RIsZero(speed) THEN One ELSE RDiv(delivered, RMulI(speed, cores))

LinkPower(idle, busy, usage, bw) == RAdd(idle, RMul(RSub(busy, idle), RDiv(usage, bw)))

Grow(energy, power, d) == RAdd(energy, RMul(power, d))

\* documentation example of host_energy.cpp: 100:120:200, 4 cores: 0 -> 100 W, 1 -> 140, 2 -> 160, 3 -> 180, 4 -> 200
ASSUME LET w == [idle |-> RI(100), eps |-> RI(120), max |-> RI(200)] IN
       /\ HostPower(TRUE, w, RI(10), Zero) = RI(100)
       /\ \A k \in 1..4 : HostPower(TRUE, w, RI(10), LoadFraction(RI(k * 5), 4, RI(5))) = RI(120 + 20 * k)
       /\ HostPower(FALSE, w, RI(10), Zero) = RI(10)
       /\ LinkPower(RI(100), RI(200), RI(5), RI(10)) = RI(150)
=============================================================================
