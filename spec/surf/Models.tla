-------------------------------- MODULE Models --------------------------------
(* Documented duration formulas of SimGrid's analytic resource models for an activity that is alone on its        *)
(* resources (property C20), as operators over exact rationals (module Rat).                                       *)
(* Sources: docs/source/Models.rst (CM02, LV08, cross-traffic, TCP gamma), docs/source/Configuring_SimGrid.rst     *)
(* (network/TCP-gamma, network/latency-factor, network/bandwidth-factor, SMPI piecewise factors),                  *)
(* statement of C20 in properties.jsonl.                                                                           *)
(*                                                                                                                 *)
(*   exec of W flops on a host of speed S                     : W / S                                              *)
(*   ... with a user bound b / with k threads on n cores      : W / min(S, b)  /  k*W / (min(k, n) * S)            *)
(*   sleep of d                                               : d                                                  *)
(*   communication of s bytes over links l1..ln               : lat * latency_factor(s)                            *)
(*                                                              + s / min(bw * bandwidth_factor(s), gamma/(2 lat)) *)
(*        lat = sum of the link latencies, bw = smallest *available* bandwidth of the route: the nominal           *)
(*        bandwidth, divided by 1.05 on a SHARED link when cross-traffic is on (the acknowledgements of the flow   *)
(*        use 5% of what the flow gets on the same link); a FATPIPE link is not shared and a SPLITDUPLEX link      *)
(*        carries the acknowledgements on its other direction, so neither is reduced                               *)
(*   I/O of s bytes                                           : s / read_bw  or  s / write_bw                      *)
(*   parallel task of pure computation                        : max_i flops_i / speed_i                            *)
EXTENDS Rat

\* ------------------------------------------------------------------ parameters of the network models
NetModels == {"raw", "CM02", "LV08", "SMPI"}
DefaultGamma == 4194304            \* network/TCP-gamma (bytes); raw sets it to 0
CrossTrafficShare == R(5, 100)     \* 0.05 ("adding backward flow using 5% of the available bandwidth")

\* SMPI piecewise factors: boundary |-> factor, applicable from the boundary on ("boundary:factor").
\* Values of Configuring_SimGrid.rst, written n / 10^6 (bandwidth) and n / 10^5 or 10^4 (latency).
SmpiBounds == <<0, 257, 732, 1426, 3484, 5776, 9376, 15424, 65472>>
SmpiBwF  == <<R(812084, 1000000), R(338112, 1000000), R(341987, 1000000), R(608902, 1000000), R(774930, 1000000),
              R(1087390, 1000000), R(587290, 1000000), R(697866, 1000000), R(940694, 1000000)>>
SmpiLatF == <<R(201467, 100000), R(195341, 100000), R(19503, 10000), R(161075, 100000), R(188101, 100000),
              R(218796, 100000), R(259299, 100000), R(348845, 100000), R(116436, 10000)>>

\* class of a message size: index of the last boundary strictly below the size.  The documentation and the code
\* disagree on which side a size *equal* to a boundary falls; C20 does not say, so such sizes are outside the domain.
OnSmpiBoundary(size) == \E i \in 1..Len(SmpiBounds) : SmpiBounds[i] = size
SmpiClass(size) == CHOOSE i \in 1..Len(SmpiBounds) :
                      /\ SmpiBounds[i] < size
                      /\ (i = Len(SmpiBounds) \/ size < SmpiBounds[i + 1])
SmpiTop == Len(SmpiBounds)

\* cls is only used by SMPI (class of the actual message size)
LatFactor(model, cls) == CASE model = "raw"  -> One
                           [] model = "CM02" -> One
                           [] model = "LV08" -> R(1301, 100)
                           [] model = "SMPI" -> SmpiLatF[cls]
BwFactor(model, cls)  == CASE model = "raw"  -> One
                           [] model = "CM02" -> One
                           [] model = "LV08" -> R(97, 100)
                           [] model = "SMPI" -> SmpiBwF[cls]
\* defaults when the corresponding option is not given on the command line (host model "default" turns cross-traffic
\* on; raw turns it off and sets gamma to 0)
DefaultCrossTraffic(model) == model # "raw"
DefaultGammaOf(model)      == IF model = "raw" THEN 0 ELSE DefaultGamma

\* ------------------------------------------------------------------ communications
\* links: sequence of records [bw |-> Rat, lat |-> Rat, pol |-> "SHARED" | "FATPIPE" | "SPLITDUPLEX"]
Policies == {"SHARED", "FATPIPE", "SPLITDUPLEX"}
RouteLatency(links) == RSumSeq(Tup([i \in 1..Len(links) |-> links[i].lat]))
AvailBw(l, ct) == IF ct /\ l.pol = "SHARED" THEN RDiv(l.bw, RAdd(One, CrossTrafficShare)) ELSE l.bw
RouteBw(links, ct) == RMinSeq(Tup([i \in 1..Len(links) |-> AvailBw(links[i], ct)]))

\* the TCP window limit applies when gamma > 0 and the route has a latency
GammaApplies(links, gamma) == RPos(gamma) /\ RPos(RouteLatency(links))
GammaRate(links, gamma) == RDiv(gamma, RMulI(RouteLatency(links), 2))

LatTerm(model, cls, links) == RMul(RouteLatency(links), LatFactor(model, cls))

\* rate of the property's formula: min(bw * bandwidth_factor, gamma / (2 lat))
CommRate(model, cls, links, gamma, ct) ==
  LET b == RMul(RouteBw(links, ct), BwFactor(model, cls)) IN
  IF GammaApplies(links, gamma) THEN RMin(b, GammaRate(links, gamma)) ELSE b

\* the other reading, in which the bandwidth factor also scales the window term: bandwidth_factor * min(bw, gamma/(2 lat)).
\* NOT the property: it characterises the known deviation of network_cm02.cpp (KNOWN_FINDINGS C20:gamma-limited:...)
CommRateFactorOnWindow(model, cls, links, gamma, ct) ==
  LET b == RouteBw(links, ct) IN
  RMul(BwFactor(model, cls), IF GammaApplies(links, gamma) THEN RMin(b, GammaRate(links, gamma)) ELSE b)

\* the two readings coincide unless the window term takes part in one of the two minima and the factor is not 1
WindowMatters(model, cls, links, gamma, ct) ==
  CommRate(model, cls, links, gamma, ct) # CommRateFactorOnWindow(model, cls, links, gamma, ct)

\* duration = LatTerm + size / rate, returned as the two terms (their sum may need more than 32 bits)
CommTerms(model, cls, size, links, gamma, ct) ==
  <<LatTerm(model, cls, links), RDiv(size, CommRate(model, cls, links, gamma, ct))>>
CommTermsFactorOnWindow(model, cls, size, links, gamma, ct) ==
  <<LatTerm(model, cls, links), RDiv(size, CommRateFactorOnWindow(model, cls, links, gamma, ct))>>

\* ------------------------------------------------------------------ CPU
\* one execution of `flops` per thread, `threads` threads, on a host of `cores` cores of speed `speed`,
\* optional user bound (Zero = none).  The priority does not matter for an execution that is alone.
ExecRate(speed, cores, threads, bound) ==
  LET r == RMulI(speed, IF threads < cores THEN threads ELSE cores) IN
  IF RPos(bound) THEN RMin(r, bound) ELSE r
ExecDuration(flops, speed, cores, threads, bound) ==
  RDiv(RMulI(flops, threads), ExecRate(speed, cores, threads, bound))

SleepDuration(d) == d

\* parallel task of pure computation: the largest flops/speed ratio of its parts (parts with 0 flops do not count)
PtaskDuration(flops, speeds) == RMaxSeq(Tup([i \in 1..Len(flops) |-> RDiv(flops[i], speeds[i])]))

\* ------------------------------------------------------------------ disk
IoDuration(size, op, readBw, writeBw) == RDiv(size, IF op = "read" THEN readBw ELSE writeBw)

\* ------------------------------------------------------------------ sanity of the transcription (evaluated at load)
ASSUME /\ SmpiClass(1) = 1 /\ SmpiClass(256) = 1 /\ SmpiClass(258) = 2 /\ SmpiClass(65471) = 8 /\ SmpiClass(65473) = 9
       /\ Len(SmpiBwF) = Len(SmpiBounds) /\ Len(SmpiLatF) = Len(SmpiBounds)
       \* Models.rst, LV08 example: 100 kB over 1 Mbps / 10 ms, cross-traffic on: 0.01*13.01 + 800000/((0.97*1e6)/1.05)
       /\ LET l == <<[bw |-> RI(1000000), lat |-> R(1, 100), pol |-> "SHARED"]>>
              t == CommTerms("LV08", 0, RI(800000), l, RI(DefaultGamma), TRUE) IN
          t[1] = R(1301, 10000) /\ t[2] = R(800000 * 21, 19400000)
       \* Models.rst, CM02: a 1 GiB/s link with 10 ms latency is window-limited: gamma/(2 lat) = 209 715 200 B/s
       /\ LET l == <<[bw |-> RI(1073741824), lat |-> R(1, 100), pol |-> "SHARED"]>> IN
          CommRate("CM02", 0, l, RI(DefaultGamma), FALSE) = RI(209715200)
=============================================================================
