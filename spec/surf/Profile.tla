-------------------------------- MODULE Profile --------------------------------
(* Availability profiles (speed, bandwidth, latency, state): value at date t of a piecewise-constant, possibly      *)
(* periodic profile (property C22; docs: "Modeling churn / external load", kernel/resource/profile).                *)
(*                                                                                                                  *)
(* A profile is a record [pts |-> <<[t |-> Rat, v |-> Rat], ...>>, period |-> Rat, init |-> Rat]:                   *)
(*   pts     points sorted by non-decreasing date, dates relative to the start of an iteration                      *)
(*   period  0 for a one-shot profile; otherwise the iteration restarts every `period` (period >= last date)        *)
(*   init    value of the resource before the first point of the first iteration                                    *)
(* The value at date t is that of the latest point whose date (in any iteration) is <= t; among points with the     *)
(* same date the last listed wins.  An empty `pts` means "no profile".                                              *)
EXTENDS Rat

NoProfile == [pts |-> <<>>, period |-> Zero, init |-> Zero]
HasProfile(p) == Len(p.pts) > 0
Periodic(p) == RPos(p.period)

\* floor(a / b) for a >= 0, b > 0
FloorDiv(a, b) == LET q == RDiv(a, b) IN q[1] \div q[2]
\* date within the current iteration, and iteration number
IterOf(p, t) == IF Periodic(p) THEN FloorDiv(t, p.period) ELSE 0
Local(p, t) == IF Periodic(p) THEN RSub(t, RMulI(p.period, IterOf(p, t))) ELSE t

\* index of the last point with date <= x (0 if none)
LastIdx(p, x) == LET S == { i \in 1..Len(p.pts) : RLe(p.pts[i].t, x) } IN
                 IF S = {} THEN 0 ELSE CHOOSE i \in S : \A j \in S : j <= i

ValueAt(p, t) ==
  IF ~HasProfile(p) THEN p.init
  ELSE LET i == LastIdx(p, Local(p, t)) IN
       IF i > 0 THEN p.pts[i].v
       ELSE IF IterOf(p, t) = 0 THEN p.init
       ELSE p.pts[Len(p.pts)].v            \* before the first point of a later iteration: the last value of the previous one

\* dates of the points strictly after t, in the current and the next iteration (enough to find the next change)
FutureDates(p, t) ==
  IF ~HasProfile(p) THEN {}
  ELSE LET k == IterOf(p, t)
           base(j) == IF Periodic(p) THEN RMulI(p.period, j) ELSE Zero
           its == IF Periodic(p) THEN {k, k + 1} ELSE {0} IN
       { d \in { RAdd(base(j), p.pts[i].t) : j \in its, i \in 1..Len(p.pts) } : RLt(t, d) }
HasNext(p, t) == FutureDates(p, t) # {}
NextDate(p, t) == RSetMin(FutureDates(p, t))

\* well-formedness
WellFormed(p) ==
  /\ \A i \in 1..Len(p.pts) : ~RLt(p.pts[i].t, Zero) /\ ~RLt(p.pts[i].v, Zero)
  /\ \A i \in 1..Len(p.pts) - 1 : RLe(p.pts[i].t, p.pts[i + 1].t)
  /\ (Periodic(p) /\ HasProfile(p)) => RLe(p.pts[Len(p.pts)].t, p.period)

\* self-test
ASSUME LET p == [pts |-> <<[t |-> RI(1), v |-> RI(5)], [t |-> RI(3), v |-> RI(7)]>>, period |-> RI(4), init |-> RI(2)]
           q == [p EXCEPT !.period = Zero] IN
       /\ ValueAt(p, Zero) = RI(2) /\ ValueAt(p, RI(1)) = RI(5) /\ ValueAt(p, R(5, 2)) = RI(5) /\ ValueAt(p, RI(3)) = RI(7)
       /\ ValueAt(p, RI(4)) = RI(7) /\ ValueAt(p, R(9, 2)) = RI(7) /\ ValueAt(p, RI(5)) = RI(5) /\ ValueAt(p, RI(11)) = RI(7)
       /\ ValueAt(q, RI(100)) = RI(7) /\ NextDate(p, RI(3)) = RI(5) /\ NextDate(p, RI(1)) = RI(3) /\ ~HasNext(q, RI(3))
       /\ NextDate(p, R(1, 2)) = RI(1) /\ WellFormed(p)
=============================================================================
