-------------------------------- MODULE Profile --------------------------------
(* Availability profiles (speed, bandwidth, latency, state): value at date t of a piecewise-constant, possibly      *)
(* periodic profile (property C22; docs: "Modeling churn / external load", kernel/resource/profile).                *)
(*                                                                                                                  *)
(* A profile is a record [pts |-> <<[k |-> Nat, v |-> Rat], ...>>, period |-> Nat, init |-> Rat]:                   *)
(*   pts     points sorted by non-decreasing date; dates are integer numbers of ticks (the scenario fixes the tick,  *)
(*           tps ticks per second), relative to the start of an iteration                                           *)
(*   period  0 for a one-shot profile; otherwise the iteration restarts every `period` ticks (period >= last date)  *)
(*   init    value of the resource before the first point of the first iteration                                    *)
(* The value at date t is that of the latest point whose date (in any iteration) is <= t; among points with the     *)
(* same date the last listed wins.  An empty `pts` means "no profile".                                              *)
(* Dates t are arbitrary rationals; since point dates are whole ticks, "point date <= t" is "point tick <= tk" and  *)
(* "point date > t" is "point tick > tk" with tk = floor(t * tps): the operators below work on tk (integers only).  *)
EXTENDS Rat

NoProfile == [pts |-> <<>>, period |-> 0, init |-> Zero]
HasProfile(p) == Len(p.pts) > 0
Periodic(p) == p.period > 0

\* floor(t * tps) for t >= 0
TickOf(t, tps) == (t[1] * tps) \div t[2]
DateOf(k, tps) == R(k, tps)

IterOf(p, tk) == IF Periodic(p) THEN tk \div p.period ELSE 0
Local(p, tk) == IF Periodic(p) THEN tk % p.period ELSE tk

\* index of the last point with tick <= x (0 if none); points are sorted
RECURSIVE LastFrom(_, _, _)
LastFrom(p, x, i) == IF i = 0 THEN 0 ELSE IF p.pts[i].k <= x THEN i ELSE LastFrom(p, x, i - 1)
LastIdx(p, x) == LastFrom(p, x, Len(p.pts))

ValueAtTk(p, tk) ==
  IF ~HasProfile(p) THEN p.init
  ELSE LET i == LastIdx(p, Local(p, tk)) IN
       IF i > 0 THEN p.pts[i].v
       ELSE IF IterOf(p, tk) = 0 THEN p.init
       ELSE p.pts[Len(p.pts)].v            \* before the first point of a later iteration: the last value of the previous one
ValueAt(p, t, tps) == ValueAtTk(p, TickOf(t, tps))

\* tick of the first point strictly after tick tk (-1 if none): in the current iteration, else the first point of the
\* next iteration
RECURSIVE FirstAfter(_, _, _)
FirstAfter(p, x, i) == IF i > Len(p.pts) THEN 0 ELSE IF p.pts[i].k > x THEN i ELSE FirstAfter(p, x, i + 1)
NextTick(p, tk) ==
  IF ~HasProfile(p) THEN -1
  ELSE LET i == FirstAfter(p, Local(p, tk), 1) IN
       IF i > 0 THEN (tk - Local(p, tk)) + p.pts[i].k
       ELSE IF Periodic(p) THEN (tk - Local(p, tk)) + p.period + p.pts[1].k
       ELSE -1

\* well-formedness
WellFormed(p) ==
  /\ \A i \in 1..Len(p.pts) : p.pts[i].k >= 0 /\ ~RLt(p.pts[i].v, Zero)
  /\ \A i \in 1..Len(p.pts) - 1 : p.pts[i].k <= p.pts[i + 1].k
  /\ (Periodic(p) /\ HasProfile(p)) => p.pts[Len(p.pts)].k <= p.period

\* self-test (tick = 1/2 s: points at 1 s and 3 s, period 4 s)
ASSUME LET p == [pts |-> <<[k |-> 2, v |-> RI(5)], [k |-> 6, v |-> RI(7)]>>, period |-> 8, init |-> RI(2)]
           q == [p EXCEPT !.period = 0]
           V(x, t) == ValueAt(x, t, 2) IN
       /\ V(p, Zero) = RI(2) /\ V(p, RI(1)) = RI(5) /\ V(p, R(5, 2)) = RI(5) /\ V(p, RI(3)) = RI(7) /\ V(p, R(5, 3)) = RI(5)
       /\ V(p, RI(4)) = RI(7) /\ V(p, R(9, 2)) = RI(7) /\ V(p, RI(5)) = RI(5) /\ V(p, RI(11)) = RI(7) /\ V(p, R(29, 6)) = RI(7)
       /\ V(q, RI(100)) = RI(7) /\ NextTick(p, 6) = 10 /\ NextTick(p, 2) = 6 /\ NextTick(q, 6) = -1
       /\ NextTick(p, 1) = 2 /\ NextTick(p, 0) = 2 /\ NextTick(p, 7) = 10 /\ NextTick(p, 8) = 10 /\ NextTick(p, 13) = 14
       /\ WellFormed(p) /\ TickOf(R(29, 6), 2) = 9
=============================================================================
