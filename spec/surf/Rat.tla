--------------------------------- MODULE Rat ---------------------------------
(* Exact rational arithmetic for TLC.  A rational is a pair <<n, d>> with d > 0 and gcd(|n|, d) = 1.             *)
(* TLC integers are 32-bit; TLC itself raises "Overflow when computing ..." on +, -, * that leave the range, so an *)
(* out-of-range intermediate value stops the run with an evaluation error (an infrastructure error of the check,  *)
(* never a verdict).  To keep intermediate values as small as the final result allows, products cancel crosswise   *)
(* before multiplying, sums use the lcm of the denominators, and comparisons never multiply (continued-fraction    *)
(* comparison).                                                                                                    *)
EXTENDS Integers, Sequences, TLC

RECURSIVE Gcd(_, _)
Gcd(a, b) == IF b = 0 THEN a ELSE Gcd(b, a % b)
Abs(x) == IF x < 0 THEN -x ELSE x

IsRat(r) == /\ Len(r) = 2 /\ r[1] \in Int /\ r[2] \in Int /\ r[2] > 0 /\ Gcd(Abs(r[1]), r[2]) = 1

\* TLC passes operator arguments and LET definitions by name and (in the contexts used here) re-evaluates them at every
\* use, so nested arithmetic would cost exponentially many evaluations.  B1/B2 bind the arguments to *values* first
\* (elements of an enumerated set are evaluated once); every public operator goes through them.
B1(Op(_), a0) == CHOOSE r \in { Op(a) : a \in {a0} } : TRUE
B2(Op(_, _), a0, b0) == CHOOSE r \in { Op(a, b) : a \in {a0}, b \in {b0} } : TRUE

\* normalised rational n/d (d # 0)
RV(n, d) == IF n = 0 THEN <<0, 1>>
            ELSE B1(LAMBDA g : IF d < 0 THEN <<-(n \div g), (-d) \div g>> ELSE <<n \div g, d \div g>>, Gcd(Abs(n), Abs(d)))
R(n, d) == B2(RV, n, d)
RI(n) == <<n, 1>>
Zero == <<0, 1>>
One  == <<1, 1>>

Num(r) == r[1]
Den(r) == r[2]

RNeg(a) == B1(LAMBDA x : <<-x[1], x[2]>>, a)
AddV(a, b) == B1(LAMBDA g : R(a[1] * (b[2] \div g) + b[1] * (a[2] \div g), (a[2] \div g) * b[2]), Gcd(a[2], b[2]))
RAdd(a, b) == B2(AddV, a, b)
RSub(a, b) == RAdd(a, RNeg(b))
MulV(a, b) == IF a[1] = 0 \/ b[1] = 0 THEN Zero
              ELSE B2(LAMBDA g1, g2 : <<(a[1] \div g1) * (b[1] \div g2), (a[2] \div g2) * (b[2] \div g1)>>,
                      Gcd(Abs(a[1]), b[2]), Gcd(Abs(b[1]), a[2]))
RMul(a, b) == B2(MulV, a, b)
RInv(a) == B1(LAMBDA x : IF x[1] > 0 THEN <<x[2], x[1]>> ELSE <<-x[2], -x[1]>>, a)      \* a # 0
RDiv(a, b) == RMul(a, RInv(b))                                        \* b # 0
RMulI(a, k) == RMul(a, <<k, 1>>)
RDivI(a, k) == RDiv(a, <<k, 1>>)

\* sign of p/q - r/s for p, r >= 0 and q, s > 0, without any multiplication (Euclid / continued fractions)
RECURSIVE CmpPos(_, _, _, _)
CmpPos(p, q, r, s) ==
  LET q1 == p \div q   q2 == r \div s   r1 == p % q   r2 == r % s IN
  IF q1 # q2 THEN (IF q1 < q2 THEN -1 ELSE 1)
  ELSE IF r1 = 0 /\ r2 = 0 THEN 0
  ELSE IF r1 = 0 THEN -1
  ELSE IF r2 = 0 THEN 1
  ELSE CmpPos(s, r2, q, r1)          \* r1/q ? r2/s  <=>  s/r2 ? q/r1

CmpV(a, b) == IF a[1] < 0 /\ b[1] >= 0 THEN -1
              ELSE IF a[1] >= 0 /\ b[1] < 0 THEN 1
              ELSE IF a[1] >= 0 THEN CmpPos(a[1], a[2], b[1], b[2])
              ELSE CmpPos(-b[1], b[2], -a[1], a[2])
RCmp(a, b) == B2(CmpV, a, b)
RLt(a, b) == RCmp(a, b) < 0
RLe(a, b) == RCmp(a, b) <= 0
REq(a, b) == a = b                   \* normal forms are unique
RMin(a, b) == B2(LAMBDA x, y : IF CmpV(x, y) <= 0 THEN x ELSE y, a, b)
RMax(a, b) == B2(LAMBDA x, y : IF CmpV(x, y) <= 0 THEN y ELSE x, a, b)
RPos(a) == a[1] > 0
RIsZero(a) == a[1] = 0

RECURSIVE RSumSeq(_)
RSumSeq(s) == IF Len(s) = 0 THEN Zero ELSE RAdd(s[1], RSumSeq(Tail(s)))
RECURSIVE RMinSeq(_)
RMinSeq(s) == IF Len(s) = 1 THEN s[1] ELSE RMin(Head(s), RMinSeq(Tail(s)))   \* s # <<>>
RECURSIVE RMaxSeq(_)
RMaxSeq(s) == IF Len(s) = 1 THEN s[1] ELSE RMax(Head(s), RMaxSeq(Tail(s)))

\* smallest element of a non-empty set of rationals (one pass)
RECURSIVE MinFrom(_, _)
MinFrom(S, cur) == IF S = {} THEN cur
                   ELSE B2(LAMBDA x, c : MinFrom(S \ {x}, IF CmpV(x, c) < 0 THEN x ELSE c), CHOOSE y \in S : TRUE, cur)
RSetMin(S) == B1(LAMBDA x : MinFrom(S \ {x}, x), CHOOSE y \in S : TRUE)

\* 2^k for 0 <= k <= 30
RECURSIVE Pow2(_)
Pow2(k) == IF k = 0 THEN 1 ELSE 2 * Pow2(k - 1)
\* m * 2^e as a rational, e any integer in -30..30
Dy(m, e) == IF e >= 0 THEN R(m * Pow2(e), 1) ELSE R(m, Pow2(-e))
\* force a sequence / function over 1..n into an explicit tuple of values
Tup(f) == SubSeq(f, 1, Len(f))

\* self-test, evaluated by every run that loads the module (cheap)
ASSUME /\ RAdd(R(1, 3), R(1, 6)) = <<1, 2>>
       /\ RMul(R(65536, 3), R(9, 65536)) = <<3, 1>>
       /\ RDiv(R(7, 2), R(-7, 4)) = <<-2, 1>>
       /\ RLt(R(470347, 525000), R(2147483646, 2147483647))
       /\ RCmp(R(1000000007, 2147483647), R(1000000007, 2147483647)) = 0
       /\ RLt(R(-1, 2), R(1, 3)) /\ RLt(R(-1, 2), R(-1, 3)) /\ ~RLt(R(1, 2), R(1, 3))
       /\ Dy(3, -2) = <<3, 4>> /\ Dy(3, 2) = <<12, 1>>
=============================================================================
