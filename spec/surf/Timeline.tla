------------------------------- MODULE Timeline -------------------------------
(* Deterministic reference timeline of SimGrid's fluid resource models (properties C19, C21, C22, C23).            *)
(*                                                                                                                  *)
(* A scenario P is data: hosts (speed per pstate, cores, speed/state profiles, power profile), links (bandwidth,     *)
(* bandwidth/state profiles, power range), disks, activities (exec / comm / io with start date, amount, bound,       *)
(* priority, threads) and scripted events (pstate, on/off, suspend/resume, priority and bound changes).              *)
(* The state s holds the date `now`, and for each activity its status, remaining work and received work, plus the    *)
(* energy consumed by each host and link.  One step:                                                                 *)
(*    share   rates of the running activities = weighted max-min sharing of the current capacities (Rates)           *)
(*    next    T = earliest of: a completion, a scripted event, a start, a profile change, a sampling date            *)
(*    advance remaining -= rate * (T - now), received += rate * (T - now), energy += power * (T - now), now = T      *)
(*    settle  at T: completions, failures of what uses a resource that went off, scripted events of date T in order, *)
(*            starts of date T                                                                                       *)
(* Everything is exact rational arithmetic.  Sharing model (as documented for the CPU, network and disk models):     *)
(*    exec on host h, k threads, priority p : share weight p (k threads: k), rate <= k * speed(h) and <= user bound  *)
(*    host capacity = cores * speed(pstate) * availability(now); link capacity = bandwidth(now);                     *)
(*    comm over a route: a latency phase of (sum of the link latencies at its start) during which nothing is         *)
(*    consumed, then weight 1 on every link; io: the disk's read or write channel and its global channel (max).      *)
EXTENDS Profile, Energy, FiniteSets, TLC

None == <<-1, 1>>      \* "no date"

\* ------------------------------------------------------------------ scenario accessors
Hosts(P) == 1..Len(P.hosts)
Links(P) == 1..Len(P.links)
Disks(P) == 1..Len(P.disks)
Acts(P)  == 1..Len(P.acts)

S0(P) == [ now   |-> Zero,
           tk    |-> 0,                              \* floor(now * P.tps): date in whole ticks, for the profiles
           ast   |-> [a \in Acts(P) |-> "wait"],
           rem   |-> [a \in Acts(P) |-> P.acts[a].amount],
           got   |-> [a \in Acts(P) |-> Zero],
           fin   |-> [a \in Acts(P) |-> None],
           ready |-> [a \in Acts(P) |-> None],      \* end of the latency phase of a communication
           tie   |-> [a \in Acts(P) |-> FALSE],     \* completed at the very date one of its resources went off: the
                                                    \* statements leave the outcome of that tie open (done or failed)
           cbound |-> [a \in Acts(P) |-> Zero],     \* smallest bandwidth of the route when the communication started
           prio  |-> [a \in Acts(P) |-> P.acts[a].prio],
           ubound |-> [a \in Acts(P) |-> P.acts[a].bound],
           pst   |-> [h \in Hosts(P) |-> 1],
           hon   |-> [h \in Hosts(P) |-> TRUE],
           lon   |-> [l \in Links(P) |-> TRUE],
           evi   |-> 1,
           he    |-> [h \in Hosts(P) |-> Zero],
           le    |-> [l \in Links(P) |-> Zero],
           rate  |-> [a \in Acts(P) |-> Zero],      \* rates during the interval that just elapsed (observation)
           whole |-> TRUE,                          \* every I/O has progressed by a whole number of bytes at every step so far
           steps |-> 0 ]

SetSum(F(_), S) == LET RECURSIVE Sm(_)
                       Sm(T) == IF T = {} THEN Zero ELSE LET x == CHOOSE y \in T : TRUE IN RAdd(F(x), Sm(T \ {x}))
                   IN Sm(S)
SetMin(S) == RSetMin(S)

\* ------------------------------------------------------------------ current resource values
ProfOn(p, tk) == IF HasProfile(p) THEN RPos(ValueAtTk(p, tk)) ELSE TRUE
HostOn(P, s, h) == IF s.hon[h] THEN ProfOn(P.hosts[h].stprof, s.tk) ELSE FALSE
LinkOn(P, s, l) == IF s.lon[l] THEN ProfOn(P.links[l].stprof, s.tk) ELSE FALSE
Scale(P, s, h) == IF HasProfile(P.hosts[h].sprof) THEN ValueAtTk(P.hosts[h].sprof, s.tk) ELSE One
PeakSpeed(P, s, h) == P.hosts[h].speeds[s.pst[h]]
Speed(P, s, h) == RMul(PeakSpeed(P, s, h), Scale(P, s, h))               \* per core
Bw(P, s, l) == IF HasProfile(P.links[l].bwprof) THEN ValueAtTk(P.links[l].bwprof, s.tk) ELSE P.links[l].bw
Lat(P, s, l) == IF HasProfile(P.links[l].latprof) THEN ValueAtTk(P.links[l].latprof, s.tk) ELSE P.links[l].lat
\* P.zerolate = TRUE selects a *variant* in which the profile points of date 0 are not yet visible to what happens at
\* date 0 itself (values read by the application, latency and bandwidth seen by a communication created at date 0); they
\* act from the first advance of the clock on.  NOT the property; it characterises the known deviation of platforms built
\* through the C++ API, for which nothing applies the points of date 0 before the actors start (KNOWN_FINDINGS C22:date-0:...).
Early(P, s) == IF P.zerolate THEN RIsZero(s.now) ELSE FALSE
ScaleSeen(P, s, h) == IF Early(P, s) THEN One ELSE Scale(P, s, h)
HostOnSeen(P, s, h) == IF Early(P, s) THEN s.hon[h] ELSE HostOn(P, s, h)
LinkOnSeen(P, s, l) == IF Early(P, s) THEN s.lon[l] ELSE LinkOn(P, s, l)
BwSeen(P, s, l) == IF Early(P, s) THEN P.links[l].bw ELSE Bw(P, s, l)
LatSeen(P, s, l) == IF Early(P, s) THEN P.links[l].lat ELSE Lat(P, s, l)
RouteLat(P, s, a) == SetSum(LAMBDA i : LatSeen(P, s, P.acts[a].links[i]), 1..Len(P.acts[a].links))
DiskCap(P, d, ch) == CASE ch = "r" -> P.disks[d].rbw [] ch = "w" -> P.disks[d].wbw
                       [] OTHER -> RMax(P.disks[d].rbw, P.disks[d].wbw)

\* constraints used by an activity: <<"h", i>>, <<"l", i>>, <<"d", i, channel>>
Uses(P, a) == LET x == P.acts[a] IN
              CASE x.kind = "exec" -> {<<"h", x.host>>}
                [] x.kind = "comm" -> {<<"l", x.links[i]>> : i \in 1..Len(x.links)}
                [] x.kind = "io"   -> {<<"d", x.disk, "g">>, <<"d", x.disk, IF x.op = "read" THEN "r" ELSE "w">>}
\* current capacity of a host: cores * peak speed of the current pstate * availability scale of the current date.  It
\* changes at the points of the speed profile and at the scripted pstate events; every such date is a step of the
\* timeline (Candidates), so that the capacity is constant between two steps and the running execs are re-shared there.
HostCap(P, s, h) == RMulI(Speed(P, s, h), P.hosts[h].cores)
Cap(P, s, c) == CASE c[1] = "h" -> HostCap(P, s, c[2])
                  [] c[1] = "l" -> Bw(P, s, c[2])
                  [] c[1] = "d" -> DiskCap(P, c[2], c[3])
ResOn(P, s, c) == CASE c[1] = "h" -> HostOn(P, s, c[2]) [] c[1] = "l" -> LinkOn(P, s, c[2]) [] OTHER -> TRUE

\* share weight (inverse of the LMM penalty) and bound of a running activity
Weight(P, s, a) == LET x == P.acts[a] IN
                   IF x.kind = "exec" /\ x.threads > 1 THEN RI(x.threads) ELSE RI(s.prio[a])
\* P.capcomm = TRUE selects a *variant* of the model in which a communication never goes faster than the smallest
\* bandwidth its route had when it started.  This is NOT the property (C22: progress integrates the current
\* availability); it characterises the known deviation of network_cm02.cpp (KNOWN_FINDINGS C22:bandwidth-increase:...).
CapComm(P, a) == P.capcomm /\ P.acts[a].kind = "comm"
HasBound(P, s, a) == P.acts[a].kind = "exec" \/ RPos(s.ubound[a]) \/ CapComm(P, a)
Bound(P, s, a) == LET x == P.acts[a] IN
                  IF x.kind = "exec"
                  THEN LET nat == RMulI(Speed(P, s, x.host), x.threads) IN
                       IF RPos(s.ubound[a]) THEN RMin(nat, s.ubound[a]) ELSE nat
                  ELSE IF CapComm(P, a) THEN (IF RPos(s.ubound[a]) THEN RMin(s.cbound[a], s.ubound[a]) ELSE s.cbound[a])
                  ELSE s.ubound[a]

Running(P, s) == { a \in Acts(P) : s.ast[a] = "run" }

\* ------------------------------------------------------------------ weighted max-min sharing (progressive filling)
\* act: set of activities still to serve; caps: remaining capacity of each constraint; w, b: weights and bounds
\* (b[a] = None when unbounded); res: rates fixed so far
\* (TLC re-evaluates LET definitions and operator arguments at every use; B1/B2 of module Rat bind values once)
Lam(use, act, caps, w, c) == RDiv(caps[c], SetSum(LAMBDA a : w[a], { a \in act : c \in use[a] }))
Level(use, act, caps, w, b) ==
  SetMin({ Lam(use, act, caps, w, c) : c \in UNION { use[a] : a \in act } }
         \cup { RDiv(b[a], w[a]) : a \in { x \in act : b[x] # None } })
RECURSIVE Fill(_, _, _, _, _, _)
FillAt(use, act, caps, w, b, res, level) ==
  B1(LAMBDA fix :
       Fill(use, act \ fix,
            [c \in DOMAIN caps |-> RSub(caps[c], RMul(level, SetSum(LAMBDA a : w[a], { a \in fix : c \in use[a] })))],
            w, b, [a \in DOMAIN res |-> IF a \in fix THEN RMul(w[a], level) ELSE res[a]]),
     { a \in act : \/ (b[a] # None /\ RDiv(b[a], w[a]) = level)
                   \/ \E c \in use[a] : Lam(use, act, caps, w, c) = level })
Fill(use, act, caps, w, b, res) ==
  IF act = {} THEN res ELSE B1(LAMBDA level : FillAt(use, act, caps, w, b, res, level), Level(use, act, caps, w, b))

\* explicit (fully evaluated) copy of a function with a finite domain given as a set of values
RECURSIVE ExplicitOn(_, _)
ExplicitOn(f, D) == IF D = {} THEN <<>>
                    ELSE LET x == CHOOSE y \in D : TRUE IN (x :> f[x]) @@ ExplicitOn(f, D \ {x})

\* rates of all activities in state s (0 for those not running)
Rates(P, s) ==
  LET run == Running(P, s) IN
  IF run = {} THEN [a \in Acts(P) |-> Zero]
  ELSE CHOOSE r \in { Fill(use, run, caps, w, b, [a \in Acts(P) |-> Zero]) :
                       use  \in { ExplicitOn([a \in run |-> Uses(P, a)], run) },
                       caps \in { ExplicitOn([c \in UNION { Uses(P, a) : a \in run } |-> Cap(P, s, c)],
                                              UNION { Uses(P, a) : a \in run }) },
                       w    \in { ExplicitOn([a \in run |-> Weight(P, s, a)], run) },
                       b    \in { ExplicitOn([a \in run |-> IF HasBound(P, s, a) THEN Bound(P, s, a) ELSE None], run) } } : TRUE

\* ------------------------------------------------------------------ next date
Profiles(P) == { P.hosts[h].sprof : h \in Hosts(P) } \cup { P.hosts[h].stprof : h \in Hosts(P) }
               \cup { P.links[l].bwprof : l \in Links(P) } \cup { P.links[l].stprof : l \in Links(P) }
               \cup { P.links[l].latprof : l \in Links(P) }
Candidates(P, s, r) ==
     { RAdd(s.now, RDiv(s.rem[a], r[a])) : a \in { x \in Running(P, s) : RPos(r[x]) } }
  \cup { P.acts[a].start : a \in { x \in Acts(P) : s.ast[x] = "wait" } }
  \cup { s.ready[a] : a \in { x \in Acts(P) : s.ast[x] = "lat" } }
  \cup (IF s.evi <= Len(P.events) THEN { P.events[s.evi].t } ELSE {})
  \cup { DateOf(NextTick(p, s.tk), P.tps) : p \in { q \in Profiles(P) : NextTick(q, s.tk) >= 0 } }
  \cup { P.samples[i] : i \in { j \in 1..Len(P.samples) : RLt(s.now, P.samples[j]) } }
\* profile changes and samples only matter while something is still to happen
\* (written with sets, not with \E: TLC expands an existential quantifier met in an action into one successor per witness)
Pending(P, s) == { a \in Acts(P) : s.ast[a] \in {"wait", "lat", "run", "susp"} } # {}
Busy(P, s) == Pending(P, s) \/ s.evi <= Len(P.events) \/ { i \in 1..Len(P.samples) : RLt(s.now, P.samples[i]) } # {}
Terminal(P, s) == ~Busy(P, s)

\* ------------------------------------------------------------------ powers
Delivered(P, s, r, h) == SetSum(LAMBDA a : r[a], { a \in Acts(P) : P.acts[a].kind = "exec" /\ P.acts[a].host = h })
Usage(P, s, r, l) == SetSum(LAMBDA a : r[a],
                            { a \in Acts(P) : P.acts[a].kind = "comm" /\ \E i \in 1..Len(P.acts[a].links) : P.acts[a].links[i] = l })
HostWatts(P, s, r, h) ==
  IF Len(P.hosts[h].watts) = 0 THEN Zero
  ELSE HostPower(HostOn(P, s, h), P.hosts[h].watts[s.pst[h]], P.hosts[h].woff,
                 LoadFraction(Delivered(P, s, r, h), P.hosts[h].cores, PeakSpeed(P, s, h)))
LinkWatts(P, s, r, l) == LinkPower(P.links[l].widle, P.links[l].wbusy, Usage(P, s, r, l), Bw(P, s, l))

\* ------------------------------------------------------------------ advance and settle
Advance(P, s, r, T) ==
  LET d == RSub(T, s.now) IN
  [s EXCEPT !.now = T, !.tk = TickOf(T, P.tps),
            !.rem = [a \in Acts(P) |-> IF s.ast[a] = "run" THEN RSub(s.rem[a], RMul(r[a], d)) ELSE s.rem[a]],
            !.got = [a \in Acts(P) |-> IF s.ast[a] = "run" THEN RAdd(s.got[a], RMul(r[a], d)) ELSE s.got[a]],
            !.he  = [h \in Hosts(P) |-> Grow(s.he[h], HostWatts(P, s, r, h), d)],
            !.le  = [l \in Links(P) |-> Grow(s.le[l], LinkWatts(P, s, r, l), d)],
            \* The timeline is a fluid one; the disk model counts whole bytes (the progress of every step is rounded to the
            \* nearest byte).  `whole` tells how long the two coincide: as long as it holds, the fluid values are integral at
            \* every step and the rounding changes nothing; from the first step where it fails on, the disk model may be off
            \* by half a byte per step and I/O (the checks then compare I/Os within a bound derived from that).
            !.whole = IF s.whole THEN { a \in Acts(P) : s.ast[a] = "run" /\ P.acts[a].kind = "io" /\ Den(RMul(r[a], d)) # 1 } = {}
                      ELSE FALSE,
            !.rate = r, !.steps = s.steps + 1]

Complete(P, s) ==
  [s EXCEPT !.ast = [a \in Acts(P) |-> IF s.ast[a] = "run" /\ RIsZero(s.rem[a]) THEN "done" ELSE s.ast[a]],
            !.fin = [a \in Acts(P) |-> IF s.ast[a] = "run" /\ RIsZero(s.rem[a]) THEN s.now ELSE s.fin[a]]]

\* activities in progress that use a resource which is off now fail
FailOff(P, s) ==
  LET dead == { a \in Acts(P) : s.ast[a] \in {"lat", "run", "susp"} /\ \E c \in Uses(P, a) : ~ResOn(P, s, c) }
      tied == { a \in Acts(P) : s.ast[a] = "done" /\ s.fin[a] = s.now /\ \E c \in Uses(P, a) : ~ResOn(P, s, c) } IN
  [s EXCEPT !.tie = [a \in Acts(P) |-> s.tie[a] \/ a \in tied],
            !.ast = [a \in Acts(P) |-> IF a \in dead THEN "failed" ELSE s.ast[a]],
            !.fin = [a \in Acts(P) |-> IF a \in dead THEN s.now ELSE s.fin[a]]]

Apply(P, s, e) ==
  CASE e.op = "pstate"  -> [s EXCEPT !.pst[e.a] = e.v]
    [] e.op = "off"     -> B1(LAMBDA x : FailOff(P, x), [s EXCEPT !.hon[e.a] = FALSE])
    [] e.op = "on"      -> [s EXCEPT !.hon[e.a] = TRUE]
    [] e.op = "loff"    -> B1(LAMBDA x : FailOff(P, x), [s EXCEPT !.lon[e.a] = FALSE])
    [] e.op = "lon"     -> [s EXCEPT !.lon[e.a] = TRUE]
    [] e.op = "suspend" -> IF s.ast[e.a] = "run" THEN [s EXCEPT !.ast[e.a] = "susp"] ELSE s
    [] e.op = "resume"  -> IF s.ast[e.a] = "susp" THEN [s EXCEPT !.ast[e.a] = "run"] ELSE s
    \* changes address an activity in progress; before its start or after its end there is nothing to change
    [] e.op = "setprio" -> IF s.ast[e.a] \in {"run", "susp"} THEN [s EXCEPT !.prio[e.a] = e.v] ELSE s
    [] e.op = "setbound" -> IF s.ast[e.a] \in {"run", "susp"} THEN [s EXCEPT !.ubound[e.a] = e.r] ELSE s
    [] OTHER -> s

RECURSIVE ApplyDue(_, _)
ApplyDue(P, s) == IF s.evi <= Len(P.events) /\ P.events[s.evi].t = s.now
                  THEN B1(LAMBDA x : ApplyDue(P, [x EXCEPT !.evi = s.evi + 1]), Apply(P, s, P.events[s.evi]))
                  ELSE s

Start(P, s) ==
  LET due == { a \in Acts(P) : s.ast[a] = "wait" /\ P.acts[a].start = s.now }
      ok(a) == \A c \in Uses(P, a) : ResOn(P, s, c)
      lt(a) == IF P.acts[a].kind = "comm" THEN RouteLat(P, s, a) ELSE Zero IN
  [s EXCEPT !.ast = [a \in Acts(P) |-> IF a \in due THEN (IF ~ok(a) THEN "failed" ELSE IF RPos(lt(a)) THEN "lat" ELSE "run")
                                       ELSE s.ast[a]],
            !.ready = [a \in Acts(P) |-> IF a \in due /\ ok(a) /\ RPos(lt(a)) THEN RAdd(s.now, lt(a)) ELSE s.ready[a]],
            !.cbound = [a \in Acts(P) |-> IF a \in due /\ P.acts[a].kind = "comm"
                                          THEN SetMin({ BwSeen(P, s, P.acts[a].links[i]) : i \in 1..Len(P.acts[a].links) })
                                          ELSE s.cbound[a]],
            !.fin = [a \in Acts(P) |-> IF a \in due /\ ~ok(a) THEN s.now ELSE s.fin[a]]]

\* end of the latency phase of a communication: it starts consuming bandwidth
\* P.latwake = TRUE selects a *variant* in which any point of a latency profile of a link of the route, falling inside the
\* latency phase, ends that phase at once.  NOT the property; it characterises the known deviation of
\* NetworkCm02Link::set_latency (KNOWN_FINDINGS C22:latency-event:...).
LatEventNow(P, s, l) ==
  LET p == P.links[l].latprof IN
  IF ~HasProfile(p) \/ s.now # DateOf(s.tk, P.tps) THEN FALSE
  ELSE { i \in 1..Len(p.pts) : \/ p.pts[i].k = Local(p, s.tk)
                                \/ (Periodic(p) /\ IterOf(p, s.tk) >= 1 /\ Local(p, s.tk) = 0 /\ p.pts[i].k = p.period) } # {}
EarlyWake(P, s, a) == IF P.latwake THEN { i \in 1..Len(P.acts[a].links) : LatEventNow(P, s, P.acts[a].links[i]) } # {} ELSE FALSE
Wake(P, s) == [s EXCEPT !.ast = [a \in Acts(P) |-> IF s.ast[a] = "lat" /\ (s.ready[a] = s.now \/ EarlyWake(P, s, a))
                                                   THEN "run" ELSE s.ast[a]]]

Settle(P, s) ==
  B1(LAMBDA s1 : B1(LAMBDA s2 : B1(LAMBDA s3 : B1(LAMBDA s4 : Start(P, s4), ApplyDue(P, s3)), FailOff(P, s2)), Wake(P, s1)),
     Complete(P, s))

\* state at date 0 (events, profile points and starts of date 0 applied)
Begin(P) == Settle(P, S0(P))

\* one step; Pre = state right after the clock moved (what on_time_advance observes), Post = settled state
\* (r = Rates(P, s), passed as a value)
PreR(P, s, r) == B1(LAMBDA T : Advance(P, s, r, T), SetMin(Candidates(P, s, r)))
Pre(P, s) == B1(LAMBDA r : PreR(P, s, r), Rates(P, s))
Step(P, s) == B1(LAMBDA x : Settle(P, x), Pre(P, s))
CanStepR(P, s, r) == IF Busy(P, s) THEN Candidates(P, s, r) # {} ELSE FALSE   \* (IF: no action-level disjunction)
CanStep(P, s) == CanStepR(P, s, Rates(P, s))

\* ------------------------------------------------------------------ properties of the timeline (checked by TLC on the spec)
\* C21: capacity respected by the rates of the elapsed interval is a property of Fill: checked on the settled state
FeasibleR(P, s, r) ==
  /\ \A a \in Acts(P) : ~RLt(r[a], Zero) /\ (s.ast[a] # "run" => RIsZero(r[a]))
  /\ \A a \in Running(P, s) : HasBound(P, s, a) => RLe(r[a], Bound(P, s, a))
  /\ \A c \in UNION { Uses(P, a) : a \in Running(P, s) } :
        RLe(SetSum(LAMBDA a : r[a], { a \in Running(P, s) : c \in Uses(P, a) }), Cap(P, s, c))
\* C21: work conservation
Conservation(P, s) ==
  \A a \in Acts(P) : /\ RAdd(s.got[a], s.rem[a]) = P.acts[a].amount
                     /\ ~RLt(s.rem[a], Zero)
                     /\ (s.ast[a] = "done" <=> (RIsZero(s.rem[a]) /\ s.fin[a] # None /\ s.ast[a] # "failed"))
\* C21: k equal single-thread executions alone on an n-core host progress at S * min(1, n/k)
EqualExecsR(P, s, r) ==
  \A h \in Hosts(P) :
    LET on == { a \in Running(P, s) : P.acts[a].kind = "exec" /\ P.acts[a].host = h } IN
    (on # {} /\ \A a \in on : P.acts[a].threads = 1 /\ s.prio[a] = 1 /\ ~RPos(s.ubound[a]))
      => LET k == Cardinality(on)   n == P.hosts[h].cores IN
         \A a \in on : r[a] = (IF k <= n THEN Speed(P, s, h) ELSE RDiv(RMulI(Speed(P, s, h), n), RI(k)))
TimelineInvR(P, s, r) == FeasibleR(P, s, r) /\ Conservation(P, s) /\ EqualExecsR(P, s, r)
TimelineInv(P, s) == B1(LAMBDA r : TimelineInvR(P, s, r), Rates(P, s))

\* C21, as observed when the clock has just moved from the settled state s to pre = PreR(P, s, r): the loads shown by the
\* rates of the elapsed interval stay within the capacities that were in force during that interval, i.e. those of s (at
\* the new date the capacity may already be another one: the profile points of the new date act from that date on)
LoadWithin(P, s, pre) ==
  /\ \A h \in Hosts(P) : RLe(Delivered(P, s, pre.rate, h), HostCap(P, s, h))
  /\ \A l \in Links(P) : RLe(Usage(P, s, pre.rate, l), Bw(P, s, l))
\* action properties between s and its successor t: remaining never increases, energy never decreases, time moves on
Monotone(P, s, t) == /\ RLt(s.now, t.now)
                     /\ \A a \in Acts(P) : RLe(t.rem[a], s.rem[a])
                     /\ \A h \in Hosts(P) : RLe(s.he[h], t.he[h])
                     /\ \A l \in Links(P) : RLe(s.le[l], t.le[l])
=============================================================================
