INIT Init
NEXT Next
INVARIANT Inv
INVARIANT Zeroth
PROPERTY Mono
POSTCONDITION Done
