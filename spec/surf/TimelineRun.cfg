INIT Init
NEXT Next
INVARIANT Inv
INVARIANT Zeroth
INVARIANT Mono
POSTCONDITION Done
