------------------------------ MODULE TimelineRun ------------------------------
(* Runs the reference timeline (module Timeline) over a batch of scenarios (environment variable SCEN: JSON list),  *)
(* one after the other in a single behaviour, checks the timeline properties in every state (TimelineInv, Monotone) *)
(* and prints, for every step, what the implementation is compared with:                                            *)
(*   <<"OBS", sid, json>>  after each step: date, remaining work / rates / loads / energies as observed when the     *)
(*                         clock has just moved ("pre"), and status / sampled resource values once the date is      *)
(*                         settled ("post")                                                                          *)
(*   <<"FIN", sid, json>>  when the scenario is over: final status and finish date of every activity                 *)
(* Run with -workers 1 (the scenarios are kept in a TLC register).                                                   *)
EXTENDS Timeline, Json, IOUtils

ASSUME TLCSet(1, JsonDeserialize(IOEnv.SCEN))
Scens == TLCGet(1)
N == Len(Scens)

VARIABLES sid, st, rt, fresh, mono  \* rt = Rates(P, st), computed once per state; mono = Monotone and LoadWithin held on the last step
vars == <<sid, st, rt, fresh, mono>>
P == Scens[sid]

Sampled(Q, s) ==
  [peak  |-> [h \in Hosts(Q) |-> PeakSpeed(Q, s, h)],
   scale |-> [h \in Hosts(Q) |-> ScaleSeen(Q, s, h)],
   hon   |-> [h \in Hosts(Q) |-> HostOnSeen(Q, s, h)],
   pst   |-> [h \in Hosts(Q) |-> s.pst[h]],
   bw    |-> [l \in Links(Q) |-> BwSeen(Q, s, l)],
   lat   |-> [l \in Links(Q) |-> LatSeen(Q, s, l)],
   lon   |-> [l \in Links(Q) |-> LinkOnSeen(Q, s, l)]]

\* pre: state right after the clock moved; post: settled state at the same date; old: settled state before the step
ObsOf(Q, old, pre, post) ==
  [t |-> pre.now, k |-> pre.steps,
   rem   |-> pre.rem, rate |-> pre.rate, was |-> old.ast, whole |-> pre.whole,
   hload |-> [h \in Hosts(Q) |-> Delivered(Q, old, pre.rate, h)],
   lload |-> [l \in Links(Q) |-> Usage(Q, old, pre.rate, l)],
   hcap  |-> [h \in Hosts(Q) |-> HostCap(Q, old, h)],      \* capacity during the elapsed interval
   \* what Host::get_speed / get_available_speed give when the clock has just moved: the profile points of the new date
   \* are in effect, the scripted events of that date (pstate) are not yet
   hcapnow |-> [h \in Hosts(Q) |-> HostCap(Q, pre, h)],
   hscale  |-> [h \in Hosts(Q) |-> Scale(Q, pre, h)],
   lcap  |-> [l \in Links(Q) |-> Bw(Q, old, l)],
   he |-> pre.he, le |-> pre.le,
   ast |-> post.ast, fin |-> post.fin, val |-> Sampled(Q, post)]

Init == sid = 1 /\ st = Begin(Scens[1]) /\ rt = Rates(Scens[1], st) /\ fresh = TRUE /\ mono = TRUE

StepOn == /\ CanStepR(P, st, rt)
          /\ \E pre \in { PreR(P, st, rt) } : \E post \in { Settle(P, pre) } :
                /\ st' = post
                /\ rt' = Rates(P, post)
                /\ mono' = (Monotone(P, st, post) /\ LoadWithin(P, st, pre))
                /\ PrintT(<<"OBS", sid, ToJson(ObsOf(P, st, pre, post))>>)
          /\ sid' = sid /\ fresh' = FALSE
Finish == /\ ~CanStepR(P, st, rt)
          /\ PrintT(<<"FIN", sid, ToJson([ast |-> st.ast, fin |-> st.fin, tie |-> st.tie, t |-> st.now, val |-> Sampled(P, st)])>>)
          /\ sid < N
          /\ sid' = sid + 1 /\ fresh' = TRUE /\ mono' = TRUE
          /\ \E nxt \in { Begin(Scens[sid + 1]) } : st' = nxt /\ rt' = Rates(Scens[sid + 1], nxt)
Next == StepOn \/ Finish

Inv == TimelineInvR(P, st, rt)
\* Monotone (remaining never increases, energy never decreases, time moves on) and LoadWithin (the loads of the elapsed
\* interval within the capacities of that interval) are action properties; they are recorded
\* in the state by the step itself and checked as an invariant (a PROPERTY would make TLC run its liveness machinery,
\* which regenerates every successor many times)
Mono == mono
\* the initial state of every scenario is printed too (sampled values at date 0)
Zeroth == fresh => PrintT(<<"OBS0", sid, ToJson([t |-> st.now, ast |-> st.ast, val |-> Sampled(P, st)])>>)
Done == PrintT(<<"DONE", N>>)
=============================================================================
