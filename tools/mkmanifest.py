#!/usr/bin/env python3
"""Assemble /verif/MANIFEST.json from the META dictionaries of checks/C*.py (one source of truth per check)."""
import glob, importlib, json, os, subprocess, sys
V = os.path.dirname(os.path.dirname(os.path.abspath(__file__)))
sys.path[:0] = [os.path.join(V, "tools"), os.path.join(V, "checks")]
props = [json.loads(l) for l in open(os.path.join(V, "properties.jsonl"))]
checks, na, engines = [], [], {}
NA = json.load(open(os.path.join(V, "checks", "not_applicable.json"))) if os.path.exists(os.path.join(V, "checks", "not_applicable.json")) else {}
for p in props:
    pid = p["id"]
    f = os.path.join(V, "checks", pid + ".py")
    meta = None
    if os.path.exists(f):
        m = importlib.import_module(pid)
        meta = getattr(m, "META", None)
        if meta is not None:
            meta = dict(meta)
            meta.setdefault("level", m.LEVEL)
    if meta is None or meta.get("claimed") is False:
        na.append({"property_id": pid, "reason": NA.get(pid, (meta or {}).get("reason", "check not built yet (work in progress; the TLA+ family is expected to apply, see DESIGN.md section 4)"))})
        continue
    c = {"property_id": pid, "quick_cmd": "tools/vcheck %s --tier quick" % pid,
         "thorough_cmd": "tools/vcheck %s --tier thorough" % pid, "evidence_file": "/verif/evidence/%s.json" % pid,
         "replay_cmd_template": "tools/vcheck %s --replay {path}" % pid, "engine": meta.get("engine", "tlc"),
         "level_claimed": {"category": meta["level"], "text": meta["text"], "design_ref": meta.get("design_ref", "DESIGN.md section 4, block " + pid)},
         "level_note": meta["note"], "technique": meta["technique"]}
    checks.append(c)
    engines.setdefault(c["engine"], []).append(pid)
hooks = subprocess.run(["git", "-C", "/repo", "log", "--format=%H %s"], capture_output=True, text=True).stdout.splitlines()
hook_commits = [l.split()[0] for l in hooks if "verif hook" in l]
ENG = {"tlc": ("TLC 1.8.0 on spec/*/*.tla (model checking, trace validation, behaviour generation) driven by tools/vlib.py", "/verif/tools/vlib.py"),
       "tlc+apalache": ("TLC plus Apalache 0.58 (symbolic check of the integer lemmas)", "/verif/tools/vlib.py")}
man = {"version": 1, "setup_cmd": "tools/vcheck setup",
       "hooks": {"guard": "SIMGRID_VERIF",
                 "enable": "tools/vcheck build: cmake -S /repo -B /verif/.build/sg -DCMAKE_CXX_FLAGS=-DSIMGRID_VERIF -DCMAKE_C_FLAGS=-DSIMGRID_VERIF ... && ninja (out of tree; hooks are inert unless VERIF_* environment variables are set)",
                 "baseline_off_cmd": "cmake --build /repo/_build && ctest --test-dir /repo/_build -j8 --timeout 900",
                 "source_commits": hook_commits, "add_only": True},
       "engines": [{"name": k, "path": ENG.get(k, ENG["tlc"])[1], "serves_properties": v, "kind_free_text": ENG.get(k, ENG["tlc"])[0]} for k, v in engines.items()],
       "checks": checks,
       "notes": "All checks: tools/vcheck Cxx --tier quick|thorough (VERIF_SEED / VERIF_TIER honoured). Exit 0 ok, 1 VIOLATION, 3 infrastructure error (ERROR: line, never a VIOLATION). Known findings: KNOWN_FINDINGS.jsonl.",
       "not_applicable": na}
json.dump(man, open(os.path.join(V, "MANIFEST.json"), "w"), indent=1)
print("MANIFEST: %d checks, %d not claimed" % (len(checks), len(na)))
