#!/bin/sh
# Scratch copy of /repo for mutation experiments:  tools/mutbuild.sh <name>   (then edit /tmp/vmut/<name>/repo)
# Run a check against it with:  VERIF_REPO=/tmp/vmut/<name>/repo VERIF_BUILD=/tmp/vmut/<name>/build tools/vcheck Cxx
# Remove with:  tools/mutbuild.sh <name> --remove
set -e
N=$1
D=/tmp/vmut/$N
if [ "$2" = "--remove" ]; then
  git -C /repo worktree remove --force $D/repo 2>/dev/null || true
  rm -rf $D
  git -C /repo worktree prune
  exit 0
fi
mkdir -p $D
[ -d $D/repo ] || git -C /repo worktree add --detach $D/repo HEAD >/dev/null
echo "VERIF_REPO=$D/repo VERIF_BUILD=$D/build"
