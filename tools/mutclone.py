#!/usr/bin/env python3
"""Fast scratch build for mutation / seeded-change experiments (never touches /repo nor /verif/.build):

    tools/mutclone.py NAME PATCH.diff      -> prints  VERIF_REPO=/tmp/vmut/NAME/repo VERIF_BUILD=/tmp/vmut/NAME/build
    tools/mutclone.py NAME --remove

It creates a git worktree of /repo at /tmp/vmut/NAME/repo, applies the patch there, clones the up-to-date instrumented build
/verif/.build/sg to /tmp/vmut/NAME/build/sg, recompiles only the objects affected by the patch (the changed .cpp/.c files, and
every object that depends on a changed header according to ninja's dependency log) with the original compile commands re-pointed
to the worktree, and relinks with ninja's own link commands. A check run with the two environment variables then sees the
modified SimGrid; vlib.build_sg does NOT run ninja in such a clone (marker file .verif_mutclone): ninja would consider the
hand-rebuilt objects stale (deps log) and rebuild them from /repo, silently undoing the experiment.
"""
import os, re, shutil, subprocess, sys

BASE = "/verif/.build/sg"
TARGETS = ["simgrid", "simgrid-mc", "sthread", "smpimain", "smpireplaymain"]


def sh(cmd, cwd=None, check=True):
    p = subprocess.run(cmd, shell=True, cwd=cwd, stdout=subprocess.PIPE, stderr=subprocess.STDOUT, text=True)
    if check and p.returncode != 0:
        sys.stderr.write(p.stdout[-4000:])
        raise SystemExit("FAILED: " + cmd[:300])
    return p.stdout


def retarget(cmd, wt):
    """Point every /repo path of a command (sources, -I/repo, -I/repo/include ...) at the worktree."""
    return re.sub(r'(^|[\s"]|-I|-isystem\s*)/repo(?=/|\s|"|$)', lambda m: m.group(1) + wt, cmd)


def main():
    name = sys.argv[1]
    root = "/tmp/vmut/" + name
    wt, bd = root + "/repo", root + "/build"
    if sys.argv[2] == "--remove":
        subprocess.run("git -C /repo worktree remove --force %s; rm -rf %s; git -C /repo worktree prune" % (wt, root), shell=True)
        return
    patch = os.path.abspath(sys.argv[2])
    subprocess.run("git -C /repo worktree remove --force %s 2>/dev/null; rm -rf %s" % (wt, root), shell=True)
    os.makedirs(root)
    sh("git -C /repo worktree add --detach %s HEAD" % wt)
    sh("git apply %s" % patch, cwd=wt)
    changed = [f for f in sh("git diff --name-only", cwd=wt).split() if f]
    os.makedirs(bd)
    sh("cp -a %s %s/sg" % (BASE, bd))
    cl = bd + "/sg"
    cmds = sh("ninja -C %s -t commands %s" % (BASE, " ".join(TARGETS))).splitlines()
    # objects to rebuild
    objs = set()
    srcs = [f for f in changed if f.endswith((".cpp", ".c", ".cc"))]
    hdrs = [f for f in changed if f.endswith((".hpp", ".h", ".hh"))]
    if hdrs:
        deps = sh("ninja -C %s -t deps" % BASE)
        cur = None
        for line in deps.splitlines():
            if line and not line.startswith(" "):
                cur = line.split(":")[0]
            elif cur and any(line.strip().endswith("/" + h) or line.strip().endswith("repo/" + h) for h in hdrs):
                objs.add(cur)
    compile_cmds = []
    for c in cmds:
        m = re.search(r" -o (\S+\.o) -c (\S+)$", c)
        if not m:
            continue
        obj, src = m.group(1), m.group(2)
        rel = os.path.relpath(src, "/repo") if src.startswith("/repo/") else None
        if (rel and rel in srcs) or obj in objs:
            compile_cmds.append(retarget(c, wt))
    for c in compile_cmds:
        sh(c, cwd=cl)
    for c in cmds:
        if re.search(r" -o (lib/\S+\.so\S*|bin/\S+|lib/simgrid/\S+) ", c) and " -c " not in c:
            sh(retarget(c, wt), cwd=cl)
    # the SMPI wrapper scripts hard-code the build and source directories
    for f in os.listdir(cl + "/smpi_script/bin"):
        fp = os.path.join(cl, "smpi_script/bin", f)
        try:
            t = open(fp).read()
        except (UnicodeDecodeError, IsADirectoryError):
            continue
        t2 = t.replace(BASE, cl).replace("/repo/include", wt + "/include")
        if t2 != t:
            open(fp, "w").write(t2)
    open(cl + "/.verif_mutclone", "w").write(patch + "\n")
    print("rebuilt %d objects (%d sources, %d headers changed)" % (len(compile_cmds), len(srcs), len(hdrs)), file=sys.stderr)
    print("VERIF_REPO=%s VERIF_BUILD=%s" % (wt, bd))


main()
