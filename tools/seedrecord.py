#!/usr/bin/env python3
"""Record a verified seeded change under /verif/seeded/<id>/ : seedrecord.py <seed-dir> "<summary line of tools/seedverify.sh>" [note]"""
import json, os, shutil, sys
d, line = sys.argv[1], sys.argv[2]
note = sys.argv[3] if len(sys.argv) > 3 else ""
sid = os.path.basename(d.rstrip("/"))
out = "/verif/seeded/" + sid
os.makedirs(out, exist_ok=True)
for f in ("patch.diff", "demo.cpp", "demo.c", "run.sh"):
    if os.path.exists(os.path.join(d, f)):
        shutil.copy(os.path.join(d, f), out)
meta = json.load(open(os.path.join(d, "meta.json")))
kv = dict(x.split("=") for x in line.split()[2:])
checks = {k: int(v) for k, v in kv.items() if k.startswith("C")}
meta.update({"breaks_property": meta.get("property", sid),
             "seeded_by": "independent sub-agent given only the property text and a scratch worktree",
             "verified_by_main": {"how": "tools/seedverify.sh: patch applied in a scratch worktree (tools/mutclone.py), demo compiled and run with and "
                                         "without the patch, then the listed /verif checks (quick tier) run against the patched build",
                                  "demo_exit_with_patch": int(kv.get("demo_with_patch", -1)), "demo_exit_without_patch": int(kv.get("demo_without", -1)),
                                  "checks_exit_codes": checks,
                                  "caught_by": [c for c, rc in checks.items() if rc == 1], "missed_by": [c for c, rc in checks.items() if rc == 0],
                                  "pinned_tests": "run by the seeding agent in its own build (see 'ran'); not re-run by the main agent"},
             "note": note})
json.dump(meta, open(os.path.join(out, "meta.json"), "w"), indent=1)
print(out, checks)
