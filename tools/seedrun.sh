#!/bin/sh
# tools/seedrun.sh <seed-id> <patch.diff> <check> [<check>...] : run checks against a scratch build with the patch applied.
# Output: /tmp/seedrun/<seed-id>.<check>.log ; last line "RESULT <seed> <check> exit=<rc>"
S=$1; P=$2; shift 2
mkdir -p /tmp/seedrun
cd /verif
ENVV=$(tools/mutclone.py seed_$S $P 2>/tmp/seedrun/$S.build.log | tail -1)
case "$ENVV" in VERIF_REPO=*) ;; *) echo "RESULT $S build failed"; exit 1;; esac
for C in "$@"; do
  env $ENVV timeout 5400 tools/vcheck $C --tier quick > /tmp/seedrun/$S.$C.log 2>&1
  echo "RESULT $S $C exit=$?" | tee -a /tmp/seedrun/results.txt
done
tools/mutclone.py seed_$S --remove
