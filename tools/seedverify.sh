#!/bin/sh
# tools/seedverify.sh <seed-dir> <check> [<check>...]: demo with/without the patch + checks against a patched scratch build
D=$1; S=$(basename $D); shift
mkdir -p /tmp/seedrun; L=/tmp/seedrun/$S.verify.log; : > $L
cd /verif
ENVV=$(tools/mutclone.py seed_$S $D/patch.diff 2>>$L | tail -1)
case "$ENVV" in VERIF_REPO=*) ;; *) echo "SEED $S build=FAILED" | tee -a /tmp/seedrun/summary.txt; exit 1;; esac
B=/tmp/vmut/seed_$S/build/sg
demo() { # demo <build> <src>: the seed's own run.sh, or a plain compile-and-run when run.sh cannot find the headers
  ( cd $D && SRC=$2 timeout 600 sh run.sh $1 $2 ) >> $L 2>&1; r=$?
  if [ $r -eq 3 ] || [ $r -eq 99 ]; then
    g++ -std=c++17 -O1 -I$2/include -I$1/include $D/demo.cpp -o /tmp/seedrun/$S.demo -L$1/lib -lsimgrid -Wl,-rpath,$1/lib >> $L 2>&1 || return 98
    LD_LIBRARY_PATH=$1/lib timeout 600 /tmp/seedrun/$S.demo --log=root.thres:critical --cfg=debug/stacktrace:none >> $L 2>&1; r=$?
  fi
  return $r
}
demo $B /tmp/vmut/seed_$S/repo; RW=$?
demo /verif/.build/sg /repo; RO=$?
R="SEED $S demo_with_patch=$RW demo_without=$RO"
for C in "$@"; do
  env $ENVV timeout 5400 tools/vcheck $C --tier quick > /tmp/seedrun/$S.$C.log 2>&1
  R="$R $C=$?"
done
echo "$R" | tee -a /tmp/seedrun/summary.txt
tools/mutclone.py seed_$S --remove
