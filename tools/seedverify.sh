#!/bin/sh
# tools/seedverify.sh <seed-dir> <check> [<check>...]: demo with/without the patch + checks against a patched scratch build
D=$1; S=$(basename $D); shift
mkdir -p /tmp/seedrun; L=/tmp/seedrun/$S.verify.log; : > $L
cd /verif
ENVV=$(tools/mutclone.py seed_$S $D/patch.diff 2>>$L | tail -1)
case "$ENVV" in VERIF_REPO=*) ;; *) echo "SEED $S build=FAILED" | tee -a /tmp/seedrun/summary.txt; exit 1;; esac
B=/tmp/vmut/seed_$S/build/sg
( cd $D && timeout 600 sh run.sh $B /tmp/vmut/seed_$S/repo ) >> $L 2>&1; RW=$?
( cd $D && timeout 600 sh run.sh /verif/.build/sg /repo ) >> $L 2>&1; RO=$?
R="SEED $S demo_with_patch=$RW demo_without=$RO"
for C in "$@"; do
  env $ENVV timeout 5400 tools/vcheck $C --tier quick > /tmp/seedrun/$S.$C.log 2>&1
  R="$R $C=$?"
done
echo "$R" | tee -a /tmp/seedrun/summary.txt
tools/mutclone.py seed_$S --remove
