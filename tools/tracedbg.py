#!/usr/bin/env python3
"""Debug helper: tracedbg.py program.json trace.ndjson [N] -- validates one trace with SgKernelTrace.tla and, on rejection,
re-runs TLC on the accepted prefix with a forced invariant violation to print the last spec state reached."""
import json, os, sys, re
sys.path[:0] = [os.path.join(os.path.dirname(os.path.abspath(__file__)), "../checks"), os.path.dirname(os.path.abspath(__file__))]
import vlib, kernel_common as K
prog = json.load(open(sys.argv[1]))
recs = [json.loads(l) for l in open(sys.argv[2]) if l.strip()]
ctx = vlib.Ctx("DBG", "quick", "other")
rej = K.validate_traces(ctx, [prog], [(0, recs)])
if not rej:
    print("accepted")
    sys.exit(0)
x = rej[0]
print("rejected at record #%d: %s" % (x["line"], x["record"]))
pre = recs[:x["line"] - 1]
pf = os.path.join(ctx.scratch, "p.json"); json.dump([prog], open(pf, "w"))
tf = os.path.join(ctx.scratch, "t.ndjson"); K._batch_file(tf, [(1, pre)])
cfg = os.path.join(ctx.scratch, "dbg.cfg")
open(cfg, "w").write("SPECIFICATION Spec\nINVARIANT DbgNotAtEnd\n")
spec = open(os.path.join(K.KSPEC, "SgKernelTrace.tla")).read().replace("=====", "DbgNotAtEnd == l <= Len(Tr)\n=====", 1)
# write a debug copy of the module next to the originals (same directory for EXTENDS)
dbg = os.path.join(K.KSPEC, "SgKernelTraceDbg.tla")
open(dbg, "w").write(spec.replace("MODULE SgKernelTrace ", "MODULE SgKernelTraceDbg "))
r = vlib.tlc(dbg, cfg=cfg, env={"PROGS": pf, "TRACE": tf}, workers=1)
os.unlink(dbg)
states = r.out.split("State ")
print("State " + states[-1][:6000] if len(states) > 1 else r.out[-3000:])
