"""Shared machinery of the /verif checks: build of /repo's working tree with the SIMGRID_VERIF hooks,
driver builds, TLC runner, evidence writer, violation / known-finding reporting.

Every check is `tools/vcheck Cxx --tier quick|thorough`, implemented by `checks/Cxx.py: run(ctx)`.
Exit codes: 0 = property held on everything explored; 1 = VIOLATION (line printed); 3 = infrastructure error.
"""
import fcntl, hashlib, json, os, random, re, shutil, subprocess, sys, time

VERIF = os.path.dirname(os.path.dirname(os.path.abspath(__file__)))
REPO = os.environ.get("VERIF_REPO", "/repo")
BUILD = os.environ.get("VERIF_BUILD") or os.path.join(VERIF, ".build")  # VERIF_REPO/VERIF_BUILD: mutation experiments
SG = os.path.join(BUILD, "sg")
HB = os.path.join(BUILD, "harness")
SPEC = os.path.join(VERIF, "spec")
# mutation / seeded-change experiments (VERIF_BUILD set) must not overwrite the evidence and replays of the real tree
OUTDIR = os.environ.get("VERIF_OUTDIR") or (BUILD if os.environ.get("VERIF_BUILD") else VERIF)
NCPU = os.cpu_count() or 4
TLA_CP = "/opt/veriftools/tla/tla2tools.jar:/opt/veriftools/tla/CommunityModules-deps.jar"
DEFAULT_TLC_WORKERS = int(os.environ.get("VERIF_TLC_WORKERS", "6"))   # several checks may run at once: do not take all cores
SG_TARGETS = ["simgrid", "simgrid-mc", "sthread", "smpimain", "smpireplaymain"]


class InfraError(Exception):
    pass


def log(*a):
    print(*a, file=sys.stderr, flush=True)


def sh(cmd, timeout=None, env=None, cwd=None, check=False, stdin=None):
    """Run a command (list or string); returns (rc, stdout, stderr); rc=124 on timeout."""
    e = dict(os.environ)
    if env:
        e.update({k: str(v) for k, v in env.items()})
    try:
        p = subprocess.run(cmd, shell=isinstance(cmd, str), cwd=cwd, env=e, timeout=timeout, input=stdin,
                           stdout=subprocess.PIPE, stderr=subprocess.PIPE, text=True, errors="replace")
        rc, out, err = p.returncode, p.stdout, p.stderr
    except subprocess.TimeoutExpired as t:
        rc = 124
        out = t.stdout.decode(errors="replace") if isinstance(t.stdout, bytes) else (t.stdout or "")
        err = t.stderr.decode(errors="replace") if isinstance(t.stderr, bytes) else (t.stderr or "")
    if check and rc != 0:
        raise InfraError("command failed (rc=%s): %s\n%s\n%s" % (rc, cmd, out[-2000:], err[-4000:]))
    return rc, out, err


# ------------------------------------------------------------------------------------------------ build

CMAKE_ARGS = [
    "-G", "Ninja", "-DCMAKE_BUILD_TYPE=Release", "-DCMAKE_C_FLAGS=-DSIMGRID_VERIF", "-DCMAKE_CXX_FLAGS=-DSIMGRID_VERIF",
    "-DCMAKE_C_FLAGS_RELEASE=-O1 -g0", "-DCMAKE_CXX_FLAGS_RELEASE=-O1 -g0", "-Denable_lto=OFF", "-Denable_java=OFF",
    "-Denable_python=OFF", "-Denable_fortran=OFF", "-Denable_documentation=OFF", "-Denable_model-checking=ON",
    "-Denable_smpi=ON", "-Denable_sthread=ON", "-Denable_debug=ON"]


class _Lock:
    def __init__(self, name):
        os.makedirs(BUILD, exist_ok=True)
        self.path = os.path.join(BUILD, name + ".lock")

    def __enter__(self):
        self.f = open(self.path, "w")
        fcntl.flock(self.f, fcntl.LOCK_EX)
        return self

    def __exit__(self, *a):
        fcntl.flock(self.f, fcntl.LOCK_UN)
        self.f.close()


def build_sg(targets=None):
    """(Re)build /repo's current working tree, out of tree, with -DSIMGRID_VERIF. Serialised by a file lock."""
    t0 = time.time()
    if os.path.exists(os.path.join(SG, ".verif_mutclone")):
        # scratch clone made by tools/mutclone.py: objects were rebuilt by hand from the patched worktree; running ninja
        # here would rebuild them from /repo (ninja's deps log sees outputs newer than recorded) and undo the experiment
        return 0.0
    with _Lock("sg"):
        if not os.path.exists(os.path.join(SG, "build.ninja")):
            os.makedirs(SG, exist_ok=True)
            sh(["cmake", "-S", REPO, "-B", SG] + CMAKE_ARGS, check=True, timeout=600)
        rc, out, err = sh(["ninja", "-C", SG] + (targets or SG_TARGETS), timeout=3000)
        if rc != 0:
            raise InfraError("build of %s failed:\n%s\n%s" % (REPO, out[-6000:], err[-3000:]))
    return time.time() - t0


def sg_env(extra=None):
    e = {"LD_LIBRARY_PATH": os.path.join(SG, "lib") + ":" + os.environ.get("LD_LIBRARY_PATH", "")}
    if extra:
        e.update(extra)
    return e


SMPICXX = os.path.join(SG, "smpi_script/bin/smpicxx")
SMPICC = os.path.join(SG, "smpi_script/bin/smpicc")
SMPIRUN = os.path.join(SG, "smpi_script/bin/smpirun")
SIMGRID_MC = os.path.join(SG, "bin/simgrid-mc")
INCLUDES = ["-I" + REPO, "-I" + REPO + "/include", "-I" + SG + "/include", "-I" + SG]


def _deps_stale(target, depfile):
    if not os.path.exists(target) or not os.path.exists(depfile):
        return True
    tm = os.path.getmtime(target)
    txt = open(depfile).read().replace("\\\n", " ")
    deps = txt.split(":", 1)[1].split() if ":" in txt else []
    for d in deps:
        try:
            if os.path.getmtime(d) > tm:
                return True
        except OSError:
            return True
    return False


def build_driver(name, sources, kind="s4u", extra=None):
    """Compile a C++ driver of /verif/harness against the instrumented build. kind: s4u | smpi | c-smpi | plain.
    Header dependencies (including /repo/src and /repo/include headers) are tracked with -MMD."""
    os.makedirs(HB, exist_ok=True)
    out = os.path.join(HB, name)
    dep = out + ".d"
    srcs = [s if os.path.isabs(s) else os.path.join(VERIF, "harness", s) for s in sources]
    lib = os.path.join(SG, "lib/libsimgrid.so")
    with _Lock("drv-" + name):
        stale = _deps_stale(out, dep) or (os.path.exists(lib) and os.path.getmtime(lib) > os.path.getmtime(out)
                                          and kind in ("smpi", "c-smpi")) \
            or os.path.getmtime(os.path.abspath(__file__)) > os.path.getmtime(out)
        if not stale:
            return out
        extra = extra or []
        final, out = out, out + ".tmp%d" % os.getpid()     # build aside, then rename: running copies are never overwritten
        if kind == "s4u":
            cmd = ["g++", "-std=c++17", "-O1", "-g0", "-DSIMGRID_VERIF", "-MMD", "-MF", dep, "-MT", out] + INCLUDES + \
                ["-o", out] + srcs + ["-L" + SG + "/lib", "-lsimgrid", "-Wl,-rpath," + SG + "/lib", "-lpthread"] + extra
        elif kind == "plain":
            cmd = ["g++", "-std=c++17", "-O1", "-g0", "-MMD", "-MF", dep, "-MT", out, "-o", out] + srcs + extra
        elif kind == "smpi":
            cmd = [SMPICXX, "-std=c++17", "-O1", "-g0", "-DSIMGRID_VERIF", "-MMD", "-MF", dep, "-MT", out] + INCLUDES + \
                ["-o", out] + srcs + extra
        elif kind == "c-smpi":
            cmd = [SMPICC, "-O1", "-g0", "-DSIMGRID_VERIF", "-MMD", "-MF", dep, "-MT", out, "-o", out] + srcs + extra
        else:
            raise InfraError("unknown driver kind " + kind)
        rc, o, e = sh(cmd, timeout=900)
        if rc != 0:
            raise InfraError("driver build failed: %s\n%s\n%s" % (" ".join(cmd), o[-3000:], e[-6000:]))
        os.replace(out, final)
        out = final
    return out


# ------------------------------------------------------------------------------------------------ TLC

class TlcResult:
    def __init__(self):
        self.rc = None
        self.out = ""
        self.status = "error"  # ok | invariant | deadlock | property | postcondition | assumption | eval | parse | timeout | error
        self.what = ""          # name of the violated invariant/property, or error text
        self.generated = 0
        self.distinct = 0
        self.diameter = 0
        self.prints = []        # lines printed by PrintT / Print (raw text)
        self.coverage = {}      # action -> (taken/distinct, generated) when -coverage was on
        self.wall = 0.0

    @property
    def ok(self):
        return self.status == "ok"

    def __repr__(self):
        return "TLC(%s %s gen=%d distinct=%d diam=%d %.1fs)" % (self.status, self.what, self.generated, self.distinct,
                                                                self.diameter, self.wall)


def tlc(module, cfg=None, env=None, workers=None, timeout=600, simulate=None, depth=None, coverage=False,
        deadlock=False, dfs=False, seed=None, xmx="8g", metadir=None, cwd=None, extra=None):
    """Run TLC on spec file `module` (path to X.tla) with config `cfg` (defaults to X.cfg).
    env: dict of environment variables read by the spec through IOEnv. deadlock=False adds -deadlock (no deadlock
    check). simulate: 'num=N' string enables -simulate. Returns a TlcResult."""
    module = os.path.abspath(module)
    d = cwd or os.path.dirname(module)
    cfg = cfg or module[:-4] + ".cfg"
    own_meta = metadir is None
    if own_meta:
        metadir = os.path.join(BUILD, "tlc", "m%d_%d" % (os.getpid(), random.randrange(1 << 30)))
    os.makedirs(metadir, exist_ok=True)
    jopts = ["-XX:+UseParallelGC", "-XX:ParallelGCThreads=2", "-XX:CICompilerCount=2", "-Xmx" + xmx]
    if dfs:
        jopts.append("-Dtlc2.tool.queue.IStateQueue=StateDeque")
    cmd = ["java"] + jopts + ["-cp", TLA_CP, "tlc2.TLC", "-metadir", metadir, "-noGenerateSpecTE",
                              "-workers", str(workers or DEFAULT_TLC_WORKERS), "-config", cfg]
    if not deadlock:
        cmd.append("-deadlock")
    if simulate:
        cmd += ["-simulate", simulate]
    if depth:
        cmd += ["-depth", str(depth)]
    if coverage:
        cmd += ["-coverage", "1"]
    if seed is not None:
        cmd += ["-seed", str(seed)]
    if extra:
        cmd += extra
    cmd.append(module)
    t0 = time.time()
    rc, out, err = sh(cmd, timeout=timeout, env=env, cwd=d)
    r = TlcResult()
    r.rc, r.out, r.wall = rc, out + ("\n" + err if err.strip() else ""), time.time() - t0
    if own_meta:
        shutil.rmtree(metadir, ignore_errors=True)
    m = None
    for m in re.finditer(r"(\d+) states generated, (\d+) distinct states found", out):
        pass
    if m:
        r.generated, r.distinct = int(m.group(1)), int(m.group(2))
    m = re.search(r"The depth of the complete state graph search is (\d+)", out)
    if m:
        r.diameter = int(m.group(1))
    for line in out.splitlines():
        if line.startswith("<<") or line.startswith('"') or line.startswith("[") or line.startswith("{"):
            r.prints.append(line)
    if coverage:
        for m in re.finditer(r"^<(\w+) line (\d+), col \d+ to line \d+, col \d+ of module (\w+)>: (\d+):(\d+)", out, re.M):
            r.coverage[m.group(1)] = (int(m.group(4)), int(m.group(5)))
    if rc == 124:
        r.status, r.what = "timeout", "TLC timed out after %ss" % timeout
    elif "Model checking completed. No error has been found" in out or (simulate and rc == 0):
        r.status = "ok"
    elif re.search(r"Invariant (\S+) is violated", out):
        r.status, r.what = "invariant", re.search(r"Invariant (\S+) is violated", out).group(1)
    elif "Deadlock reached" in out:
        r.status, r.what = "deadlock", "deadlock"
    elif re.search(r"Action property (\S+) is violated|Temporal properties were violated", out):
        m = re.search(r"Action property (\S+) is violated", out)
        r.status, r.what = "property", m.group(1) if m else "temporal"
    elif "The postcondition" in out or "POSTCONDITION" in out and "violated" in out.lower():
        r.status, r.what = "postcondition", "postcondition"
    elif re.search(r"Assumption .* is false", out):
        r.status, r.what = "assumption", "assumption"
    elif "Parsing or semantic analysis failed" in out or "Semantic errors" in out or "Parse Error" in out:
        r.status, r.what = "parse", out[-3000:]
    else:
        r.status, r.what = "eval", out[-3000:]
    return r


def sany(module):
    rc, out, err = sh(["java", "-cp", TLA_CP, "tla2sany.SANY", os.path.basename(module)],
                      cwd=os.path.dirname(os.path.abspath(module)), timeout=120)
    ok = rc == 0 and "Semantic errors" not in out and "Parse Error" not in out and "Fatal errors" not in out
    return ok, out + err


def parse_tla_value(text):
    """Parse a TLC-printed value (subset: tuples <<>>, sets {}, records [a |-> v], functions (k :> v @@ ...),
    strings, ints, booleans) into Python (tuple->list, set->list, record->dict, function->dict)."""
    pos = 0
    n = len(text)

    def ws():
        nonlocal pos
        while pos < n and text[pos] in " \t\r\n":
            pos += 1

    def val():
        nonlocal pos
        ws()
        if text.startswith("<<", pos):
            pos += 2
            items = []
            ws()
            if text.startswith(">>", pos):
                pos += 2
                return items
            while True:
                items.append(val())
                ws()
                if text.startswith(">>", pos):
                    pos += 2
                    return items
                assert text[pos] == ",", (text, pos)
                pos += 1
        c = text[pos]
        if c == "{":
            pos += 1
            items = []
            ws()
            if text[pos] == "}":
                pos += 1
                return items
            while True:
                items.append(val())
                ws()
                if text[pos] == "}":
                    pos += 1
                    return items
                assert text[pos] == ",", (text, pos)
                pos += 1
        if c == "[":
            pos += 1
            d = {}
            ws()
            if text[pos] == "]":
                pos += 1
                return d
            while True:
                ws()
                m = re.compile(r"(\w+)\s*\|->").match(text, pos)
                assert m, (text, pos)
                pos = m.end()
                d[m.group(1)] = val()
                ws()
                if text[pos] == "]":
                    pos += 1
                    return d
                assert text[pos] == ",", (text, pos)
                pos += 1
        if c == "(":
            pos += 1
            d = {}
            while True:
                k = val()
                ws()
                assert text.startswith(":>", pos), (text, pos)
                pos += 2
                d[k if not isinstance(k, list) else tuple(k)] = val()
                ws()
                if text.startswith("@@", pos):
                    pos += 2
                    continue
                assert text[pos] == ")", (text, pos)
                pos += 1
                return d
        if c == '"':
            m = re.compile(r'"((?:[^"\\]|\\.)*)"').match(text, pos)
            pos = m.end()
            return m.group(1).replace('\\"', '"').replace("\\\\", "\\")
        m = re.compile(r"-?\d+").match(text, pos)
        if m:
            pos = m.end()
            return int(m.group(0))
        m = re.compile(r"\w+").match(text, pos)
        assert m, (text, pos)
        pos = m.end()
        w = m.group(0)
        return True if w == "TRUE" else False if w == "FALSE" else w

    v = val()
    return v


# ------------------------------------------------------------------------------------------------ context

def canon_hash(obj):
    return hashlib.sha256(json.dumps(obj, sort_keys=True, separators=(",", ":")).encode()).hexdigest()[:16]


class Ctx:
    """Per-check context: tier, seed, scratch dir, evidence accumulation, violation reporting."""

    def __init__(self, prop, tier, level):
        self.prop = prop
        self.tier = os.environ.get("VERIF_TIER") or tier
        if self.tier not in ("quick", "thorough"):
            self.tier = "quick"
        try:
            self.seed = int(os.environ.get("VERIF_SEED", "0"))
        except ValueError:
            self.seed = 0
        self.level = level
        self.t0 = time.time()
        self.rng = random.Random("%s/%d/%s" % (prop, self.seed, self.tier))
        self.scratch = os.path.join(BUILD, "run", "%s-%d" % (prop, os.getpid()))
        shutil.rmtree(self.scratch, ignore_errors=True)
        os.makedirs(self.scratch, exist_ok=True)
        self.cov = {"evaluations": 0, "distinct_nontrivial": 0, "rule": "", "samples": [], "states": 0,
                    "transitions": 0, "traces_validated_against_impl": 0, "exhaustive": False}
        self.assumptions = []
        self.violations = 0
        self.known = 0
        self._distinct = set()
        self.findings = load_known_findings(prop)
        self.quick = self.tier == "quick"

    # --- evidence helpers
    def count(self, case=None, nontrivial=True, n=1):
        """Count an evaluated case; `case` (any JSON-able value) is hashed to measure distinct non-trivial cases."""
        self.cov["evaluations"] += n
        if case is not None and nontrivial:
            self._distinct.add(canon_hash(case))

    def sample(self, s, limit=5):
        if len(self.cov["samples"]) < limit:
            self.cov["samples"].append(s)

    def add_tlc(self, r):
        self.cov["states"] += r.distinct
        self.cov["transitions"] += r.generated

    def budget_left(self, total):
        return total - (time.time() - self.t0)

    def write_evidence(self):
        self.cov["distinct_nontrivial"] = len(self._distinct) if self._distinct else self.cov.get("distinct_nontrivial", 0)
        ev = {"property_id": self.prop, "tier": self.tier, "seed": self.seed, "level": self.level,
              "coverage": self.cov, "assumptions": self.assumptions, "wall_s": round(time.time() - self.t0, 2),
              "violations": self.violations, "known_findings_seen": self.known}
        os.makedirs(os.path.join(OUTDIR, "evidence"), exist_ok=True)
        tmp = os.path.join(OUTDIR, "evidence", ".%s.json.%d" % (self.prop, os.getpid()))
        json.dump(ev, open(tmp, "w"), indent=1, default=str)
        os.replace(tmp, os.path.join(OUTDIR, "evidence", self.prop + ".json"))

    # --- violations
    def violation(self, what, files=None, signature=None, detail=None):
        """Report a violation. `signature`: stable string identifying the failing input/call site; if it matches a
        `known` entry of KNOWN_FINDINGS.jsonl, a KNOWN-FINDING line is printed instead and the check does not fail.
        files: dict name -> content (str) or path to copy, saved under /verif/replays/<prop>/<hash>/."""
        for f in self.findings:
            if f.get("status") == "known" and signature is not None and _sig_match(f.get("signature", ""), signature):
                self.known += 1
                key = "known:" + f.get("signature", "")
                if key not in self._distinct_known:
                    self._distinct_known.add(key)
                    print("KNOWN-FINDING: property=%s %s [%s]" % (self.prop, f.get("what", ""), f.get("signature", "")),
                          flush=True)
                return False
        self.violations += 1
        h = canon_hash([what, signature, detail])[:12]
        d = os.path.join(OUTDIR, "replays", self.prop, h)
        os.makedirs(d, exist_ok=True)
        with open(os.path.join(d, "README.txt"), "w") as f:
            f.write("property %s\nwhat: %s\nsignature: %s\nseed=%d tier=%s\n\n%s\n" %
                    (self.prop, what, signature, self.seed, self.tier, detail or ""))
        for name, content in (files or {}).items():
            dst = os.path.join(d, name)
            if isinstance(content, str) and os.path.exists(content) and "\n" not in content:
                shutil.copy(content, dst)
            else:
                open(dst, "w").write(content if isinstance(content, str) else json.dumps(content, indent=1))
        if self.violations <= 20:
            print("VIOLATION property=%s replay=%s" % (self.prop, d), flush=True)
            log("  what: %s" % what)
        return True

    _distinct_known = set()

    def finish(self):
        self.write_evidence()
        shutil.rmtree(self.scratch, ignore_errors=True)
        return 1 if self.violations else 0


def _sig_match(pattern, signature):
    if pattern == signature:
        return True
    try:
        return re.fullmatch(pattern, signature) is not None
    except re.error:
        return False


def load_known_findings(prop):
    p = os.path.join(VERIF, "KNOWN_FINDINGS.jsonl")
    res = []
    if os.path.exists(p):
        for line in open(p):
            line = line.strip()
            if not line or line.startswith("#"):
                continue
            try:
                j = json.loads(line)
            except ValueError:
                continue
            if j.get("property") == prop:
                res.append(j)
    return res


def parallel_map(fn, items, nproc=None):
    """Run fn over items with a thread pool (the work is in subprocesses)."""
    from concurrent.futures import ThreadPoolExecutor
    with ThreadPoolExecutor(max_workers=nproc or NCPU) as ex:
        return list(ex.map(fn, items))
